#!/usr/bin/env python3
"""Regenerates MANIFEST.json from the table below (kept next to the checks so they cannot drift)."""
import json, subprocess

HOOK_COMMITS = subprocess.run(["git", "-C", "/repo", "log", "--format=%h %s", "--grep=^verif:"],
                              capture_output=True, text=True).stdout.strip().splitlines()

A_NOTE = ("Trusted: std::sync::mpsc and the 30-line native transport (the simulator replaces them by FIFO queues it owns); "
          "the atomicity argument of DESIGN.md 4.2 (each recv;send* piece of Environment::step / Worker::step is two-phase); "
          "hash-iteration order pinned by the hooks; scenario templates over a stated grid.")

CHECKS = {
    "C08": dict(engine="enum", category="exploration", design="5.1, 7/C08",
                technique="exhaustive product of literal values x static-type forms x pattern types x test forms, each its own program, judged by a host-side structural membership model in three execution configurations",
                text="23 values x 3 ways the value reaches the test (exact type / widened by never-taken alternatives) x 26 pattern types (unions, partials, named/unnamed tuples, recursive list alias, function type) x 6 test forms (type pattern, as-pattern, typed tuple field, partial field, block branch, function dispatch) = 10764 programs, plus 28 process-value programs (a process reaching the test through a union-typed variable, as compiled vs tree-shaken), builtin values and a field-refuting union pattern type in the main matrix, and 728+ late-value cases (the test installed by an earlier REPL line / merge, the value - incl. function and builtin values against function types - built by a later one; verdict equal to the same lines as one program): accept => the value inhabits the type; value at its most specific type inhabiting the type => accept; verdict identical directly, tree-shaken, and after real merges into an environment that already holds independently compiled pool programs (every table index shifted); plus 30 typed-receive programs (a typed receive takes the earliest message of its type).",
                note="Host membership model covers the listed values/types only; function types 'unknown'; resource types covered by C14 scenarios."),
    "C19": dict(engine="enum", category="model_checking", design="7/C19",
                technique="explicit-state breadth-first search over operation histories of the real %dict (states are real dict values in real REPL sessions) against a BTreeMap reference",
                text="Keys chosen by exhaustive search (a full 32-bit FNV-1a collision triple incl. Str vs binary, siblings agreeing on 1..6 five-bit fragments, unrelated and edge-slot keys); BFS over all put(k, v in {1,2}) / remove(k) sequences to depth 5 (thorough: to a fixpoint for three key sets): after every transition get of the affected key and count, once per state get/has? of every key, count, entries/keys/values/iter as multisets, from(entries), merge both ways against a value-swapped version; every earlier version re-observed at the end (persistence).",
                note="No separate model to validate: every transition runs on the real implementation (traces_validated = transitions). Bucket order inside a Collision node is counted, not judged (not in the statement)."),
    "C01": dict(engine="enum", category="exploration", design="5.1, 5.2, 7/C01",
                technique="bounded-exhaustive enumeration of typed program skeletons x inhabitant arguments x cores; every accepted program is run and judged by an error classifier and a structural type-membership oracle",
                text="Typed skeletons (functions over union/optional/partial/tuple-with-union/generic/recursive-list parameters and union-typed producers) x every listed inhabitant x every core (all block bodies of the core grammar up to n nodes, typed atoms and their pairings), plus the untyped universe of C02 and fixed probes: an accepted program must end in a value inhabiting the inferred result type (witness-based membership on the program's own type tables), a value-domain error, or the instruction budget; never a stuck-state error or panic. Violations in constructs with a known language-level unsoundness are identified by construct class, everything else by shrunk minimal core.",
                note="Error classifier is a closed list from error.rs; function/process values are 'unknown' for membership; process programs are judged by the Engine-A checks."),
    "C12": dict(engine="enum", category="exploration", design="5.4, 7/C12",
                technique="exhaustive Cartesian products of boundary alphabets and rope shapes for all 45 pure builtins against BigInt/Vec<u8> reference models, in watchdogged child processes",
                text="Every pure builtin on the full product of per-position boundary alphabets (0, +-1, 2^31, 2^32, 2^63, 2^64-1, beyond; bit/lane/byte positions around their own limits) x binary contents x every rope shape with <= 2 constructor steps (before/after materialize) plus the 16 MiB size limit: result equals the plain model or a clean error exactly outside the documented domain; never a panic (overflow checks on) or hang; equal content => equal result over all shapes; a stride also through compiled programs.",
                note="Models follow doc comments, std/int.qv, std/bin.qv; laws where no convention is documented; abstains beyond machine-word index/shift amounts."),
    "C16": dict(engine="enum", category="exploration", design="7/C16",
                technique="exhaustive enumeration of tail-recursive program shapes (target x payload x wrapper sequences) run at N and 50N with profiling, plus a path-complete static height check at every TailCall",
                text="Every shape target(6) x payload(5) x wrapper sequence (12 wrappers, depth <= 2/3) the compiler accepts is run at N=200 and N=10000: peak frames, locals, operand stack equal; heap slots equal with a reclamation point before every instruction; countdown completes; every path reaching TailCall has operand height 1 (self) / 2 (other). Probes for tail calls outside tail position guard the compile-time rejection.",
                note="Growth slower than one cell per ~9800 iterations would not be seen; process loops are outside (single-process runner)."),
    "C18": dict(engine="enum", category="exploration", design="7/C18",
                technique="bounded-exhaustive enumeration of token strings, all single-token mutations and prefixes of a corpus, and nesting ladders, each parsed/compiled in watchdogged child processes",
                text="All strings of <= 4 (thorough 5) tokens over a 43-token alphabet, every char-boundary prefix and single-token deletion/duplication/substitution of 1186 corpus sources, 44 nesting-ladder families to depth 100 (well-formed, unclosed, and with a wrong closer at the bottom), shape families (multi-line strings, alias-spread type expressions, imports of 12 in-memory modules whose top level waits, fails or is fine): parse returns within 2 CPU-seconds with a program or an error whose span lies inside the input on char boundaries with consistent line/column; accepted programs compile to Ok/Err within 5 CPU-seconds; no panic, no crash (one known finding: exponential backtracking on nested parentheses).",
                note="Quick caps per source are reported in caps_hit; texts mentioning std modules compile in a warm session clone (as the REPL does) and failures are re-checked fresh."),
    "C20": dict(engine="enum", category="exploration", design="5.4, 7/C20",
                technique="exhaustive evaluation of all num operations on an operand alphabet (unary, all pairs, law triples) against hand-written exact arithmetic in Q and Q(sqrt n)",
                text="All 22 exports of %num on ints {0,+-1,+-2,3,6,7,+-2^63,2^64+1,10^30}, all rationals of sub-alphabets, nil and surds over radicands {2,3,5,8,12}: every unary cell, every pair, 20 law families on all triples of a 14/24-element sub-alphabet, in wide and literal typing modes, compared structurally against exact BigInt arithmetic in the module's documented canonical form; nil (never a runtime error) for nil operands, zero divisors, incompatible radicals.",
                note="sqrt only where trial division finishes within 4000 steps; abstains where the module documents nothing (numer/denom of a surd, clamp with lo > hi)."),
    "C11": dict(engine="enum", category="model_checking", design="7/C11",
                technique="explicit-state search over REPL line histories (states are real sessions of the real Repl + Environment + workers), each history compared with the one-piece program",
                text="All histories of <= 3 (thorough 4) lines over a 23-line alphabet and of <= 4 (thorough 5) lines over its 16 core lines, chosen to interact (bindings, shadowing, destructuring, type aliases incl. one named like a variable, closures over earlier bindings, previous-result flow, heap binaries and rebinding, imports incl. a compiler-rejected importing line, parse/compile-rejected lines, nil lines, a multi-step line whose middle step is nil, a module type first mentioned by a rejected line) plus every cut of 30 corpus programs into lines, a differential pass for top-level tail-call lines (361 pairs) and a restarted-session pass (a fresh Repl on a used Environment behaves like a fresh environment; 22743 session pairs): per-line value and every bound variable equal the one-piece program; a rejected line leaves the session unchanged (state, and line by line: every later line - accepted or rejected - behaves as in the history without the rejected lines); heap accounting holds after every line.",
                note="One-piece comparison programs hoist type-definition lines (known parser finding); references compare as 'a reference'; functions up to table index."),
    "C02": dict(engine="enum", category="exploration", design="5.2, 5.3, 7/C02, Appendix A",
                technique="bounded-exhaustive enumeration of core-language programs (all programs up to n nodes and all cores x contexts) differentially executed against an independent reference interpreter of docs/spec.md",
                text="Every program of the core grammar with <= 3 (thorough 4) nodes and every core of <= 2 (thorough 3) nodes in each of 37 contexts (incl. locals bound after the core, earlier branches that stored bindings before failing, the flowing value inside spread tuples) is parsed, compiled with the real compiler, run on the real VM, and compared with a direct AST interpreter of docs/spec.md written independently of the compiler (no bytecode, no simplify); compiler-rejected programs and programs on which the reference abstains (spec silent) are counted, not judged; disagreements are shrunk to minimal cores.",
                note="The reference evaluator is a reading of docs/spec.md; it abstains where the spec is silent. Function values compare as 'a function'."),
    "C07": dict(engine="bcverify", category="model_checking", design="6, 7/C07",
                technique="explicit-state reachability over the abstract machine states (pc, operand height, locals count) of every emitted function, with trace conformance against the real VM",
                text="For every function of every accepted program (std, test-suite literals, spec examples, Engine-A scenarios, tail-call probes, and all programs of the core grammar up to n nodes) in four forms (as compiled, tree-shaken, JSON round trip, merged cumulatively into a running environment): the tables are closed (every id inside the type/tuple/builtin tables in range, id graph well-founded), all reachable (pc, h, l) states are visited and jump ranges, operand underflow, single height per pc, exit height 1, Load/Reset within the locals defined on every path, TailCall heights, and every table index are checked. The abstraction is bound to the VM by replaying real executions with the per-instruction trace hook (a disagreement is a machinery failure).",
                note="Transfer functions read off execute_hot/execute_cold; Select modelled by its completed effect; programs limited to the corpus and the enumerated grammar."),
    "C09": dict(engine="enum", category="exploration", design="5.1, 7/C09",
                technique="bounded-exhaustive enumeration of all closed type terms up to a weight bound (recursive, partial, callable and process types included), all ordered pairs and triples, judged by an independent value-membership oracle with concrete witness values",
                text="Every closed contractive type term of depth <= 3 and weight <= 5 (thorough 6; 6945 / 51392 types, unions in every variant order, Cycle references, partials, callables, processes) registered in a real Program: all ordered pairs through is_compatible / types_overlap and, where either answers true or the operands share an enumerated value, intersect_types / compute_complement; soundness alarms are concrete values (compatible but a value of A is not in B; shared value but no overlap; a value of A and B missing from the intersection; a value of A not B missing from the complement); reflexivity incl. variant-reversed copies and transitivity on all triples of the light types. The relation's stack overflows are isolated in a supervised worker process.",
                note="Membership is exact for data values; three-valued for function/process tokens (unknown never alarms); process send variance abstained (docs silent). Seven known findings (partial names, partial/tuple overlap, callable overlap, unbounded recursion on recursive callables, cycle handling in the relation and in narrowing)."),
    "C10": dict(engine="enum", category="exploration", design="7/C10",
                technique="bounded-exhaustive differential execution of every program of a corpus + core grammar through every packaging path (tree-shake, JSON round trip, compile/run pipeline with capture injection, real merges into a running environment after every ordered pool sequence, import forms) against the as-compiled run",
                text="34361 programs (test-suite literals, std modules, all core-grammar programs of <= 3 nodes, cores in packaging contexts, a module-shaped closure/record family): the index-free rendering of the result (functions by structural fingerprint with every table operand resolved) or the error kind is equal as compiled, tree-shaken, after JSON write/read (byte-stable), through the quiv compile/run pipeline in three wrappers incl. value capture injection, after real merges of independently compiled units into one Environment for every ordered sequence of a 6-program pool chosen to shift every table (as compiled and shaken), as REPL lines, and through seven import forms against the body evaluated in place; a fixed subset through the real quiv binary.",
                note="REPL path compares data only; refs in captured/module values abstained (cannot be re-emitted as instructions); contexts capped at 2-node cores."),
    "C13": dict(engine="enum", category="exploration", design="7/C13",
                technique="exhaustive matrix of value universe x 16 construction paths x comparison forms (all ordered pairs, verdict-equal triples) against host structural equality, in the sync VM and in real multi-worker REPL sessions; ref identity additionally under every schedule within a deviation bound",
                text="110 (thorough 301) values - ints incl. 2^70, binaries incl. equal-length pairs, named/labelled/nested tuples, closures over int/binary/generic captures, refs minted in several processes, process values - each reached by up to 16 construction paths (literal, computed, spread, generic identity/constructor, union result, field of a larger tuple, module import, closure capture, message with typed receive, built in / captured by another process, self reference): every ordered pair under pin equality, repeated-binder equality, literal patterns and triples; verdict = host structural equality, matrices reflexive / symmetric / transitive; refs(n) minting shapes x worker counts x transports, a subset under every schedule with <= 2 deviations.",
                note="Tuple literal patterns whose name/labels differ from the value's are abstained (spec examples contradict the implementation); textually identical function definitions are deduplicated by the implementation and called equal (observed, not judged)."),
    "C17": dict(engine="enum", category="exploration", design="7/C17",
                technique="bounded-exhaustive enumeration of token strings, trivia placements and width ladders plus a corpus, each formatted by the real formatter and judged by reparse / AST equality modulo documented no-op rewrites / idempotence / comment and string preservation",
                text="Every accepted program over a formatter-relevant token alphabet up to a token bound, with comments and blank lines inserted at every token gap, identifiers and strings stretched across the line-width boundary, every string style and hole nesting, plus test-suite, std and example sources: the output parses, compiles to the same bytecode / same program (AST equality modulo the rewrites the formatter documents), format(format(x)) = format(x), every comment survives exactly once in order, string contents byte-equal; no panic.",
                note="Eight known findings remain open after eleven formatter fixes (comment order, comments in string holes, bare type binding patterns, ...); see known_findings.json."),
    "C14": dict(engine="sim", category="model_checking", design="4, 7/C14",
                technique="stateless model checking of the real runtime over an instrumented effect backend with scheduler-controlled completion; host-side ownership model on the consumed event stream",
                text="Resource scenarios over the real file and TCP builtins (in-memory backend: files, listeners, accepted sockets) and the real ownership logic under every schedule within the deviation bound, effects immediate or deferred: backend calls vs the calls the ownership rules allow after every environment step, runtime closes only for terminated owners and at most once, at quiescence every resource of a terminated owner is closed (a sleeping session process counts as alive; a failed one as terminated).",
                note=A_NOTE + " io_uring/native registry replaced by an in-memory backend."),
    "C15": dict(engine="sim", category="model_checking", design="4, 7/C15",
                technique="stateless model checking of the real runtime with failure-placement scenarios and per-process result expectations",
                text="A failing operation in each process role under every schedule within the deviation bound: awaiters have exactly the failed process's error, non-awaiters their normal results, no panic/Err from Worker::step or Environment::step, no hang, no lost completion.",
                note=A_NOTE),
    "C05": dict(engine="sim", category="model_checking", design="4, 7/C05",
                technique="stateless model checking of the real runtime with a select-conformance monitor (hooked entry/exit snapshots judged by a host reference of the documented select semantics)",
                text="select_mix/fanout_race/late_await/typed_mail scenarios under every schedule within the deviation bound including virtual-clock advances; every handle_select entry is judged: winning source = first ready in written order, message = earliest of its type accepted by its filter, value = the message (never the verdict) / nil / awaited result, mailbox afterwards = before minus that message in order, a parked select had nothing ready, timeouts not early; plus completion conservation and program-level accounting of selected + drained + remaining messages.",
                note=A_NOTE + " Filters come from a closed family with host-known verdicts."),
    "C06": dict(engine="sim", category="model_checking", design="4, 7/C06",
                technique="stateless model checking of the real runtime with heap-accounting invariants after every worker action, down to one instruction per time slice",
                text="Binary-churn scenarios (incl. a bodied filter holding a heap binary while a source written before it completes the select) under every schedule within the deviation bound and every quantum in {1,2,3,1000}, plus every REPL history of <= 4 (thorough 5) lines over a 13-line heap-binary alphabet (rebinding, aliasing, alias of the same name, temporaries, rejected line, a process that duplicates and returns a binary) on 1-3 workers with the same invariants after every line: after every worker action the refcount<=>reachability invariant, freed/free-list consistency, and at quiescence no unreachable unreclaimed slot; result bytes equal host-computed bytes; the repository's own debug assertions are live.",
                note=A_NOTE),
    "C03": dict(engine="sim", category="model_checking", design="4, 7/C03",
                technique="stateless model checking of the real runtime: deviation-bounded exhaustive schedule enumeration (+ explicit-state search in thorough) under a controlled scheduler",
                text="Every schedule with <= d deviations from the default (d=2 quick, 3 thorough) of the real Environment/Worker/Executor, for every confluent scenario x worker count x quantum, plus unbounded explicit-state search on the small configurations in the thorough tier; each run is an implementation trace. Right level: the property quantifies over schedules and configurations, which only exhaustive enumeration under an owned scheduler decides.",
                note=A_NOTE),
    "C04": dict(engine="sim", category="model_checking", design="4, 7/C04",
                technique="stateless model checking of the real runtime with state invariants (message/completion conservation, poke test at quiescence)",
                text="Same exploration over all message-passing families; invariants evaluated after every action (no duplicate message anywhere in queues+mailboxes; every completion an awaiting select needs is in transit) and at quiescence (entry result delivered, nobody waits for a spawn notification, poke test finds no lost wake-up); program-level receive logs give exactly-once and per-sender FIFO.",
                note=A_NOTE),
}

NOT_YET = {}

def main():
    props = [json.loads(l) for l in open("/verif/properties.jsonl")]
    checks = []
    na = []
    for p in props:
        pid = p["id"]
        if pid in CHECKS:
            c = CHECKS[pid]
            checks.append({
                "property_id": pid,
                "quick_cmd": f"./check {pid} quick",
                "thorough_cmd": f"./check {pid} thorough",
                "evidence_file": f"evidence/{pid}.json",
                "replay_cmd_template": f"./check {pid} --replay {{path}}",
                "engine": c["engine"],
                "level_claimed": {"category": c["category"], "text": c["text"], "design_ref": c["design"]},
                "level_note": c["note"],
                "technique": c["technique"],
            })
        else:
            na.append({"property_id": pid,
                       "reason": NOT_YET.get(pid, "check not built yet in this round (no claim is made); see DESIGN.md section 7 for the planned bounded-exhaustive check")})
    manifest = {
        "version": 1,
        "setup_cmd": "./setup.sh",
        "hooks": {
            "guard": "cargo feature `verif` on quiver-core, quiver-compiler, quiver-environment (default off)",
            "enable": "engine/Cargo.toml path-depends on /repo's crates with features=[\"verif\"]; ./check rebuilds from /repo's working tree",
            "baseline_off_cmd": "cd /repo && cargo nextest run --workspace --no-fail-fast --tool-config-file pb:/w/lib/nextest.toml --profile pb --test-threads 8 --offline || cargo test --workspace --no-fail-fast --offline",
            "source_commits": HOOK_COMMITS,
            "add_only": True,
        },
        "engines": [
            {"name": "sim", "path": "engine/src/sim", "serves_properties": [k for k, v in CHECKS.items() if v["engine"] == "sim"],
             "kind_free_text": "Engine A: exhaustive schedule exploration (stateless, deviation-bounded; explicit-state with fingerprint cache) of the real Environment/Worker/Executor over harness-owned queues, clock and effect backend; workers run as coroutines cut at every try_recv"},
            {"name": "enum", "path": "engine/src", "serves_properties": [k for k, v in CHECKS.items() if v["engine"] == "enum"],
             "kind_free_text": "Engine B: bounded-exhaustive enumeration of programs/inputs/histories against reference models written in Rust"},
            {"name": "bcverify", "path": "engine/src/bcverify", "serves_properties": [k for k, v in CHECKS.items() if v["engine"] == "bcverify"],
             "kind_free_text": "Engine C: reachability over abstract machine states (pc, height, locals) of every emitted function, bound to the VM by trace conformance"},
        ],
        "checks": checks,
        "not_applicable": na,
        "notes": "One binary (engine/target/verif/qv) serves all checks; ./check rebuilds it from /repo's current tree first. Exit 2 = machinery failure, never a verdict. Known findings: known_findings.json (signature-based).",
    }
    json.dump(manifest, open("/verif/MANIFEST.json", "w"), indent=1)
    print("claimed:", [c["property_id"] for c in checks], "unclaimed:", len(na))

main()
