//! Canonical, structure-revealing rendering of runtime values (independent of
//! `quiver_core::format`, which abbreviates binaries and special-cases `Str`/`Rational`).

use quiver_core::bytecode::Constant;
use quiver_core::types::TypeLookup;
use quiver_core::value::{Binary, Value};
use std::collections::BTreeMap;

pub struct Renderer<'a> {
    pub types: &'a dyn TupleNames,
    pub heap: &'a [Vec<u8>],
    pub constants: &'a [Constant],
    /// Canonical names for process ids (spawn paths); raw `@pid` when absent.
    pub pid_names: Option<&'a dyn Fn(usize) -> String>,
    /// Refs are renamed by first occurrence when set.
    pub ref_names: Option<&'a std::cell::RefCell<BTreeMap<u64, usize>>>,
}

pub trait TupleNames {
    fn tuple(&self, id: usize) -> Option<(Option<String>, Vec<Option<String>>)>;
}

impl<T: TypeLookup> TupleNames for T {
    fn tuple(&self, id: usize) -> Option<(Option<String>, Vec<Option<String>>)> {
        self.lookup_tuple(id).map(|t| {
            (
                t.name.clone(),
                t.fields.iter().map(|(n, _)| n.clone()).collect(),
            )
        })
    }
}

impl Renderer<'_> {
    pub fn bytes(&self, b: &Binary) -> Option<Vec<u8>> {
        match b {
            Binary::Heap(i) => self.heap.get(*i).cloned(),
            Binary::Constant(i) => match self.constants.get(*i) {
                Some(Constant::Binary(b)) => Some(b.clone()),
                _ => None,
            },
        }
    }

    pub fn render(&self, v: &Value) -> String {
        match v {
            Value::Integer(i) => i.to_string(),
            Value::Binary(b) => match self.bytes(b) {
                Some(bytes) => format!(
                    "0x{}",
                    bytes.iter().map(|b| format!("{:02x}", b)).collect::<String>()
                ),
                None => format!("<dangling {:?}>", b),
            },
            Value::Reference(r) => match self.ref_names {
                Some(names) => {
                    let mut n = names.borrow_mut();
                    let next = n.len();
                    let k = *n.entry(*r).or_insert(next);
                    format!("&ref{}", k)
                }
                None => format!("&{}:{}", r >> 48, r & 0xFFFF_FFFF_FFFF),
            },
            Value::Tuple(id, fields) => {
                let (name, labels) = self
                    .types
                    .tuple(*id)
                    .unwrap_or((Some(format!("T{}", id)), vec![]));
                let inner: Vec<String> = fields
                    .iter()
                    .enumerate()
                    .map(|(i, f)| match labels.get(i).cloned().flatten() {
                        Some(l) => format!("{}: {}", l, self.render(f)),
                        None => self.render(f),
                    })
                    .collect();
                match (name, inner.is_empty()) {
                    (Some(n), true) => n,
                    (Some(n), false) => format!("{}[{}]", n, inner.join(", ")),
                    (None, _) => format!("[{}]", inner.join(", ")),
                }
            }
            Value::Function(idx, caps) => {
                if caps.is_empty() {
                    format!("#{}", idx)
                } else {
                    format!(
                        "#{}{{{}}}",
                        idx,
                        caps.iter().map(|c| self.render(c)).collect::<Vec<_>>().join(", ")
                    )
                }
            }
            Value::Builtin(i) => format!("__builtin{}__", i),
            Value::Process(pid, _) => match self.pid_names {
                Some(f) => format!("@{}", f(*pid)),
                None => format!("@{}", pid),
            },
            Value::Resource(id, ty) => format!("\\#{}:{}", id, ty),
        }
    }
}
