//! C02 — compiled execution agrees with the reference semantics (Engine B).

use crate::infra::{Budget, Report, Tier, Violation};
use crate::progen;
use crate::qcompile;
use crate::refeval::{self, Stop};
use crate::render::Renderer;
use crate::runsync::{self, Run};
use rayon::prelude::*;
use serde_json::{Value as J, json};
use std::collections::BTreeMap;

#[derive(Default)]
struct Acc {
    total: u64,
    rejected: u64,
    accepted: u64,
    judged: u64,
    abstained: BTreeMap<String, u64>,
    budget: u64,
    needs_runtime: u64,
    nontrivial: u64,
    errors_agreed: u64,
    violations: Vec<(String, String, String, String)>, // (kind, source, expected, observed)
    samples: Vec<J>,
}

impl Acc {
    fn merge(&mut self, o: Acc) {
        self.total += o.total;
        self.rejected += o.rejected;
        self.accepted += o.accepted;
        self.judged += o.judged;
        for (k, v) in o.abstained {
            *self.abstained.entry(k).or_insert(0) += v;
        }
        self.budget += o.budget;
        self.needs_runtime += o.needs_runtime;
        self.nontrivial += o.nontrivial;
        self.errors_agreed += o.errors_agreed;
        self.violations.extend(o.violations);
        if self.samples.len() < 5 {
            self.samples.extend(o.samples);
            self.samples.truncate(5);
        }
    }
}

pub enum Verdict {
    Rejected,
    Abstain(String),
    Agree { nontrivial: bool, value: String },
    ErrorsAgree,
    Budget,
    NeedsRuntime,
    Disagree { kind: &'static str, expected: String, observed: String },
}

pub fn render_impl(unit: &qcompile::CompiledUnit, v: &quiver_core::value::Value, ex: &quiver_core::executor::Executor<qcompile::E>) -> String {
    let (pv, heap) = ex.extract_heap_data(v).unwrap_or((v.clone(), vec![]));
    let r = Renderer {
        types: &unit.program,
        heap: &heap,
        constants: unit.program.get_constants(),
        pid_names: None,
        ref_names: None,
    };
    // function values compare loosely (`#fn`), as the reference renders them
    strip_functions(&r.render(&pv))
}

fn strip_functions(s: &str) -> String {
    // `#12{...}` / `#12` / `__builtinN__` -> `#fn`
    let mut out = String::new();
    let b: Vec<char> = s.chars().collect();
    let mut i = 0;
    while i < b.len() {
        if b[i] == '#' {
            let mut j = i + 1;
            while j < b.len() && b[j].is_ascii_digit() {
                j += 1;
            }
            if j > i + 1 {
                if j < b.len() && b[j] == '{' {
                    let mut depth = 0;
                    while j < b.len() {
                        if b[j] == '{' {
                            depth += 1;
                        }
                        if b[j] == '}' {
                            depth -= 1;
                            if depth == 0 {
                                j += 1;
                                break;
                            }
                        }
                        j += 1;
                    }
                }
                out.push_str("#fn");
                i = j;
                continue;
            }
        }
        if s[s.char_indices().nth(i).map(|x| x.0).unwrap_or(0)..].starts_with("__builtin") {
            let rest: String = b[i..].iter().collect();
            if let Some(end) = rest[2..].find("__") {
                out.push_str("#fn");
                i += end + 4;
                continue;
            }
        }
        out.push(b[i]);
        i += 1;
    }
    out
}

pub fn judge(source: &str) -> Verdict {
    let builtins = qcompile::core_builtins();
    let unit = match std::panic::catch_unwind(|| qcompile::compile(source, &builtins)) {
        Ok(Ok(u)) => u,
        Ok(Err(_)) => return Verdict::Rejected,
        Err(_) => return Verdict::Rejected, // compiler panics are C18's business
    };
    let reference = refeval::evaluate(source, 20_000);
    let expected = match reference {
        Err(Stop::Abstain(why)) => return Verdict::Abstain(why),
        Err(Stop::Budget) => return Verdict::Budget,
        Err(Stop::Return(_)) => return Verdict::Abstain("stray return".into()),
        other => other,
    };
    match runsync::run(unit.bytecode(), &builtins, 200, false) {
        Run::Budget => Verdict::Budget,
        Run::NeedsRuntime => Verdict::NeedsRuntime,
        Run::Panic(p) => Verdict::Disagree {
            kind: "panic",
            expected: format!("{:?}", expected),
            observed: format!("panic: {}", p),
        },
        Run::Error(e) => match expected {
            Err(Stop::Error(_)) if !runsync::is_stuck_state(&e) => Verdict::ErrorsAgree,
            _ => Verdict::Disagree {
                kind: if runsync::is_stuck_state(&e) { "stuck" } else { "error" },
                expected: format!("{:?}", expected),
                observed: format!("runtime error {:?}", e),
            },
        },
        Run::Value(v, ex) => {
            let got = render_impl(&unit, &v, &ex);
            match expected {
                Ok(want) if want == got => Verdict::Agree {
                    nontrivial: source.contains('{') || source.contains('=') ,
                    value: got,
                },
                Ok(want) => Verdict::Disagree {
                    kind: "value",
                    expected: want,
                    observed: got,
                },
                Err(e) => Verdict::Disagree {
                    kind: "value-vs-error",
                    expected: format!("{:?}", e),
                    observed: got,
                },
            }
        }
    }
}

fn tokens(src: &str) -> Vec<String> {
    let mut out = vec![];
    let mut cur = String::new();
    for ch in src.chars() {
        if ch.is_alphanumeric() || ch == '_' || ch == '\'' {
            cur.push(ch);
        } else {
            if !cur.is_empty() {
                out.push(std::mem::take(&mut cur));
            }
            out.push(ch.to_string());
        }
    }
    if !cur.is_empty() {
        out.push(cur);
    }
    out
}

/// Shrinking predicate: the candidate still disagrees in the same way *and* still is not
/// attributable to a known-defect construct class — a shrinker that only preserves "some
/// disagreement" drifts from a new defect into the nearest known one.
fn disagrees(src: &str, kind: &str) -> bool {
    matches!(judge(src), Verdict::Disagree { kind: k, .. } if k == kind) && crate::c01::construct_class(src).is_none()
}

/// Token-level shrinker (windows of 1..=3 tokens, then bracket pairs) to a fixpoint.
pub fn shrink(src: &str, kind: &str) -> String {
    let mut toks = tokens(src);
    let mut changed = true;
    while changed {
        changed = false;
        for w in (1..=3).rev() {
            let mut i = 0;
            while i + w <= toks.len() {
                let mut cand = toks.clone();
                cand.drain(i..i + w);
                let text: String = cand.concat();
                if !text.trim().is_empty() && disagrees(&text, kind) {
                    toks = cand;
                    changed = true;
                } else {
                    i += 1;
                }
            }
        }
        let mut i = 0;
        'outer: while i < toks.len() {
            if toks[i] == "[" || toks[i] == "{" || toks[i] == "(" {
                for j in (i + 1..toks.len()).rev() {
                    if toks[j] == "]" || toks[j] == "}" || toks[j] == ")" {
                        let mut cand = toks.clone();
                        cand.remove(j);
                        cand.remove(i);
                        let text: String = cand.concat();
                        if !text.trim().is_empty() && disagrees(&text, kind) {
                            toks = cand;
                            changed = true;
                            continue 'outer;
                        }
                    }
                }
            }
            i += 1;
        }
    }
    let text: String = toks.concat();
    let lines: Vec<String> = text
        .lines()
        .map(|l| l.split_whitespace().collect::<Vec<_>>().join(" "))
        .filter(|l| !l.is_empty())
        .collect();
    lines.join(" ⏎ ")
}

fn handle(source: &str) -> Acc {
    let mut acc = Acc::default();
    acc.total = 1;
    match judge(source) {
        Verdict::Rejected => acc.rejected = 1,
        Verdict::Abstain(why) => {
            acc.accepted = 1;
            *acc.abstained.entry(why).or_insert(0) += 1;
        }
        Verdict::Budget => {
            acc.accepted = 1;
            acc.budget = 1;
        }
        Verdict::NeedsRuntime => {
            acc.accepted = 1;
            acc.needs_runtime = 1;
        }
        Verdict::ErrorsAgree => {
            acc.accepted = 1;
            acc.judged = 1;
            acc.errors_agreed = 1;
        }
        Verdict::Agree { nontrivial, value } => {
            acc.accepted = 1;
            acc.judged = 1;
            if nontrivial {
                acc.nontrivial = 1;
                if source.len() > 12 && source.len() % 7 == 0 {
                    acc.samples.push(json!({"source": source, "value": value}));
                }
            }
        }
        Verdict::Disagree { kind, expected, observed } => {
            acc.accepted = 1;
            acc.judged = 1;
            acc.violations.push((kind.to_string(), source.to_string(), expected, observed));
        }
    }
    acc
}

pub fn run(tier: Tier) -> Result<Report, String> {
    let thorough = tier == Tier::Thorough;
    let budget = Budget::new(if thorough { 700.0 } else { 40.0 });
    let n = if thorough { 4 } else { 3 };
    let cap = if thorough { 4_000_000 } else { 200_000 };
    let mut programs = progen::programs(n, cap);
    let flat = programs.len();
    let ctx_nodes = if thorough { 3 } else { 2 };
    let (ctx_programs, ctx_capped) = progen::in_contexts(ctx_nodes, if thorough { 6_000_000 } else { 200_000 });
    programs.extend(ctx_programs);
    let in_ctx = programs.len() - flat;
    let before_typed = programs.len();
    programs.extend(crate::c01::typed_programs(thorough));
    let typed = programs.len() - before_typed;
    let total = programs.len();
    let acc = programs
        .par_chunks(512)
        .map(|chunk| {
            crate::sim::system::install_panic_recorder();
            let mut a = Acc::default();
            if budget.exhausted() {
                return a;
            }
            for p in chunk {
                a.merge(handle(p));
            }
            a
        })
        .reduce(Acc::default, |mut a, b| {
            a.merge(b);
            a
        });
    let covered = acc.total;
    // shrink violations to cores
    let mut pairs: Vec<(String, String, String, String)> = acc.violations.clone();
    pairs.sort();
    pairs.dedup_by(|a, b| a.0 == b.0 && a.1 == b.1);
    let shrunk: Vec<(String, String, String, String, String)> = pairs
        .par_iter()
        .map(|(kind, src, exp, obs)| {
            crate::sim::system::install_panic_recorder();
            let k: &str = kind;
            // a violation attributable to a known-defect class keeps its source (the class is
            // the signature); everything else is shrunk, class-preservingly, to a minimal core
            let core = if crate::c01::construct_class(src).is_some() {
                src.replace('\n', " ⏎ ")
            } else {
                shrink(src, match k { "value" => "value", "stuck" => "stuck", "error" => "error", "panic" => "panic", _ => "value-vs-error" })
            };
            (kind.clone(), core, src.clone(), exp.clone(), obs.clone())
        })
        .collect();
    let mut by_sig: BTreeMap<String, Violation> = BTreeMap::new();
    for (kind, core, src, exp, obs) in shrunk {
        let sig = match crate::c01::construct_class(&core) {
            Some(class) => format!("{}|{}", kind, class),
            None => format!("{}|{}", kind, core),
        };
        by_sig.entry(sig.clone()).or_insert_with(|| {
            let (e2, o2) = match judge(&core.replace(" ⏎ ", "\n")) {
                Verdict::Disagree { expected, observed, .. } => (expected, observed),
                _ => (exp.clone(), obs.clone()),
            };
            Violation {
                signature: sig,
                summary: format!("`{}`: the reference semantics give {} but compiled execution gives {} (first seen in `{}`)", core, e2, o2, src),
                replay: json!({"engine": "c02", "source": core.replace(" ⏎ ", "\n"), "original": src}),
            }
        });
    }
    let exhaustive = covered as usize == total;
    let coverage = json!({
        "evaluations": covered,
        "distinct_nontrivial": acc.nontrivial,
        "rule": "all programs of the core grammar (engine/src/progen.rs: 27 atoms, tuples/blocks/branches/consequences/patterns/bindings/builtin calls/strings) with at most max_nodes nodes, plus every core of at most context_core_nodes nodes embedded in each of the hand-listed contexts (function bodies, block branches, consequences, tuple fields with a flowing value, string holes, after bindings); each distinct source text once. Non-trivial = accepted by the compiler, judged by the reference evaluator (not abstained), agreeing, and containing a block, pattern or binding.",
        "exhaustive": exhaustive,
        "max_nodes": n,
        "context_core_nodes": ctx_nodes,
        "programs_flat": flat,
        "programs_in_contexts": in_ctx,
        "programs_in_typed_contexts": typed,
        "contexts": progen::CONTEXTS.len(),
        "rejected_by_compiler": acc.rejected,
        "accepted": acc.accepted,
        "judged": acc.judged,
        "agreeing_runtime_errors": acc.errors_agreed,
        "not_judged": {"reference_abstained": acc.abstained, "instruction_budget": acc.budget, "needs_process_runtime": acc.needs_runtime},
        "disagreements_before_shrinking": acc.violations.len(),
        "caps_hit": {"wall_budget_exhausted": budget.exhausted(), "programs_not_reached": total as u64 - covered, "context_products_capped": ctx_capped},
        "samples": acc.samples,
    });
    Ok(Report {
        property: "C02",
        level: "exploration",
        coverage,
        assumptions: vec![
            "the reference evaluator (engine/src/refeval.rs) is a reading of docs/spec.md (DESIGN.md Appendix A); it abstains where the spec is silent (callable unions, binders of a failed mid-chain match, imports, processes, builtins outside {integer add/subtract/multiply/divide, binary concat}, parameter inference of un-annotated function literals, function equality)".into(),
            "function values are compared only as 'a function'".into(),
        ],
        violations: by_sig.into_values().collect(),
    })
}

pub fn replay(replay: &J) -> Result<bool, String> {
    let src = replay["source"].as_str().ok_or("no source")?;
    println!("  source: {}", src);
    println!("  reference evaluator: {:?}", refeval::evaluate(src, 20_000));
    match judge(src) {
        Verdict::Disagree { kind, expected, observed } => {
            println!("  compiled execution: {}", observed);
            println!("  observed: disagreement ({}): expected {}, got {}", kind, expected, observed);
            Ok(true)
        }
        Verdict::Agree { value, .. } => {
            println!("  compiled execution: {}", value);
            println!("  observed: agreement");
            Ok(false)
        }
        Verdict::Rejected => {
            println!("  observed: the compiler rejects the program now");
            Ok(false)
        }
        _ => {
            println!("  observed: not judged (abstain/budget)");
            Ok(false)
        }
    }
}
