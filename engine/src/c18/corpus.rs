//! Corpus of valid Quiver sources (read-only from the repository) and the lossless lexer that
//! defines what a "token" is for prefixes / deletions / duplications / substitutions.

use serde::{Deserialize, Serialize};
use std::collections::BTreeMap;
use std::path::Path;

#[derive(Clone, Debug, Serialize, Deserialize)]
pub struct Source {
    pub id: String,
    pub text: String,
}

#[derive(Default, Debug, Serialize)]
pub struct CorpusStats {
    pub std_files: usize,
    pub example_files: usize,
    pub spec_blocks: usize,
    pub test_files_scanned: usize,
    pub test_call_sites: usize,
    pub test_literals: usize,
    pub test_format_templates_skipped: usize,
    pub test_non_literal_args_skipped: usize,
    pub duplicates_removed: usize,
    pub sources: usize,
    pub total_bytes: usize,
    pub total_tokens: usize,
    pub non_ascii_sources: usize,
}

fn sorted_files(dir: &Path, ext: &str, recursive: bool, out: &mut Vec<std::path::PathBuf>) {
    let Ok(rd) = std::fs::read_dir(dir) else {
        return;
    };
    let mut entries: Vec<_> = rd.filter_map(|e| e.ok()).map(|e| e.path()).collect();
    entries.sort();
    for p in entries {
        if p.is_dir() {
            if recursive {
                sorted_files(&p, ext, recursive, out);
            }
        } else if p.extension().and_then(|e| e.to_str()) == Some(ext) {
            out.push(p);
        }
    }
}

/// Collect the corpus in a fixed order: std/*.qv, examples/**, spec blocks, test literals.
pub fn collect(repo: &Path) -> Result<(Vec<Source>, CorpusStats), String> {
    let mut stats = CorpusStats::default();
    let mut raw: Vec<Source> = vec![];

    let mut files = vec![];
    sorted_files(&repo.join("std"), "qv", false, &mut files);
    for f in &files {
        let text = std::fs::read_to_string(f).map_err(|e| format!("{}: {}", f.display(), e))?;
        raw.push(Source {
            id: format!("std/{}", f.file_name().unwrap().to_string_lossy()),
            text,
        });
        stats.std_files += 1;
    }
    if stats.std_files == 0 {
        return Err(format!("no std/*.qv under {}", repo.display()));
    }

    let mut files = vec![];
    sorted_files(&repo.join("examples"), "qv", true, &mut files);
    for f in &files {
        let text = std::fs::read_to_string(f).map_err(|e| format!("{}: {}", f.display(), e))?;
        let rel = f.strip_prefix(repo).unwrap_or(f);
        raw.push(Source {
            id: rel.to_string_lossy().into_owned(),
            text,
        });
        stats.example_files += 1;
    }

    let spec = std::fs::read_to_string(repo.join("docs/spec.md")).map_err(|e| format!("docs/spec.md: {}", e))?;
    for (i, block) in spec_blocks(&spec).into_iter().enumerate() {
        raw.push(Source {
            id: format!("spec#{}", i),
            text: block,
        });
        stats.spec_blocks += 1;
    }

    let mut files = vec![];
    sorted_files(&repo.join("quiver-tests/tests"), "rs", false, &mut files);
    for f in &files {
        let text = std::fs::read_to_string(f).map_err(|e| format!("{}: {}", f.display(), e))?;
        stats.test_files_scanned += 1;
        let name = f.file_name().unwrap().to_string_lossy().into_owned();
        for (i, lit) in scan_rust_literals(&text, &mut stats).into_iter().enumerate() {
            raw.push(Source {
                id: format!("tests/{}#{}", name, i),
                text: lit,
            });
        }
    }

    // Deduplicate by text, keeping the first occurrence (fixed order above).
    let mut seen: BTreeMap<String, ()> = BTreeMap::new();
    let mut out = vec![];
    for s in raw {
        if seen.insert(s.text.clone(), ()).is_some() {
            stats.duplicates_removed += 1;
            continue;
        }
        out.push(s);
    }
    stats.sources = out.len();
    stats.total_bytes = out.iter().map(|s| s.text.len()).sum();
    stats.total_tokens = out.iter().map(|s| lex(&s.text).len()).sum();
    stats.non_ascii_sources = out.iter().filter(|s| !s.text.is_ascii()).count();
    Ok((out, stats))
}

/// The fenced ```quiver blocks of a markdown text.
pub fn spec_blocks(md: &str) -> Vec<String> {
    let mut out = vec![];
    let mut cur: Option<String> = None;
    for line in md.split_inclusive('\n') {
        let t = line.trim();
        match &mut cur {
            None => {
                if t.starts_with("```quiver") {
                    cur = Some(String::new());
                }
            }
            Some(buf) => {
                if t == "```" {
                    out.push(cur.take().unwrap());
                } else {
                    buf.push_str(line);
                }
            }
        }
    }
    out
}

/// Every plain string literal that is the first argument of `evaluate(` / `then_evaluate(`.
/// `format!` templates and other non-literal arguments are skipped and counted.
pub fn scan_rust_literals(src: &str, stats: &mut CorpusStats) -> Vec<String> {
    let b = src.as_bytes();
    let mut out = vec![];
    let needle = b"evaluate(";
    let mut i = 0;
    while i + needle.len() <= b.len() {
        if &b[i..i + needle.len()] != needle {
            i += 1;
            continue;
        }
        // The word must be `evaluate` or `then_evaluate` (not e.g. `reevaluate`).
        let mut ws = i;
        while ws > 0 && (b[ws - 1].is_ascii_alphanumeric() || b[ws - 1] == b'_') {
            ws -= 1;
        }
        let word = &src[ws..i + needle.len() - 1];
        i += needle.len();
        if word != "evaluate" && word != "then_evaluate" {
            continue;
        }
        // A definition `fn evaluate(` is not a call site.
        let before = src[..ws].trim_end();
        if before.ends_with("fn") {
            continue;
        }
        stats.test_call_sites += 1;
        let mut j = i;
        while j < b.len() && b[j].is_ascii_whitespace() {
            j += 1;
        }
        let mut k = j;
        if k < b.len() && b[k] == b'&' {
            k += 1;
            while k < b.len() && b[k].is_ascii_whitespace() {
                k += 1;
            }
        }
        if src[k..].starts_with("format!(") {
            stats.test_format_templates_skipped += 1;
            continue;
        }
        match parse_rust_string(src, k) {
            Some((lit, end)) => {
                stats.test_literals += 1;
                out.push(lit);
                i = end;
            }
            None => {
                stats.test_non_literal_args_skipped += 1;
            }
        }
    }
    out
}

/// Parse a Rust string literal (`"…"` with escapes, or `r"…"` / `r#"…"#`) starting at byte `at`.
fn parse_rust_string(src: &str, at: usize) -> Option<(String, usize)> {
    let b = src.as_bytes();
    if at >= b.len() {
        return None;
    }
    if b[at] == b'r' {
        let mut k = at + 1;
        let mut hashes = 0;
        while k < b.len() && b[k] == b'#' {
            hashes += 1;
            k += 1;
        }
        if k >= b.len() || b[k] != b'"' {
            return None;
        }
        k += 1;
        let close = format!("\"{}", "#".repeat(hashes));
        let end = src[k..].find(&close)?;
        return Some((src[k..k + end].to_string(), k + end + close.len()));
    }
    if b[at] != b'"' {
        return None;
    }
    let mut out = String::new();
    let mut it = src[at + 1..].char_indices().peekable();
    while let Some((off, c)) = it.next() {
        match c {
            '"' => return Some((out, at + 1 + off + 1)),
            '\\' => {
                let (_, e) = it.next()?;
                match e {
                    'n' => out.push('\n'),
                    'r' => out.push('\r'),
                    't' => out.push('\t'),
                    '0' => out.push('\0'),
                    '\\' => out.push('\\'),
                    '\'' => out.push('\''),
                    '"' => out.push('"'),
                    'x' => {
                        let (_, h1) = it.next()?;
                        let (_, h2) = it.next()?;
                        let v = u8::from_str_radix(&format!("{}{}", h1, h2), 16).ok()?;
                        out.push(v as char);
                    }
                    'u' => {
                        let (_, open) = it.next()?;
                        if open != '{' {
                            return None;
                        }
                        let mut hex = String::new();
                        loop {
                            let (_, h) = it.next()?;
                            if h == '}' {
                                break;
                            }
                            if h != '_' {
                                hex.push(h);
                            }
                        }
                        out.push(char::from_u32(u32::from_str_radix(&hex, 16).ok()?)?);
                    }
                    '\n' => {
                        // Line continuation: skip the following whitespace.
                        while let Some((_, w)) = it.peek() {
                            if w.is_whitespace() {
                                it.next();
                            } else {
                                break;
                            }
                        }
                    }
                    '\r' => {
                        while let Some((_, w)) = it.peek() {
                            if w.is_whitespace() {
                                it.next();
                            } else {
                                break;
                            }
                        }
                    }
                    _ => return None,
                }
            }
            c => out.push(c),
        }
    }
    None
}

/// Lossless lexer: byte ranges whose concatenation is the input. Strings and comments are NOT
/// treated specially (a `"`, a `//`, every word inside them is its own token), so mutations reach
/// inside literals and comments too.
pub fn lex(s: &str) -> Vec<(usize, usize)> {
    let b = s.as_bytes();
    let mut out = vec![];
    let mut i = 0;
    while i < b.len() {
        let rest = &s[i..];
        let c = b[i];
        let n = if rest.starts_with("\"\"\"") || rest.starts_with("...") {
            3
        } else if rest.starts_with("=>")
            || rest.starts_with("~>")
            || rest.starts_with("->")
            || rest.starts_with("//")
            || rest.starts_with("\r\n")
        {
            2
        } else if c.is_ascii_alphabetic() || c == b'_' {
            let mut k = 1;
            while i + k < b.len() && (b[i + k].is_ascii_alphanumeric() || b[i + k] == b'_') {
                k += 1;
            }
            k
        } else if c.is_ascii_digit() {
            let mut k = 1;
            if c == b'0' && i + 1 < b.len() && b[i + 1] == b'x' {
                k = 2;
                while i + k < b.len() && b[i + k].is_ascii_hexdigit() {
                    k += 1;
                }
            } else {
                while i + k < b.len() && b[i + k].is_ascii_digit() {
                    k += 1;
                }
            }
            k
        } else if c == b' ' || c == b'\t' {
            let mut k = 1;
            while i + k < b.len() && (b[i + k] == b' ' || b[i + k] == b'\t') {
                k += 1;
            }
            k
        } else if c < 0x80 {
            1
        } else {
            rest.chars().next().map(|ch| ch.len_utf8()).unwrap_or(1)
        };
        out.push((i, i + n));
        i += n;
    }
    out
}
