//! The oracle of C18, evaluated on one input text (always inside a child process).

use quiver_compiler::compiler::ModuleCache;
use quiver_compiler::parser::SourceSpan;
use quiver_compiler::{Compiler, PackageResolver};
use quiver_core::builtins::BuiltinRegistry;
use quiver_core::program::Program;
use serde::{Deserialize, Serialize};
use std::cell::RefCell;
use std::collections::HashMap;
use std::panic::{AssertUnwindSafe, catch_unwind};
use std::sync::atomic::{AtomicU64, Ordering};

pub type E = crate::qcompile::E;

thread_local! {
    static LAST_PANIC: RefCell<Option<(String, String)>> = const { RefCell::new(None) };
}

/// Record message and location of every panic of this thread instead of printing it.
pub fn install_panic_hook() {
    std::panic::set_hook(Box::new(|info| {
        let msg = if let Some(s) = info.payload().downcast_ref::<&str>() {
            s.to_string()
        } else if let Some(s) = info.payload().downcast_ref::<String>() {
            s.clone()
        } else {
            "<non-string panic payload>".to_string()
        };
        let loc = info
            .location()
            .map(|l| format!("{}:{}", l.file(), l.line()))
            .unwrap_or_else(|| "?".to_string());
        LAST_PANIC.with(|p| *p.borrow_mut() = Some((msg, loc)));
    }));
}

fn take_panic() -> (String, String) {
    LAST_PANIC
        .with(|p| p.borrow_mut().take())
        .unwrap_or_else(|| ("<unknown panic>".into(), "?".into()))
}

/// `(evaluation sequence number << 2) | phase`, phase 0 = idle, 1 = parsing, 2 = compiling. Read by
/// the watchdog.
pub static CURRENT: AtomicU64 = AtomicU64::new(0);
/// Case index of the evaluation announced in `CURRENT` (several evaluations may share an index
/// while shrinking; `CURRENT` carries a per-evaluation sequence number so that the watchdog never
/// adds up the time of different evaluations).
pub static CURRENT_IDX: AtomicU64 = AtomicU64::new(0);
static SEQ: AtomicU64 = AtomicU64::new(1);

fn enter(idx: u64, seq: u64, phase: u64) {
    CURRENT_IDX.store(idx, Ordering::SeqCst);
    CURRENT.store((seq << 2) | phase, Ordering::SeqCst);
}

/// In "careful" mode (re-run after a crash) every phase of every case is announced to this file
/// before it starts, unbuffered, so the parent can attribute the crash to the last announced case.
pub static PROGRESS: std::sync::Mutex<Option<std::fs::File>> = std::sync::Mutex::new(None);

fn announce(idx: u64, phase: char) {
    use std::io::Write;
    if let Ok(mut g) = PROGRESS.lock() {
        if let Some(f) = g.as_mut() {
            let _ = f.write_all(format!("{} {}\n", idx, phase).as_bytes());
        }
    }
}

#[derive(Clone, Debug, Serialize, Deserialize, PartialEq)]
pub struct SpanInfo {
    pub offset: usize,
    pub line: usize,
    pub column: usize,
    pub length: usize,
}

#[derive(Clone, Debug, Serialize, Deserialize, PartialEq)]
pub enum ParseRes {
    Ok,
    Err {
        kind: String,
        display: String,
        span: Option<SpanInfo>,
    },
    Panic {
        message: String,
        location: String,
    },
}

#[derive(Clone, Debug, Serialize, Deserialize, PartialEq)]
pub enum CompileRes {
    Ok,
    Err {
        kind: String,
        internal: bool,
        message: String,
        /// Informational only (not part of the property): does the compile error's span lie inside
        /// the input? `None` = no span.
        span_inside: Option<bool>,
    },
    Panic {
        message: String,
        location: String,
    },
}

#[derive(Clone, Debug, Serialize, Deserialize, PartialEq)]
pub struct Outcome {
    pub parse: ParseRes,
    /// Why the parse error's span is not a position inside the input (None = fine / not applicable).
    pub span_problem: Option<String>,
    pub compile: Option<CompileRes>,
    /// Standard modules already imported in the session the text was compiled in (empty = fresh
    /// program and module cache).
    #[serde(default)]
    pub compile_context: Vec<String>,
}

/// What kind of violation an outcome is (None = the property holds on this input).
/// The second component refines the kind for the shrinker (panic location / span defect class) so
/// that shrinking cannot drift from one root cause to another.
impl Outcome {
    pub fn failure(&self) -> Option<(String, String)> {
        match &self.parse {
            ParseRes::Panic { location, .. } => return Some(("parse_panic".into(), location.clone())),
            ParseRes::Err { span: None, .. } => return Some(("parse_error_unlocated".into(), String::new())),
            _ => {}
        }
        if let Some(p) = &self.span_problem {
            // the class is the first word of the problem description
            let class = p.split(':').next().unwrap_or("").to_string();
            return Some(("parse_error_span".into(), class));
        }
        if let Some(CompileRes::Panic { location, .. }) = &self.compile {
            return Some(("compile_panic".into(), location.clone()));
        }
        None
    }

    pub fn describe(&self) -> String {
        let mut s = match &self.parse {
            ParseRes::Ok => "parse: Ok".to_string(),
            ParseRes::Err { display, span, .. } => format!(
                "parse: Err({}) span={}",
                display,
                match span {
                    Some(sp) => format!(
                        "{{offset:{}, line:{}, column:{}, length:{}}}",
                        sp.offset, sp.line, sp.column, sp.length
                    ),
                    None => "None".into(),
                }
            ),
            ParseRes::Panic { message, location } => format!("parse: PANIC at {}: {}", location, message),
        };
        if let Some(p) = &self.span_problem {
            s.push_str(&format!("; span problem: {}", p));
        }
        match &self.compile {
            None => {}
            Some(CompileRes::Ok) => s.push_str("; compile: Ok"),
            Some(CompileRes::Err { message, .. }) => s.push_str(&format!("; compile: Err({})", message)),
            Some(CompileRes::Panic { message, location }) => {
                s.push_str(&format!("; compile: PANIC at {}: {}", location, message))
            }
        }
        if !self.compile_context.is_empty() {
            s.push_str(&format!(" [compiled in a session that had already imported %{}]", self.compile_context.join(" %")));
        }
        s
    }
}

/// Is `sp` a position inside `text`, with line/column consistent with the offset?
/// Line = 1 + number of '\n' before the offset. For the column every customary 1-based unit is
/// accepted (bytes, Unicode scalar values, UTF-16 units since the start of the line), because the
/// documentation does not fix the unit.
pub fn check_span(text: &str, sp: &SpanInfo) -> Option<String> {
    let len = text.len();
    if sp.offset > len {
        return Some(format!("offset_beyond_end: offset {} > input length {}", sp.offset, len));
    }
    let end = match sp.offset.checked_add(sp.length) {
        Some(e) if e <= len => e,
        _ => {
            return Some(format!(
                "end_beyond_end: offset {} + length {} > input length {}",
                sp.offset, sp.length, len
            ));
        }
    };
    if !text.is_char_boundary(sp.offset) {
        return Some(format!("offset_not_char_boundary: offset {} is inside a UTF-8 sequence", sp.offset));
    }
    if !text.is_char_boundary(end) {
        return Some(format!("end_not_char_boundary: offset+length {} is inside a UTF-8 sequence", end));
    }
    let before = &text[..sp.offset];
    let line = 1 + before.bytes().filter(|b| *b == b'\n').count();
    if sp.line != line {
        return Some(format!(
            "line_inconsistent: reported line {} but offset {} is on line {}",
            sp.line, sp.offset, line
        ));
    }
    let line_start = before.rfind('\n').map(|p| p + 1).unwrap_or(0);
    let seg = &text[line_start..sp.offset];
    let cols = [seg.len() + 1, seg.chars().count() + 1, seg.encode_utf16().count() + 1];
    if !cols.contains(&sp.column) {
        return Some(format!(
            "column_inconsistent: reported column {} but offset {} is column {} (bytes) / {} (chars) of its line",
            sp.column, sp.offset, cols[0], cols[1]
        ));
    }
    None
}

/// In-memory modules for the `shape/usermod` family: bodies that cannot finish on their own when
/// evaluated at compile time (they wait for a message, a timer, another process or an effect),
/// bodies that fail, and controls. (A module that loops for ever is not among them: no front end
/// can decide that.)
pub const USER_MODULES: &[(&str, &str)] = &[
    ("um_ok", "[a: 1, f: #'int { 2 }]"),
    ("um_recv", "!'int"),
    ("um_recv_fn", "!#'int { =x => x }"),
    ("um_spawn", "@{ 1 }"),
    ("um_spawn_await", "p = @{ 1 },\n!p"),
    ("um_timer", "! [10]"),
    ("um_self_send", "1 .,\n2"),
    ("um_self_ref", "&."),
    ("um_send_spawned", "p = @{ !'int },\n1 p,\n2"),
    ("um_effect", "[0x61, 0, 0] __file_open__"),
    ("um_fail", "[1, 0] __integer_divide__"),
    ("um_nested", "%um_recv"),
];

pub fn user_modules() -> HashMap<Vec<String>, String> {
    USER_MODULES.iter().map(|(n, b)| (vec![n.to_string()], b.to_string())).collect()
}

fn variant_name(debug: &str) -> String {
    debug
        .chars()
        .take_while(|c| c.is_ascii_alphanumeric() || *c == '_')
        .collect()
}

/// Program + module cache of a session in which some standard modules were imported before.
type Context = (Program, ModuleCache);

pub struct Evaluator {
    builtins: BuiltinRegistry<E>,
    std_names: Vec<String>,
    /// Warm contexts by the sorted set of standard modules a text mentions (`%name`). `None` =
    /// the warm-up itself failed; such texts are compiled in a fresh context.
    warm: RefCell<HashMap<Vec<String>, Option<std::rc::Rc<Context>>>>,
    /// When true, every text is compiled in a fresh context (used to re-check warm failures).
    pub always_fresh: bool,
}

impl Evaluator {
    pub fn new() -> Self {
        let mut std_names = vec![];
        if let Ok(rd) = std::fs::read_dir(crate::infra::repo_root().join("std")) {
            for e in rd.filter_map(|e| e.ok()) {
                let p = e.path();
                if p.extension().and_then(|x| x.to_str()) == Some("qv") {
                    if let Some(stem) = p.file_stem().and_then(|x| x.to_str()) {
                        std_names.push(stem.to_string());
                    }
                }
            }
        }
        std_names.sort();
        Self {
            builtins: crate::qcompile::io_builtins(),
            std_names,
            warm: RefCell::new(HashMap::new()),
            always_fresh: false,
        }
    }

    /// The standard modules a text mentions as `%name` (first path segment), sorted.
    pub fn std_imports(&self, text: &str) -> Vec<String> {
        let b = text.as_bytes();
        let mut out: Vec<String> = vec![];
        let mut i = 0;
        while i < b.len() {
            if b[i] == b'%' && i + 1 < b.len() && b[i + 1].is_ascii_lowercase() {
                let mut k = i + 1;
                while k < b.len() && (b[k].is_ascii_alphanumeric() || b[k] == b'_') {
                    k += 1;
                }
                let name = &text[i + 1..k];
                if self.std_names.iter().any(|n| n == name) && !out.iter().any(|n| n == name) {
                    out.push(name.to_string());
                }
                i = k;
            } else {
                i += 1;
            }
        }
        out.sort();
        out
    }

    fn compile_once(&self, ast: quiver_compiler::ast::Program, text: &str, ctx: Option<&Context>) -> (CompileRes, Option<Context>) {
        let (mut program, mut module_cache) = match ctx {
            Some((p, m)) => (p.clone(), m.clone()),
            None => (Program::new(), ModuleCache::new()),
        };
        // `inline()` is `memory(∅)`: the same resolver plus a fixed set of in-memory modules that
        // only the `shape/usermod` texts mention (compilation evaluates an imported module).
        let resolver = PackageResolver::memory(user_modules());
        let r = Compiler::compile(
            ast,
            &HashMap::new(),
            &mut module_cache,
            &resolver,
            &mut program,
            quiver_core::types::NIL,
            &HashMap::new(),
            &self.builtins,
            None,
        );
        match r {
            Ok(_) => (CompileRes::Ok, Some((program, module_cache))),
            Err(le) => {
                let dbg = format!("{:?}", le.error);
                let kind = variant_name(&dbg);
                let span_inside = le
                    .span
                    .map(|s| s.offset <= text.len() && s.offset.checked_add(s.length).is_some_and(|e| e <= text.len()));
                (
                    CompileRes::Err {
                        internal: kind == "InternalError",
                        kind,
                        message: format!("{}", le.error),
                        span_inside,
                    },
                    None,
                )
            }
        }
    }

    /// The warm context for a set of standard modules: the state of a session after compiling
    /// the line `%a, %b, …` — what the REPL keeps (it clones program and module cache per line).
    fn warm_context(&self, mods: &[String]) -> Option<std::rc::Rc<Context>> {
        if let Some(c) = self.warm.borrow().get(mods) {
            return c.clone();
        }
        let src: String = mods.iter().map(|m| format!("%{}", m)).collect::<Vec<_>>().join("\n");
        let built = catch_unwind(AssertUnwindSafe(|| {
            let ast = quiver_compiler::parse(&src).ok()?;
            self.compile_once(ast, &src, None).1
        }))
        .ok()
        .flatten()
        .map(std::rc::Rc::new);
        self.warm.borrow_mut().insert(mods.to_vec(), built.clone());
        built
    }

    /// Evaluate the oracle on one text. `idx` is announced to the watchdog. A failure observed in
    /// a warm session is re-checked in a fresh one; if it fails there in the same way, the fresh
    /// (context-free) observation is reported.
    pub fn eval(&self, idx: u64, text: &str) -> Outcome {
        let o = self.eval_mode(idx, text, self.always_fresh);
        if !o.compile_context.is_empty() {
            if let Some((kind, _)) = o.failure() {
                let f = self.eval_mode(idx, text, true);
                if f.failure().map(|x| x.0) == Some(kind) {
                    return f;
                }
            }
        }
        o
    }

    fn eval_mode(&self, idx: u64, text: &str, fresh: bool) -> Outcome {
        announce(idx, 'P');
        let seq = SEQ.fetch_add(1, Ordering::SeqCst);
        enter(idx, seq, 1);
        let parsed = catch_unwind(AssertUnwindSafe(|| quiver_compiler::parse(text)));
        enter(idx, seq, 0);
        let ast = match parsed {
            Err(_) => {
                let (message, location) = take_panic();
                return Outcome {
                    parse: ParseRes::Panic { message, location },
                    span_problem: None,
                    compile: None,
                    compile_context: vec![],
                };
            }
            Ok(Err(e)) => {
                let span = e.span.map(|s: SourceSpan| SpanInfo {
                    offset: s.offset,
                    line: s.line,
                    column: s.column,
                    length: s.length,
                });
                let span_problem = span.as_ref().and_then(|sp| check_span(text, sp));
                return Outcome {
                    parse: ParseRes::Err {
                        kind: variant_name(&format!("{:?}", e.kind)),
                        display: format!("{}", e),
                        span,
                    },
                    span_problem,
                    compile: None,
                    compile_context: vec![],
                };
            }
            Ok(Ok(ast)) => ast,
        };
        // Texts that mention standard modules are compiled in a session that already imported
        // them (building the context is not part of the case).
        let mods = if fresh { vec![] } else { self.std_imports(text) };
        let ctx = if mods.is_empty() { None } else { self.warm_context(&mods) };
        announce(idx, 'C');
        enter(idx, seq, 2);
        let compiled = catch_unwind(AssertUnwindSafe(|| self.compile_once(ast, text, ctx.as_deref()).0));
        enter(idx, seq, 0);
        let compile = match compiled {
            Ok(c) => c,
            Err(_) => {
                let (message, location) = take_panic();
                CompileRes::Panic { message, location }
            }
        };
        Outcome {
            parse: ParseRes::Ok,
            span_problem: None,
            compile: Some(compile),
            compile_context: if ctx.is_some() { mods } else { vec![] },
        }
    }
}
