//! Child-process side of C18: run a slice of a job under a watchdog and write the accumulated
//! result to a file. A hang is detected here (CPU time of the process while one case is announced);
//! a crash (stack overflow, abort) kills this process and is attributed by the parent.

use super::jobs::Job;
use super::oracle::{self, CURRENT, CURRENT_IDX, CompileRes, Evaluator, Outcome, ParseRes};
use serde::{Deserialize, Serialize};
use std::collections::{BTreeMap, BTreeSet};
use std::hash::{Hash, Hasher};
use std::io::Write;
use std::sync::atomic::Ordering;
use std::sync::{Arc, Mutex};
use std::time::{Duration, Instant};

pub const PARSE_LIMIT_S: f64 = 2.0;
pub const COMPILE_LIMIT_S: f64 = 5.0;
/// Wall-clock backstop factor, for a case that blocks instead of burning CPU. Deliberately huge
/// (2 min / 5 min): on an oversubscribed machine a case well under its CPU limit can take many
/// times longer on the wall clock, and that must never raise an alarm.
pub const WALL_FACTOR: f64 = 60.0;
pub const RSS_LIMIT_BYTES: u64 = 8 << 30;
pub const WORKER_STACK_BYTES: usize = 8 << 20;
/// Failing inputs kept per slice and per (kind, site) for shrinking; all are counted.
const MAX_FAILURES_PER_SITE_PER_SLICE: usize = 40;

#[derive(Clone, Debug, Serialize, Deserialize)]
pub struct Failure {
    pub idx: u64,
    pub text: String,
    pub label: String,
    /// parse_panic | parse_error_span | parse_error_unlocated | compile_panic | parse_timeout |
    /// compile_timeout | parse_crash | compile_crash | *_memory
    pub kind: String,
    /// Refinement used only to keep the shrinker on one root cause (panic location, span defect class).
    pub refine: String,
    pub observed: String,
}

#[derive(Clone, Debug, Serialize, Deserialize)]
pub struct Sample {
    pub class: String,
    pub input: String,
    pub label: String,
    pub outcome: String,
}

#[derive(Clone, Debug, Serialize, Deserialize)]
pub struct Stop {
    pub idx: u64,
    pub phase: String,
    pub reason: String,
}

#[derive(Clone, Debug, Default, Serialize, Deserialize)]
pub struct Acc {
    pub evaluations: u64,
    pub parse_ok: u64,
    pub parse_err: u64,
    pub compile_ok: u64,
    pub compile_err: u64,
    pub internal_errors: u64,
    pub compile_err_span_outside_input: u64,
    pub by_tag: BTreeMap<String, u64>,
    pub parse_err_kinds: BTreeMap<String, u64>,
    pub compile_err_kinds: BTreeMap<String, u64>,
    /// normalised InternalError message -> (count, shortest input)
    pub internal_msgs: BTreeMap<String, (u64, String)>,
    /// hashes of the distinct inputs the parser accepted
    pub ok_hashes: BTreeSet<u64>,
    /// hashes of the distinct (parse error kind, offset, length) classes
    pub err_classes: BTreeSet<u64>,
    pub samples: BTreeMap<String, Sample>,
    pub failures: Vec<Failure>,
    pub failures_total: u64,
    pub failures_by_kind: BTreeMap<String, u64>,
    pub failures_by_site: BTreeMap<String, u64>,
    /// per-text outcomes (only for `Job::Texts`)
    pub outcomes: Vec<(u64, Outcome, u64)>,
    /// shrunk cores (only for `Job::Shrink`): (item index, core, oracle evaluations spent)
    pub cores: Vec<(u64, String, u64)>,
    pub stopped: Option<Stop>,
    pub done: bool,
}

pub fn hash64<T: Hash>(t: &T) -> u64 {
    // SipHash with the fixed default keys: deterministic across runs.
    #[allow(deprecated)]
    let mut h = std::hash::SipHasher::new();
    t.hash(&mut h);
    h.finish()
}

fn normalise_digits(s: &str) -> String {
    let mut out = String::new();
    let mut in_num = false;
    for c in s.chars() {
        if c.is_ascii_digit() {
            if !in_num {
                out.push('N');
            }
            in_num = true;
        } else {
            in_num = false;
            out.push(c);
        }
    }
    out
}

/// Class of an InternalError message: its head clause (up to the first ':' after the fixed
/// prefix, which is where AST dumps start), digits replaced by N.
fn internal_class(message: &str) -> String {
    let body = message.strip_prefix("Internal compiler error: ").unwrap_or(message);
    let head = body.split(':').next().unwrap_or(body);
    let head = head.split('{').next().unwrap_or(head).trim();
    normalise_digits(head)
}

fn clip(s: &str, n: usize) -> String {
    if s.len() <= n {
        return s.to_string();
    }
    let mut k = n;
    while !s.is_char_boundary(k) {
        k -= 1;
    }
    format!("{}…[{} bytes]", &s[..k], s.len())
}

impl Acc {
    pub fn record(&mut self, idx: u64, text: &str, tagname: &str, label: &dyn Fn() -> String, o: &Outcome, keep_outcome: bool, micros: u64) {
        self.evaluations += 1;
        *self.by_tag.entry(tagname.to_string()).or_default() += 1;
        let class;
        match &o.parse {
            ParseRes::Ok => {
                self.parse_ok += 1;
                self.ok_hashes.insert(hash64(&text));
                match o.compile.as_ref() {
                    Some(CompileRes::Ok) => {
                        self.compile_ok += 1;
                        class = "parse ok, compile ok".to_string();
                    }
                    Some(CompileRes::Err {
                        kind,
                        internal,
                        message,
                        span_inside,
                    }) => {
                        self.compile_err += 1;
                        *self.compile_err_kinds.entry(kind.clone()).or_default() += 1;
                        if *span_inside == Some(false) {
                            self.compile_err_span_outside_input += 1;
                        }
                        if *internal {
                            self.internal_errors += 1;
                            let key = internal_class(message);
                            let e = self.internal_msgs.entry(key).or_insert((0, text.to_string()));
                            e.0 += 1;
                            if (text.len(), text) < (e.1.len(), e.1.as_str()) {
                                e.1 = text.to_string();
                            }
                        }
                        class = format!("parse ok, compile error {}", kind);
                    }
                    Some(CompileRes::Panic { .. }) => class = "compile panic".to_string(),
                    None => class = "parse ok".to_string(),
                }
            }
            ParseRes::Err { kind, span, .. } => {
                self.parse_err += 1;
                *self.parse_err_kinds.entry(kind.clone()).or_default() += 1;
                if let Some(sp) = span {
                    self.err_classes.insert(hash64(&(kind, sp.offset, sp.length)));
                }
                class = format!("parse error {}", kind);
            }
            ParseRes::Panic { .. } => class = "parse panic".to_string(),
        }
        if !self.samples.contains_key(&class) {
            self.samples.insert(
                class.clone(),
                Sample {
                    class,
                    input: clip(text, 160),
                    label: label(),
                    outcome: clip(&o.describe(), 300),
                },
            );
        }
        if let Some((kind, refine)) = o.failure() {
            self.add_failure(Failure {
                idx,
                text: text.to_string(),
                label: label(),
                kind,
                refine,
                observed: o.describe(),
            });
        }
        if keep_outcome {
            self.outcomes.push((idx, o.clone(), micros));
        }
    }

    pub fn add_failure(&mut self, f: Failure) {
        self.failures_total += 1;
        *self.failures_by_kind.entry(f.kind.clone()).or_default() += 1;
        let site = format!("{} @ {}", f.kind, if f.refine.is_empty() { "-" } else { &f.refine });
        let n = self.failures_by_site.entry(site).or_default();
        *n += 1;
        if *n <= MAX_FAILURES_PER_SITE_PER_SLICE as u64 {
            self.failures.push(f);
        }
    }

    pub fn merge(&mut self, o: Acc) {
        self.evaluations += o.evaluations;
        self.parse_ok += o.parse_ok;
        self.parse_err += o.parse_err;
        self.compile_ok += o.compile_ok;
        self.compile_err += o.compile_err;
        self.internal_errors += o.internal_errors;
        self.compile_err_span_outside_input += o.compile_err_span_outside_input;
        for (k, v) in o.by_tag {
            *self.by_tag.entry(k).or_default() += v;
        }
        for (k, v) in o.parse_err_kinds {
            *self.parse_err_kinds.entry(k).or_default() += v;
        }
        for (k, v) in o.compile_err_kinds {
            *self.compile_err_kinds.entry(k).or_default() += v;
        }
        for (k, (n, ex)) in o.internal_msgs {
            let e = self.internal_msgs.entry(k).or_insert((0, ex.clone()));
            e.0 += n;
            if (ex.len(), ex.as_str()) < (e.1.len(), e.1.as_str()) {
                e.1 = ex;
            }
        }
        self.ok_hashes.extend(o.ok_hashes);
        self.err_classes.extend(o.err_classes);
        for (k, v) in o.samples {
            self.samples.entry(k).or_insert(v);
        }
        self.failures_total += o.failures_total;
        for (k, v) in o.failures_by_kind {
            *self.failures_by_kind.entry(k).or_default() += v;
        }
        for (k, v) in o.failures_by_site {
            *self.failures_by_site.entry(k).or_default() += v;
        }
        self.failures.extend(o.failures);
        self.outcomes.extend(o.outcomes);
        self.cores.extend(o.cores);
    }
}

/// CPU time (user+system) of this process in seconds, from /proc/self/stat (clock tick = 1/100 s
/// on Linux). None when unreadable.
fn cpu_seconds() -> Option<f64> {
    let s = std::fs::read_to_string("/proc/self/stat").ok()?;
    let rest = &s[s.rfind(')')? + 1..];
    let f: Vec<&str> = rest.split_whitespace().collect();
    // after the command: state is field 0, utime is field 11, stime field 12
    let ut: f64 = f.get(11)?.parse().ok()?;
    let st: f64 = f.get(12)?.parse().ok()?;
    Some((ut + st) / 100.0)
}

fn rss_bytes() -> Option<u64> {
    let s = std::fs::read_to_string("/proc/self/statm").ok()?;
    let pages: u64 = s.split_whitespace().nth(1)?.parse().ok()?;
    Some(pages * 4096)
}

fn write_out(path: &str, acc: &Acc) {
    let tmp = format!("{}.tmp", path);
    let body = serde_json::to_vec(acc).unwrap_or_default();
    if std::fs::write(&tmp, body).is_ok() {
        let _ = std::fs::rename(&tmp, path);
    }
}

fn tag_name(t: &super::jobs::Tag) -> &'static str {
    use super::jobs::Tag::*;
    match t {
        Tok => "token_string",
        Prefix { .. } => "prefix",
        Del { .. } => "deletion",
        Dup { .. } => "duplication",
        Sub { .. } => "substitution",
        Ladder { .. } => "ladder",
        Text => "text",
    }
}

/// Entry point of the child process. Never returns.
pub fn child_main() -> ! {
    let get = |k: &str| std::env::var(k).unwrap_or_default();
    let job_path = get("C18_JOB");
    let out_path = get("C18_OUT");
    let start: u64 = get("C18_START").parse().unwrap_or(0);
    let end: u64 = get("C18_END").parse().unwrap_or(u64::MAX);
    let progress_path = std::env::var("C18_PROGRESS").ok();
    let job: Job = match std::fs::read(&job_path).ok().and_then(|b| serde_json::from_slice(&b).ok()) {
        Some(j) => j,
        None => {
            eprintln!("c18 child: cannot read job {}", job_path);
            std::process::exit(90);
        }
    };
    oracle::install_panic_hook();
    let acc = Arc::new(Mutex::new(Acc::default()));

    // Watchdog.
    {
        let acc = acc.clone();
        let out_path = out_path.clone();
        std::thread::spawn(move || {
            let mut last = 0u64;
            let mut wall0 = Instant::now();
            let mut cpu0 = cpu_seconds();
            loop {
                std::thread::sleep(Duration::from_millis(10));
                let cur = CURRENT.load(Ordering::SeqCst);
                if cur & 3 == 0 {
                    last = 0;
                    continue;
                }
                if cur != last {
                    last = cur;
                    wall0 = Instant::now();
                    cpu0 = cpu_seconds();
                    continue;
                }
                let limit = if cur & 3 == 1 { PARSE_LIMIT_S } else { COMPILE_LIMIT_S };
                let wall = wall0.elapsed().as_secs_f64();
                let cpu = match (cpu0, cpu_seconds()) {
                    (Some(a), Some(b)) => b - a,
                    _ => wall,
                };
                let mem = rss_bytes().unwrap_or(0) > RSS_LIMIT_BYTES;
                if cpu >= limit || wall >= limit * WALL_FACTOR || mem {
                    // Re-check that the worker is still inside the same evaluation (the index is
                    // read first: it cannot change before CURRENT does).
                    let idx = CURRENT_IDX.load(Ordering::SeqCst);
                    if CURRENT.load(Ordering::SeqCst) != cur {
                        continue;
                    }
                    let mut a = acc.lock().unwrap_or_else(|e| e.into_inner());
                    a.stopped = Some(Stop {
                        idx,
                        phase: if cur & 3 == 1 { "parse".into() } else { "compile".into() },
                        reason: if mem {
                            "memory".into()
                        } else if cpu >= limit {
                            "timeout".into()
                        } else {
                            "timeout_wall".into()
                        },
                    });
                    write_out(&out_path, &a);
                    std::process::exit(0);
                }
            }
        });
    }

    let worker_acc = acc.clone();
    let worker = std::thread::Builder::new()
        .name("c18-worker".into())
        .stack_size(WORKER_STACK_BYTES)
        .spawn(move || {
            let ev = Evaluator::new();
            let keep = matches!(job, Job::Texts { .. });
            if let Some(p) = progress_path {
                let f = std::fs::OpenOptions::new().create(true).append(true).open(p).expect("progress file");
                *oracle::PROGRESS.lock().unwrap() = Some(f);
            }
            if let Job::Shrink { items } = &job {
                for (i, item) in items.iter().enumerate() {
                    let idx = i as u64;
                    if idx < start || idx >= end {
                        continue;
                    }
                    let mut evals = 0u64;
                    let want = Some((item.kind.clone(), item.refine.clone()));
                    let mut pred = |cand: &str| {
                        evals += 1;
                        ev.eval(idx, cand).failure() == want
                    };
                    let core = if pred(&item.text) {
                        super::shrink::shrink(&item.text, &mut pred)
                    } else {
                        item.text.clone()
                    };
                    let mut a = worker_acc.lock().unwrap_or_else(|e| e.into_inner());
                    a.cores.push((idx, core, evals));
                }
                return;
            }
            job.for_each(start, end, &mut |idx, text, tag| {
                let t0 = Instant::now();
                let o = ev.eval(idx, text);
                let micros = if keep { t0.elapsed().as_micros() as u64 } else { 0 };
                let mut a = worker_acc.lock().unwrap_or_else(|e| e.into_inner());
                a.record(idx, text, tag_name(tag), &|| job.label(tag), &o, keep, micros);
                true
            });
        })
        .expect("spawn worker");
    let ok = worker.join().is_ok();
    let mut a = acc.lock().unwrap_or_else(|e| e.into_inner());
    a.done = ok;
    write_out(&out_path, &a);
    std::process::exit(if ok { 0 } else { 91 });
}
