//! Work units ("jobs") of C18 and the deterministic case generators behind them. A job is a pure
//! description; parent and child both regenerate its cases from it, in the same order.

use super::corpus::lex;
use serde::{Deserialize, Serialize};

/// The 37-token alphabet fixed by the design.
pub const BASE_ALPHABET: [&str; 37] = [
    "[", "]", "{", "}", "(", ")", "|", ",", "=>", "~>", "=", "&", "^", "@", "!", "#", "$", "%", "'", "\"",
    "\"\"\"", "\\", ".", "~", ":", "...", "*", "_", "-", "/", "a", "A", "0", "0x0", "é", "\n", " ",
];

/// Six more tokens added by this check: type-argument brackets, the identifier suffix `?`, a decimal
/// that does not fit 64 bits, a bare carriage return, and a real builtin name.
pub const EXTRA_ALPHABET: [&str; 6] = ["<", ">", "?", "99999999999999999999", "\r", "__integer_add__"];

pub fn alphabet(name: &str) -> Vec<&'static str> {
    let mut v: Vec<&'static str> = BASE_ALPHABET.to_vec();
    if name == "full" {
        v.extend(EXTRA_ALPHABET);
    }
    v
}

#[derive(Clone, Debug, Serialize, Deserialize)]
pub struct MutSpec {
    pub id: String,
    pub text: String,
    /// Byte offsets at which the text is cut (prefix cases), ascending.
    pub cuts: Vec<usize>,
    /// Token indices that are deleted / duplicated / substituted, ascending.
    pub positions: Vec<usize>,
}

#[derive(Clone, Debug, Serialize, Deserialize)]
pub enum Job {
    /// All strings of exactly `len` alphabet tokens that start with `prefix` (token indices).
    Tok {
        alphabet: String,
        len: usize,
        prefix: Vec<usize>,
    },
    /// Prefixes and single-token mutants of corpus sources.
    Mut { alphabet: String, specs: Vec<MutSpec> },
    /// One nesting-ladder family, for the listed depths.
    Ladder { family: usize, ns: Vec<usize> },
    /// An explicit list of texts (replay, shrinking of timeouts/crashes).
    Texts { texts: Vec<String> },
    /// Failing inputs to be shrunk in-process by the child (panics, bad spans).
    Shrink { items: Vec<ShrinkItem> },
}

#[derive(Clone, Debug, Serialize, Deserialize)]
pub struct ShrinkItem {
    pub text: String,
    pub kind: String,
    pub refine: String,
}

#[derive(Clone, Debug)]
pub enum Tag {
    Tok,
    Prefix { spec: usize, cut: usize },
    Del { spec: usize, pos: usize },
    Dup { spec: usize, pos: usize },
    Sub { spec: usize, pos: usize, tok: usize },
    Ladder { n: usize },
    Text,
}

pub struct Family {
    pub name: &'static str,
    pub pre: &'static str,
    pub open: &'static str,
    pub mid: &'static str,
    pub close: &'static str,
    pub post: &'static str,
}

const fn fam(
    name: &'static str,
    pre: &'static str,
    open: &'static str,
    mid: &'static str,
    close: &'static str,
    post: &'static str,
) -> Family {
    Family {
        name,
        pre,
        open,
        mid,
        close,
        post,
    }
}

/// Nesting ladders: `pre open^n mid close^n post`. The first eight are the ones the design names
/// (open and closed forms of `[`, `{`, `(`, `#{`); the rest put the same brackets into pattern, type,
/// string-hole and select position.
pub const FAMILIES: [Family; 44] = [
    fam("[^n", "", "[", "", "", ""),
    fam("[^n ]^n", "", "[", "", "]", ""),
    fam("{^n", "", "{", "", "", ""),
    fam("{^n 0 }^n", "", "{", "0", "}", ""),
    fam("(^n", "", "(", "", "", ""),
    fam("(^n )^n", "", "(", "", ")", ""),
    fam("#{^n", "", "#{", "", "", ""),
    fam("#{^n 0 }^n", "", "#{", "0", "}", ""),
    fam("0 =(^n", "0 =", "(", "", "", ""),
    fam("0 =(^n 'int )^n", "0 =", "(", "'int", ")", ""),
    fam("'t = (^n", "'t = ", "(", "", "", ""),
    fam("'t = (^n 'int )^n", "'t = ", "(", "'int", ")", ""),
    fam("#(^n", "#", "(", "", "", ""),
    fam("#(^n 'int )^n { 0 }", "#", "(", "'int", ")", " { 0 }"),
    fam("\"{^n", "", "\"{", "", "", ""),
    fam("\"{^n 0 }\"^n", "", "\"{", "0", "}\"", ""),
    fam("A[^n", "", "A[", "", "", ""),
    fam("A[^n ]^n", "", "A[", "", "]", ""),
    fam("0 =[^n", "0 =", "[", "", "", ""),
    fam("0 =[^n ]^n", "0 =", "[", "", "]", ""),
    fam("[a: ^n 0 ]^n", "", "[a: ", "0", "]", ""),
    fam("#[^n ]^n { 0 }", "#", "[", "", "]", " { 0 }"),
    fam("'t = 'a<^n 'int >^n", "'t = ", "'a<", "'int", ">", ""),
    fam("!(^n 'int )^n", "!", "(", "'int", ")", ""),
    fam("@^n", "", "@", "", "", ""),
    fam("0 =A(a: ^n 0 )^n", "0 =", "A(a: ", "0", ")", ""),
    // openers that take a block or a list after a head, well-formed and with a wrong closer at
    // the bottom: a construct that fails to parse must not be parsed again by a fallback
    // alternative (or as the next term) at every level
    fam("@{ ^n 0 }^n", "", "@{ ", "0", " }", ""),
    fam("@{ ^n 0 ] }^n", "", "@{ ", "0 ]", " }", ""),
    fam("@ { ^n 0 ] }^n", "", "@ { ", "0 ]", " }", ""),
    fam("@'int { ^n 0 ] }^n", "", "@'int { ", "0 ]", " }", ""),
    fam("#'int { ^n 0 }^n", "", "#'int { ", "0", " }", ""),
    fam("#'int { ^n 0 ] }^n", "", "#'int { ", "0 ]", " }", ""),
    fam("#'int -> 'int { ^n 0 ] }^n", "", "#'int -> 'int { ", "0 ]", " }", ""),
    fam("# { ^n 0 ] }^n", "", "# { ", "0 ]", " }", ""),
    fam("#{ ^n 0 ] }^n", "", "#{ ", "0 ]", " }", ""),
    fam("{ ^n 0 ] }^n", "", "{ ", "0 ]", " }", ""),
    fam("{ | ^n 0 ] }^n", "", "{ | ", "0 ]", " }", ""),
    fam("{ 1 => ^n 0 ] }^n", "", "{ 1 => ", "0 ]", " }", ""),
    fam("[^n 0 ) ]^n", "", "[", "0 )", "]", ""),
    fam("A[^n 0 ) ]^n", "", "A[", "0 )", "]", ""),
    fam("[a: ^n 0 ) ]^n", "", "[a: ", "0 )", "]", ""),
    fam("\"{ ^n 0 ] }\"^n", "", "\"{ ", "0 ]", " }\"", ""),
    fam("! [^n 0 ]^n", "", "! [", "0", "]", ""),
    fam("! [^n 0 ) ]^n", "", "! [", "0 )", "]", ""),
];

pub fn ladder_text(family: usize, n: usize) -> String {
    let f = &FAMILIES[family];
    let mut s = String::with_capacity(f.pre.len() + n * (f.open.len() + f.close.len()) + 16);
    s.push_str(f.pre);
    for _ in 0..n {
        s.push_str(f.open);
    }
    s.push_str(f.mid);
    for _ in 0..n {
        s.push_str(f.close);
    }
    s.push_str(f.post);
    s
}

impl Job {
    /// Number of cases of this job.
    pub fn size(&self) -> u64 {
        match self {
            Job::Tok { alphabet: a, len, prefix } => (alphabet(a).len() as u64).pow((len - prefix.len()) as u32),
            Job::Mut { alphabet: a, specs } => {
                let al = alphabet(a);
                let mut n = 0u64;
                for s in specs {
                    let toks = lex(&s.text);
                    n += s.cuts.len() as u64;
                    for &p in &s.positions {
                        let orig = &s.text[toks[p].0..toks[p].1];
                        n += 2 + al.iter().filter(|t| **t != orig).count() as u64;
                    }
                }
                n
            }
            Job::Ladder { ns, .. } => ns.len() as u64,
            Job::Texts { texts } => texts.len() as u64,
            Job::Shrink { items } => items.len() as u64,
        }
    }

    /// Call `f(index, text, tag)` for every case with index in `[start, end)`, in the fixed order.
    /// `f` returns false to stop.
    pub fn for_each(&self, start: u64, end: u64, f: &mut dyn FnMut(u64, &str, &Tag) -> bool) {
        match self {
            Job::Tok { alphabet: a, len, prefix } => {
                let al = alphabet(a);
                let free = len - prefix.len();
                let base = al.len() as u64;
                let total = base.pow(free as u32);
                let mut head = String::new();
                for &p in prefix {
                    head.push_str(al[p]);
                }
                let mut digits = vec![0usize; free];
                // position the odometer at `start`
                let mut x = start;
                for d in (0..free).rev() {
                    digits[d] = (x % base) as usize;
                    x /= base;
                }
                let mut idx = start;
                let mut buf = String::new();
                while idx < end.min(total) {
                    buf.clear();
                    buf.push_str(&head);
                    for &d in &digits {
                        buf.push_str(al[d]);
                    }
                    if !f(idx, &buf, &Tag::Tok) {
                        return;
                    }
                    idx += 1;
                    for d in (0..free).rev() {
                        digits[d] += 1;
                        if digits[d] < al.len() {
                            break;
                        }
                        digits[d] = 0;
                    }
                }
            }
            Job::Mut { alphabet: a, specs } => {
                let al = alphabet(a);
                let mut idx = 0u64;
                let mut buf = String::new();
                for (si, s) in specs.iter().enumerate() {
                    let toks = lex(&s.text);
                    for &cut in &s.cuts {
                        if idx >= end {
                            return;
                        }
                        if idx >= start && !f(idx, &s.text[..cut], &Tag::Prefix { spec: si, cut }) {
                            return;
                        }
                        idx += 1;
                    }
                    for &p in &s.positions {
                        let (lo, hi) = toks[p];
                        let orig = &s.text[lo..hi];
                        let per_pos = 2 + al.iter().filter(|t| **t != orig).count() as u64;
                        if idx + per_pos <= start {
                            idx += per_pos;
                            continue;
                        }
                        if idx >= end {
                            return;
                        }
                        // deletion
                        if idx >= start {
                            buf.clear();
                            buf.push_str(&s.text[..lo]);
                            buf.push_str(&s.text[hi..]);
                            if !f(idx, &buf, &Tag::Del { spec: si, pos: p }) {
                                return;
                            }
                        }
                        idx += 1;
                        // duplication
                        if idx >= end {
                            return;
                        }
                        if idx >= start {
                            buf.clear();
                            buf.push_str(&s.text[..hi]);
                            buf.push_str(orig);
                            buf.push_str(&s.text[hi..]);
                            if !f(idx, &buf, &Tag::Dup { spec: si, pos: p }) {
                                return;
                            }
                        }
                        idx += 1;
                        // substitution by every alphabet token
                        for (ti, t) in al.iter().enumerate() {
                            if *t == orig {
                                continue;
                            }
                            if idx >= end {
                                return;
                            }
                            if idx >= start {
                                buf.clear();
                                buf.push_str(&s.text[..lo]);
                                buf.push_str(t);
                                buf.push_str(&s.text[hi..]);
                                if !f(idx, &buf, &Tag::Sub { spec: si, pos: p, tok: ti }) {
                                    return;
                                }
                            }
                            idx += 1;
                        }
                    }
                }
            }
            Job::Ladder { family, ns } => {
                for (i, &n) in ns.iter().enumerate() {
                    let idx = i as u64;
                    if idx < start {
                        continue;
                    }
                    if idx >= end {
                        return;
                    }
                    let t = ladder_text(*family, n);
                    if !f(idx, &t, &Tag::Ladder { n }) {
                        return;
                    }
                }
            }
            Job::Texts { texts } => {
                for (i, t) in texts.iter().enumerate() {
                    let idx = i as u64;
                    if idx < start {
                        continue;
                    }
                    if idx >= end {
                        return;
                    }
                    if !f(idx, t, &Tag::Text) {
                        return;
                    }
                }
            }
            Job::Shrink { items } => {
                for (i, t) in items.iter().enumerate() {
                    let idx = i as u64;
                    if idx < start {
                        continue;
                    }
                    if idx >= end {
                        return;
                    }
                    if !f(idx, &t.text, &Tag::Text) {
                        return;
                    }
                }
            }
        }
    }

    /// The text (and a human label) of case `idx`.
    pub fn case(&self, idx: u64) -> Option<(String, String)> {
        let mut out = None;
        self.for_each(idx, idx + 1, &mut |_, text, tag| {
            out = Some((text.to_string(), self.label(tag)));
            false
        });
        out
    }

    pub fn label(&self, tag: &Tag) -> String {
        match (self, tag) {
            (Job::Tok { len, .. }, _) => format!("token string of {} tokens", len),
            (Job::Mut { specs, .. }, Tag::Prefix { spec, cut }) => {
                format!("prefix of {} cut at byte {}", specs[*spec].id, cut)
            }
            (Job::Mut { specs, .. }, Tag::Del { spec, pos }) => {
                format!("{} with token #{} deleted", specs[*spec].id, pos)
            }
            (Job::Mut { specs, .. }, Tag::Dup { spec, pos }) => {
                format!("{} with token #{} duplicated", specs[*spec].id, pos)
            }
            (Job::Mut { specs, alphabet: a }, Tag::Sub { spec, pos, tok }) => format!(
                "{} with token #{} replaced by {:?}",
                specs[*spec].id,
                pos,
                alphabet(a)[*tok]
            ),
            (Job::Ladder { family, .. }, Tag::Ladder { n }) => {
                format!("ladder {} with n={}", FAMILIES[*family].name, n)
            }
            _ => "explicit text".to_string(),
        }
    }

    pub fn describe(&self) -> String {
        match self {
            Job::Tok { len, prefix, alphabet: a } => {
                let al = alphabet(a);
                let p: Vec<&str> = prefix.iter().map(|i| al[*i]).collect();
                format!("tok len={} prefix={:?}", len, p)
            }
            Job::Mut { specs, .. } => format!(
                "mut {}{}",
                specs.first().map(|s| s.id.as_str()).unwrap_or(""),
                if specs.len() > 1 {
                    format!(" (+{} more)", specs.len() - 1)
                } else {
                    String::new()
                }
            ),
            Job::Ladder { family, ns } => format!("ladder {} ({} depths)", FAMILIES[*family].name, ns.len()),
            Job::Texts { texts } => format!("texts ({})", texts.len()),
            Job::Shrink { items } => format!("shrink ({})", items.len()),
        }
    }
}

#[cfg(test)]
mod tests {
    use super::*;

    fn all(job: &Job) -> Vec<(u64, String)> {
        let mut v = vec![];
        job.for_each(0, u64::MAX, &mut |i, t, _| {
            v.push((i, t.to_string()));
            true
        });
        v
    }

    fn check_windows(job: &Job) {
        let full = all(job);
        assert_eq!(full.len() as u64, job.size());
        for (k, (i, _)) in full.iter().enumerate() {
            assert_eq!(*i, k as u64);
        }
        let n = full.len() as u64;
        for (s, e) in [(0, 1), (1, 3), (n / 2, n / 2 + 5), (n.saturating_sub(3), n), (n / 3, u64::MAX), (7, 7)] {
            let mut w = vec![];
            job.for_each(s, e, &mut |i, t, _| {
                w.push((i, t.to_string()));
                true
            });
            let expect: Vec<_> = full.iter().filter(|(i, _)| *i >= s && *i < e).cloned().collect();
            assert_eq!(w, expect, "window {}..{}", s, e);
        }
        for i in [0, n / 2, n - 1] {
            assert_eq!(job.case(i).unwrap().0, full[i as usize].1);
        }
        assert!(job.case(n).is_none());
    }

    #[test]
    fn generators_are_consistent() {
        let text = "x = [1, \"é{y}\"] %list.map // c\n~> f";
        let toks = lex(text);
        assert_eq!(toks.iter().map(|(a, b)| &text[*a..*b]).collect::<String>(), text);
        let spec = |cuts: Vec<usize>, positions: Vec<usize>| MutSpec {
            id: "t".into(),
            text: text.into(),
            cuts,
            positions,
        };
        let cuts: Vec<usize> = (0..=text.len()).filter(|i| text.is_char_boundary(*i)).collect();
        check_windows(&Job::Mut {
            alphabet: "full".into(),
            specs: vec![spec(cuts.clone(), (0..toks.len()).collect()), spec(vec![], vec![1, 4]), spec(cuts, vec![])],
        });
        check_windows(&Job::Tok { alphabet: "full".into(), len: 3, prefix: vec![5] });
        check_windows(&Job::Tok { alphabet: "base".into(), len: 2, prefix: vec![] });
        check_windows(&Job::Ladder { family: 7, ns: (1..=30).collect() });
        assert_eq!(all(&Job::Tok { alphabet: "full".into(), len: 0, prefix: vec![] }), vec![(0, String::new())]);
        assert_eq!(alphabet("full").len(), 43);
        assert_eq!(ladder_text(13, 2), "#(('int)) { 0 }");
    }

    #[test]
    fn run_length_forms() {
        use crate::c18::shrink::{render_core, runs, unruns};
        for t in ["((((((((((", "#{#{#{#{#{#{#{#{#{0}}}}}}}}}", "[a: [a: [a: [a: [a: [a: [a: [a: [a: 0]]]]]]]]]", "abc", ""] {
            assert_eq!(unruns(&runs(t)), t);
        }
        assert_eq!(render_core("((((((((((", true), "\"(\"×N");
        assert_eq!(render_core("0 =(((((((((('int))))))))))", true), "\"0 =\" \"(\"×N \"'int\" \")\"×N");
        assert_eq!(render_core("(((", true), "\"(((\"");
        assert_eq!(render_core("$1", false), "\"$1\"");
    }

    #[test]
    fn span_checks() {
        use crate::c18::oracle::{SpanInfo, check_span};
        let sp = |offset, line, column, length| SpanInfo { offset, line, column, length };
        let t = "aé\nbc";
        assert_eq!(check_span(t, &sp(0, 1, 1, 6)), None);
        assert_eq!(check_span(t, &sp(6, 2, 3, 0)), None);
        assert_eq!(check_span(t, &sp(3, 1, 4, 1)), None); // byte column
        assert_eq!(check_span(t, &sp(3, 1, 3, 1)), None); // char column
        assert!(check_span(t, &sp(7, 2, 4, 0)).unwrap().starts_with("offset_beyond_end"));
        assert!(check_span(t, &sp(5, 2, 2, 2)).unwrap().starts_with("end_beyond_end"));
        assert!(check_span(t, &sp(2, 1, 3, 1)).unwrap().starts_with("offset_not_char_boundary"));
        assert!(check_span(t, &sp(1, 1, 2, 1)).unwrap().starts_with("end_not_char_boundary"));
        assert!(check_span(t, &sp(4, 1, 1, 1)).unwrap().starts_with("line_inconsistent"));
        assert!(check_span(t, &sp(4, 2, 5, 1)).unwrap().starts_with("column_inconsistent"));
    }

    #[test]
    fn rust_literal_scanner() {
        use crate::c18::corpus::{CorpusStats, scan_rust_literals, spec_blocks};
        let src = r####"
            fn evaluate(x: &str) {}
            quiver().evaluate("a \"b\" \\ \n c").expect("1");
            quiver().evaluate(
                r#"raw "x""#,
            ).then_evaluate("multi \
                 line");
            quiver().evaluate(&format!("{{ {} }}", 1));
            quiver().evaluate(src);
        "####;
        let mut st = CorpusStats::default();
        let lits = scan_rust_literals(src, &mut st);
        assert_eq!(lits, vec!["a \"b\" \\ \n c".to_string(), "raw \"x\"".to_string(), "multi line".to_string()]);
        assert_eq!((st.test_call_sites, st.test_literals, st.test_format_templates_skipped, st.test_non_literal_args_skipped), (5, 3, 1, 1));
        assert_eq!(spec_blocks("x\n```quiver\na\nb\n```\ny\n```rust\nz\n```\n```quiver\nc\n```\n"), vec!["a\nb\n".to_string(), "c\n".to_string()]);
    }
}
