//! Deterministic shrinking of failing inputs to a minimal core, and canonical signatures.

use super::corpus::lex;

fn chars(s: &str) -> Vec<(usize, usize)> {
    s.char_indices().map(|(i, c)| (i, i + c.len_utf8())).collect()
}

/// Delete chunks of `units` (halving chunk sizes down to one unit) while `pred` keeps holding.
fn delete_chunks(mut cur: String, units: fn(&str) -> Vec<(usize, usize)>, pred: &mut dyn FnMut(&str) -> bool) -> String {
    let mut size = (units(&cur).len() / 2).max(1);
    loop {
        let mut i = 0;
        loop {
            let us = units(&cur);
            if i >= us.len() {
                break;
            }
            let j = (i + size).min(us.len());
            let mut cand = String::with_capacity(cur.len());
            cand.push_str(&cur[..us[i].0]);
            cand.push_str(&cur[us[j - 1].1..]);
            if pred(&cand) {
                cur = cand;
            } else {
                i += size;
            }
        }
        if size == 1 {
            break;
        }
        size /= 2;
    }
    cur
}

/// Replace every token by the simplest token of its sort, if the failure persists.
fn simplify_tokens(mut cur: String, pred: &mut dyn FnMut(&str) -> bool) -> String {
    let mut i = 0;
    loop {
        let toks = lex(&cur);
        if i >= toks.len() {
            break;
        }
        let (lo, hi) = toks[i];
        let t = &cur[lo..hi];
        let c = t.chars().next().unwrap();
        // first the simplest term of all (`0`), then the simplest token of the same lexical class
        let mut cands: Vec<&str> = vec![];
        let blank = c == ' ' || c == '\t' || c == '\n' || c == '\r';
        if !blank {
            // a short fixed list of simplest tokens, tried in this order up to the token itself
            for simple in ["0", "a", "A", "(", ")", "[", "]", "{", "}"] {
                if simple == t {
                    break;
                }
                cands.push(simple);
            }
        }
        if c.is_ascii_lowercase() && t != "a" {
            cands.push("a");
        } else if c.is_ascii_uppercase() && t != "A" {
            cands.push("A");
        } else if (c == ' ' || c == '\t') && t != " " {
            cands.push(" ");
        } else if !c.is_ascii() && t != "é" {
            cands.push("é");
        }
        for sim in cands {
            let cand = format!("{}{}{}", &cur[..lo], sim, &cur[hi..]);
            if pred(&cand) {
                cur = cand;
                break;
            }
        }
        i += 1;
    }
    cur
}

/// For short inputs: try to keep only a contiguous range of tokens (shortest first), which removes
/// a prefix and a suffix in one step — chunk deletion alone cannot, when each half is needed to
/// reach the failing spot.
fn keep_range(cur: String, pred: &mut dyn FnMut(&str) -> bool) -> String {
    let toks = lex(&cur);
    let n = toks.len();
    if n < 2 || n > 48 {
        return cur;
    }
    for len in 1..n {
        for i in 0..=(n - len) {
            let cand = &cur[toks[i].0..toks[i + len - 1].1];
            if pred(cand) {
                return cand.to_string();
            }
        }
    }
    cur
}

/// Replace every character by the simplest character of its class that keeps the failure:
/// a digit by the smallest digit (tried in ascending order), a letter by `a` / `A`.
fn simplify_chars(mut cur: String, pred: &mut dyn FnMut(&str) -> bool) -> String {
    let mut i = 0;
    while i < cur.len() {
        let c = cur[i..].chars().next().unwrap();
        let cands: Vec<char> = if c.is_ascii_digit() {
            ('0'..c).collect()
        } else if c.is_ascii_lowercase() && c != 'a' {
            vec!['a']
        } else if c.is_ascii_uppercase() && c != 'A' {
            vec!['A']
        } else {
            vec![]
        };
        for r in cands {
            let cand = format!("{}{}{}", &cur[..i], r, &cur[i + c.len_utf8()..]);
            if pred(&cand) {
                cur = cand;
                break;
            }
        }
        i += c.len_utf8();
    }
    cur
}

/// Replace every decimal literal of two or more digits by the smallest number that keeps the
/// failure (binary search between 0 and the literal's value; exact when failing is monotone in the
/// value, as for overflow checks, and in any case deterministic).
fn minimise_numbers(mut cur: String, pred: &mut dyn FnMut(&str) -> bool) -> String {
    use num_bigint::BigUint;
    let mut i = 0;
    loop {
        let toks = lex(&cur);
        if i >= toks.len() {
            break;
        }
        let (lo_b, hi_b) = toks[i];
        let t = cur[lo_b..hi_b].to_string();
        i += 1;
        if t.len() < 2 || !t.bytes().all(|b| b.is_ascii_digit()) {
            continue;
        }
        let Ok(mut hi) = t.parse::<BigUint>() else { continue };
        let with = |v: &BigUint, cur: &str| format!("{}{}{}", &cur[..lo_b], v, &cur[hi_b..]);
        let zero = BigUint::from(0u8);
        if pred(&with(&zero, &cur)) {
            cur = with(&zero, &cur);
            continue;
        }
        // invariant: pred fails (= still failing input) at `hi`, does not at `lo`
        let mut lo = zero;
        let one = BigUint::from(1u8);
        while &hi - &lo > one {
            let mid = (&hi + &lo) >> 1;
            if pred(&with(&mid, &cur)) {
                hi = mid;
            } else {
                lo = mid;
            }
        }
        let cand = with(&hi, &cur);
        if cand != cur && pred(&cand) {
            cur = cand;
        }
    }
    cur
}

/// Shrink `text` to a fixpoint of: token-chunk deletion, keeping a token range, character deletion,
/// token simplification, character simplification.
pub fn shrink(text: &str, pred: &mut dyn FnMut(&str) -> bool) -> String {
    let mut cur = text.to_string();
    for _round in 0..8 {
        let before = cur.clone();
        cur = delete_chunks(cur, lex, pred);
        cur = keep_range(cur, pred);
        cur = delete_chunks(cur, chars, pred);
        cur = simplify_tokens(cur, pred);
        cur = minimise_numbers(cur, pred);
        cur = simplify_chars(cur, pred);
        if cur == before {
            break;
        }
    }
    cur
}

/// Run-length form of a text: (unit text, repetitions), where a unit is 1..=6 consecutive tokens
/// and a run is the unit repeated back to back (`(((` -> ("(",3); `#{#{#{` -> ("#{",3)). Greedy from
/// the left; at each position the period covering the most tokens wins, smaller period on ties.
pub fn runs(text: &str) -> Vec<(String, usize)> {
    let toks: Vec<&str> = lex(text).into_iter().map(|(lo, hi)| &text[lo..hi]).collect();
    let n = toks.len();
    let mut out: Vec<(String, usize)> = vec![];
    let mut i = 0;
    while i < n {
        let mut best = (1usize, 1usize);
        for p in 1..=6usize {
            if i + p > n {
                break;
            }
            let mut reps = 1;
            while i + (reps + 1) * p <= n && toks[i + reps * p..i + (reps + 1) * p] == toks[i..i + p] {
                reps += 1;
            }
            if reps >= 2 && reps * p > best.0 * best.1 {
                best = (p, reps);
            }
        }
        out.push((toks[i..i + best.0].concat(), best.1));
        i += best.0 * best.1;
    }
    out
}

pub fn unruns(rs: &[(String, usize)]) -> String {
    let mut s = String::new();
    for (t, n) in rs {
        for _ in 0..*n {
            s.push_str(t);
        }
    }
    s
}

pub const LONG_RUN: usize = 8;

/// Canonical rendering of a core. With `elide_runs`, a run of >= LONG_RUN identical tokens is
/// written `"tok"×N` (used for time-outs and crashes, where the exact depth at which the blow-up
/// crosses the limit is not part of the failing thing).
pub fn render_core(text: &str, elide_runs: bool) -> String {
    if !elide_runs {
        return serde_json::to_string(text).unwrap();
    }
    let mut pieces: Vec<String> = vec![];
    let mut lit = String::new();
    for (t, n) in runs(text) {
        if n >= LONG_RUN {
            if !lit.is_empty() {
                pieces.push(serde_json::to_string(&lit).unwrap());
                lit.clear();
            }
            pieces.push(format!("{}×N", serde_json::to_string(&t).unwrap()));
        } else {
            for _ in 0..n {
                lit.push_str(&t);
            }
        }
    }
    if !lit.is_empty() || pieces.is_empty() {
        pieces.push(serde_json::to_string(&lit).unwrap());
    }
    pieces.join(" ")
}
