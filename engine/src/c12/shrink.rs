//! Deterministic shrinker: reduce a failing case to a canonical minimal core that fails in the
//! same way (same failure kind and, for panics, same source location).
//!
//! Arguments are minimised in argument order, to a fixpoint.  A binary argument is replaced by
//! the literal of its content (if the shape matters: sub-terms by literals, constructor numbers
//! bisected), then the literal loses bytes from the end and the front and has its bytes replaced
//! by 0x00 / 0x01 / 0x80 / 0xff.  An integer argument is tried as 0, otherwise bisected in
//! magnitude towards the smallest failing magnitude, then tried positive.
//!
//! To arrive at ONE core per root cause instead of one per Pareto-minimal combination
//! (`byte_offset*8 + bit_offset + num_bits` overflows for many combinations), a candidate for
//! argument i that no longer fails is retried with each *later* integer argument set to each
//! member of its position alphabet; if one of these fails the candidate is kept together with that
//! member.  The result is (an approximation of) the lexicographically least failing tuple.

use super::cases::Case;
use super::real::SArg;
use super::shapes::BinExpr;
use num_bigint::BigInt;
use num_traits::{One, Signed, Zero};

pub struct Shrinker<'a> {
    pub fails: &'a mut dyn FnMut(&Case) -> bool,
    /// alphabet of each argument position (empty: not an integer position / unknown)
    pub alph: Vec<Vec<BigInt>>,
    pub evals: usize,
    pub max_evals: usize,
    pub cur: Case,
}

impl<'a> Shrinker<'a> {
    pub fn new(fails: &'a mut dyn FnMut(&Case) -> bool, alph: Vec<Vec<BigInt>>, max_evals: usize, start: &Case) -> Self {
        Shrinker { fails, alph, evals: 0, max_evals, cur: start.clone() }
    }

    fn test(&mut self, c: &Case) -> bool {
        if self.evals >= self.max_evals {
            return false;
        }
        self.evals += 1;
        (self.fails)(c)
    }

    /// Try `cand` at position i (see the module comment); on success the change is committed.
    fn try_set(&mut self, i: usize, cand: SArg) -> bool {
        let mut c = self.cur.clone();
        c.args[i] = cand;
        if self.test(&c) {
            self.cur = c;
            return true;
        }
        for j in i + 1..c.args.len() {
            let SArg::Int(curj) = c.args[j].clone() else { continue };
            // the neighbours of the current value first (coupled changes such as "one byte less,
            // offset one less"), then the members of the position's alphabet
            let mut members = vec![&curj - 1, &curj + 1];
            members.extend(self.alph.get(j).cloned().unwrap_or_default());
            for m in members {
                if m == curj {
                    continue;
                }
                let mut c2 = c.clone();
                c2.args[j] = SArg::Int(m);
                if self.test(&c2) {
                    self.cur = c2;
                    return true;
                }
            }
        }
        false
    }

    pub fn shrink(&mut self) -> Case {
        loop {
            let before = self.cur.clone();
            for i in 0..self.cur.args.len() {
                match self.cur.args[i].clone() {
                    SArg::Bin(_) => self.shrink_bin(i),
                    SArg::Int(_) => self.shrink_int(i),
                }
            }
            if self.cur == before || self.evals >= self.max_evals {
                return self.cur.clone();
            }
        }
    }

    fn int_at(&self, i: usize) -> BigInt {
        match &self.cur.args[i] {
            SArg::Int(n) => n.clone(),
            _ => BigInt::zero(),
        }
    }

    fn shrink_int(&mut self, i: usize) {
        let n = self.int_at(i);
        if n.is_zero() {
            return;
        }
        if self.try_set(i, SArg::Int(BigInt::zero())) {
            return;
        }
        let neg = n.is_negative();
        // 0 does not fail, |n| does: bisect for the smallest failing magnitude of the same sign
        let mut lo = BigInt::zero();
        let mut hi = n.abs();
        while &hi - &lo > BigInt::one() {
            let mid: BigInt = (&lo + &hi) >> 1;
            let v = if neg { -mid.clone() } else { mid.clone() };
            if self.try_set(i, SArg::Int(v)) {
                hi = mid;
            } else {
                lo = mid;
            }
        }
        if neg {
            let _ = self.try_set(i, SArg::Int(hi));
        }
    }

    fn bin_at(&self, i: usize) -> BinExpr {
        match &self.cur.args[i] {
            SArg::Bin(e) => e.clone(),
            _ => BinExpr::Lit(vec![]),
        }
    }

    fn shrink_bin(&mut self, i: usize) {
        // 1. the whole shape as a literal
        let e = self.bin_at(i);
        if !e.is_lit() && e.len() <= 64 {
            let _ = self.try_set(i, SArg::Bin(BinExpr::Lit(e.content())));
        }
        // 2. a shape that matters: structural simplification, then the numbers inside
        if !self.bin_at(i).is_lit() {
            loop {
                let mut changed = false;
                for cand in simpler_shapes(&self.bin_at(i)) {
                    if self.try_set(i, SArg::Bin(cand)) {
                        changed = true;
                        break;
                    }
                }
                if !changed {
                    break;
                }
            }
            self.shrink_shape_numbers(i);
            return;
        }
        // 3. literal content
        let lit_at = |s: &Self| match s.bin_at(i) {
            BinExpr::Lit(b) => b,
            _ => vec![],
        };
        if !lit_at(self).is_empty() && self.try_set(i, SArg::Bin(BinExpr::Lit(vec![]))) {
            return;
        }
        loop {
            let b = lit_at(self);
            if b.is_empty() || !self.try_set(i, SArg::Bin(BinExpr::Lit(b[..b.len() - 1].to_vec()))) {
                break;
            }
        }
        loop {
            let b = lit_at(self);
            if b.is_empty() || !self.try_set(i, SArg::Bin(BinExpr::Lit(b[1..].to_vec()))) {
                break;
            }
        }
        let n = lit_at(self).len();
        for k in 0..n {
            for simple in [0x00u8, 0x01, 0x80, 0xff] {
                let b = lit_at(self);
                if k >= b.len() || b[k] == simple {
                    break;
                }
                let mut cand = b.clone();
                cand[k] = simple;
                if self.try_set(i, SArg::Bin(BinExpr::Lit(cand))) {
                    break;
                }
            }
        }
    }

    /// Bisect `new(n)` sizes and `repeat(_, n)` counts of a shape.
    fn shrink_shape_numbers(&mut self, i: usize) {
        for path in 0..8usize {
            let e = self.bin_at(i);
            let Some(n) = number_at(&e, path) else { continue };
            if n == 0 {
                continue;
            }
            if let Some(z) = with_number(&e, path, 0) {
                if self.try_set(i, SArg::Bin(z)) {
                    continue;
                }
            }
            let (mut lo, mut hi) = (0usize, n);
            while hi - lo > 1 {
                let mid = lo + (hi - lo) / 2;
                let ok = match with_number(&self.bin_at(i), path, mid) {
                    Some(c) => self.try_set(i, SArg::Bin(c)),
                    None => false,
                };
                if ok {
                    hi = mid;
                } else {
                    lo = mid;
                }
            }
        }
    }
}

fn byte_rank(b: u8) -> u8 {
    match b {
        0x00 => 0,
        0x01 => 1,
        0x80 => 2,
        0xff => 3,
        _ => 4,
    }
}

/// One-step simplifications of a shape, simplest first: a constructor removed, a sub-term replaced
/// by the literal of its content, a slice window or a repeat count reduced, a literal leaf
/// shortened or one of its bytes replaced by 0x00 / 0x01 / 0x80 / 0xff.  Every candidate is
/// strictly smaller in (bytes + nodes + numbers + byte ranks), so greedy descent terminates.
fn simpler_shapes(e: &BinExpr) -> Vec<BinExpr> {
    let small = |x: &BinExpr| x.len() <= 64;
    let lit = |x: &BinExpr| BinExpr::Lit(x.content());
    let mut out = vec![];
    match e {
        BinExpr::New(_) => {}
        BinExpr::Lit(b) => {
            if b.len() > 64 {
                return out;
            }
            if !b.is_empty() {
                out.push(BinExpr::Lit(b[..b.len() - 1].to_vec()));
                out.push(BinExpr::Lit(b[1..].to_vec()));
            }
            for k in 0..b.len() {
                for simple in [0x00u8, 0x01, 0x80, 0xff] {
                    if byte_rank(simple) < byte_rank(b[k]) {
                        let mut c = b.clone();
                        c[k] = simple;
                        out.push(BinExpr::Lit(c));
                    }
                }
            }
        }
        BinExpr::Mat(x) => {
            out.push((**x).clone());
            for s in simpler_shapes(x) {
                out.push(BinExpr::Mat(Box::new(s)));
            }
        }
        BinExpr::Concat(a, b) => {
            out.push((**a).clone());
            out.push((**b).clone());
            if !a.is_lit() && small(a) {
                out.push(BinExpr::Concat(Box::new(lit(a)), b.clone()));
            }
            if !b.is_lit() && small(b) {
                out.push(BinExpr::Concat(a.clone(), Box::new(lit(b))));
            }
            for s in simpler_shapes(a) {
                out.push(BinExpr::Concat(Box::new(s), b.clone()));
            }
            for s in simpler_shapes(b) {
                out.push(BinExpr::Concat(a.clone(), Box::new(s)));
            }
        }
        BinExpr::Slice(p, s, en) => {
            out.push((**p).clone());
            if !p.is_lit() && small(p) {
                out.push(BinExpr::Slice(Box::new(lit(p)), *s, *en));
            }
            if en > s {
                out.push(BinExpr::Slice(p.clone(), *s, *en - 1));
                out.push(BinExpr::Slice(p.clone(), *s + 1, *en));
            }
            if let BinExpr::Lit(b) = &**p {
                // drop an unused byte of the parent, keeping the window's content
                if *s > 0 {
                    out.push(BinExpr::Slice(Box::new(BinExpr::Lit(b[1..].to_vec())), *s - 1, *en - 1));
                }
            }
            for q in simpler_shapes(p) {
                out.push(BinExpr::Slice(Box::new(q), *s, *en));
            }
        }
        BinExpr::Repeat(u, c) => {
            out.push((**u).clone());
            if !u.is_lit() && small(u) {
                out.push(BinExpr::Repeat(Box::new(lit(u)), *c));
            }
            if *c > 0 {
                out.push(BinExpr::Repeat(u.clone(), *c - 1));
            }
            for q in simpler_shapes(u) {
                out.push(BinExpr::Repeat(Box::new(q), *c));
            }
        }
    }
    out.retain(well_formed);
    out
}

/// The shrinkable numbers of a shape (pre-order over New sizes and Repeat counts).
fn numbers(e: &BinExpr, out: &mut Vec<usize>) {
    match e {
        BinExpr::Lit(_) => {}
        BinExpr::New(n) => out.push(*n),
        BinExpr::Concat(a, b) => {
            numbers(a, out);
            numbers(b, out);
        }
        BinExpr::Slice(p, _, _) => numbers(p, out),
        BinExpr::Repeat(u, c) => {
            out.push(*c);
            numbers(u, out);
        }
        BinExpr::Mat(x) => numbers(x, out),
    }
}

fn number_at(e: &BinExpr, path: usize) -> Option<usize> {
    let mut v = vec![];
    numbers(e, &mut v);
    v.get(path).copied()
}

/// Replace the `path`-th number; None when the result would be ill-formed (slice out of range).
fn with_number(e: &BinExpr, path: usize, value: usize) -> Option<BinExpr> {
    fn go(e: &BinExpr, k: &mut usize, path: usize, value: usize) -> BinExpr {
        match e {
            BinExpr::Lit(b) => BinExpr::Lit(b.clone()),
            BinExpr::New(n) => {
                let r = if *k == path { BinExpr::New(value) } else { BinExpr::New(*n) };
                *k += 1;
                r
            }
            BinExpr::Concat(a, b) => {
                let a2 = go(a, k, path, value);
                let b2 = go(b, k, path, value);
                BinExpr::Concat(Box::new(a2), Box::new(b2))
            }
            BinExpr::Slice(p, s, en) => BinExpr::Slice(Box::new(go(p, k, path, value)), *s, *en),
            BinExpr::Repeat(u, c) => {
                let c2 = if *k == path { value } else { *c };
                *k += 1;
                let u2 = go(u, k, path, value);
                BinExpr::Repeat(Box::new(u2), c2)
            }
            BinExpr::Mat(x) => BinExpr::Mat(Box::new(go(x, k, path, value))),
        }
    }
    let mut k = 0;
    let r = go(e, &mut k, path, value);
    if well_formed(&r) { Some(r) } else { None }
}

pub fn well_formed(e: &BinExpr) -> bool {
    match e {
        BinExpr::Lit(_) | BinExpr::New(_) => true,
        BinExpr::Concat(a, b) => well_formed(a) && well_formed(b),
        BinExpr::Slice(p, s, en) => well_formed(p) && s <= en && *en <= p.len(),
        BinExpr::Repeat(u, c) => well_formed(u) && u.len().checked_mul(*c).is_some_and(|n| n <= (1 << 26)),
        BinExpr::Mat(x) => well_formed(x),
    }
}
