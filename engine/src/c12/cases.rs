//! The enumerated universe: builtin signatures, per-position boundary alphabets, contents and
//! shapes, the judge, and the (deterministic) enumeration order.

use super::model::{Expect, MArg, RVal, model};
use super::real::{Obs, SArg};
use super::shapes::{BinExpr, Content, Shape, contents, shapes_for};
use num_bigint::BigInt;
use num_traits::{One, Zero};
use serde_json::{Value as J, json};

#[derive(Clone, Copy, Debug, PartialEq, Eq)]
pub enum Kind {
    /// any integer: the full symmetric boundary alphabet
    Full,
    /// an index / size / count / offset into a binary
    Index,
    /// byte offset of binary_get / binary_set (around 0, the lengths, 2^61, 2^63, 2^64)
    Offset,
    /// bit offset 0..=7
    BitOff,
    /// bit count 1..=64
    NumBits,
    /// byte value 0..=255
    ByteVal,
    /// lane width 4 | 8
    Width,
    /// byte count 1..=8
    NumBytes,
    /// value written by binary_set
    SetValue,
    /// value appended by binary_append
    AppendValue,
    /// shift amount of binary_shift (around 8*len as well)
    ShiftAmt,
}

#[derive(Clone, Copy, Debug, PartialEq, Eq)]
pub enum Pos {
    Bin,
    /// selection mask of vector_take (needs lengths 2 and 4 as well)
    Mask,
    Int(Kind),
}

pub struct Spec {
    pub name: &'static str,
    pub pos: Vec<Pos>,
}

pub fn specs() -> Vec<Spec> {
    use Kind::*;
    use Pos::*;
    let s = |name: &'static str, pos: Vec<Pos>| Spec { name, pos };
    vec![
        s("integer_abs", vec![Int(Full)]),
        s("integer_sqrt", vec![Int(Full)]),
        s("integer_sin", vec![Int(Full)]),
        s("integer_cos", vec![Int(Full)]),
        s("integer_add", vec![Int(Full), Int(Full)]),
        s("integer_subtract", vec![Int(Full), Int(Full)]),
        s("integer_multiply", vec![Int(Full), Int(Full)]),
        s("integer_divide", vec![Int(Full), Int(Full)]),
        s("integer_modulo", vec![Int(Full), Int(Full)]),
        s("integer_gcd", vec![Int(Full), Int(Full)]),
        s("integer_compare", vec![Int(Full), Int(Full)]),
        s("integer_and", vec![Int(Full), Int(Full)]),
        s("integer_or", vec![Int(Full), Int(Full)]),
        s("integer_xor", vec![Int(Full), Int(Full)]),
        s("integer_not", vec![Int(Full)]),
        s("integer_shift", vec![Int(Full), Int(Full)]),
        s("integer_popcount", vec![Int(Full)]),
        s("binary_new", vec![Int(Index)]),
        s("binary_length", vec![Bin]),
        s("binary_concat", vec![Bin, Bin]),
        s("binary_repeat", vec![Bin, Int(Index)]),
        s("binary_and", vec![Bin, Bin]),
        s("binary_or", vec![Bin, Bin]),
        s("binary_xor", vec![Bin, Bin]),
        s("binary_not", vec![Bin]),
        s("binary_shift", vec![Bin, Int(ShiftAmt)]),
        s("binary_popcount", vec![Bin]),
        s("binary_get", vec![Bin, Int(Offset), Int(BitOff), Int(NumBits)]),
        s("binary_set", vec![Bin, Int(Offset), Int(BitOff), Int(SetValue), Int(NumBits)]),
        s("binary_slice", vec![Bin, Int(Index), Int(Index)]),
        s("binary_index", vec![Bin, Int(ByteVal), Int(Index)]),
        s("binary_hash32", vec![Bin]),
        s("binary_hash64", vec![Bin]),
        s("binary_append", vec![Bin, Int(AppendValue), Int(NumBytes)]),
        s("vector_add", vec![Bin, Bin, Int(Width)]),
        s("vector_subtract", vec![Bin, Bin, Int(Width)]),
        s("vector_multiply", vec![Bin, Bin, Int(Width)]),
        s("vector_less_than", vec![Bin, Bin, Int(Width)]),
        s("vector_equal", vec![Bin, Bin, Int(Width)]),
        s("vector_greater_than", vec![Bin, Bin, Int(Width)]),
        s("vector_dot", vec![Bin, Bin, Int(Width)]),
        s("vector_take", vec![Bin, Int(Width), Mask]),
        s("vector_get", vec![Bin, Int(Width), Int(Index)]),
        s("vector_push", vec![Bin, Int(Width), Int(Full)]),
        s("vector_sum", vec![Bin, Int(Width)]),
    ]
}

fn p2(k: usize) -> BigInt {
    BigInt::one() << k
}

fn uniq(v: Vec<BigInt>) -> Vec<BigInt> {
    let mut out: Vec<BigInt> = vec![];
    for x in v {
        if !out.contains(&x) {
            out.push(x);
        }
    }
    out
}

/// The boundary magnitudes named by the property.
pub fn base_alphabet() -> Vec<BigInt> {
    let small = [0i64, 1, -1, 2, 7, 8, 9, 31, 32, 33, 63, 64, 65, 255, 256];
    let mut v: Vec<BigInt> = small.iter().map(|&x| BigInt::from(x)).collect();
    v.extend([
        p2(31) - 1,
        p2(31),
        p2(32) - 1,
        p2(32),
        p2(32) + 1,
        p2(63) - 1,
        p2(63),
        p2(64) - 1,
        p2(64),
        -p2(63),
        -p2(63) - 1,
        BigInt::from(10).pow(30),
        -BigInt::from(10).pow(30),
    ]);
    v
}

pub fn alphabet(kind: Kind) -> Vec<BigInt> {
    let b = |x: i64| BigInt::from(x);
    match kind {
        Kind::Full => {
            let base = base_alphabet();
            let mut v = base.clone();
            v.extend(base.iter().map(|x| -x));
            uniq(v)
        }
        Kind::Index => {
            let mut v = alphabet(Kind::Full);
            v.extend([b(3), b(4), b(15), b(16), b(17), p2(61) - 1, p2(61), p2(61) + 1]);
            uniq(v)
        }
        Kind::ShiftAmt => {
            let mut v = alphabet(Kind::Full);
            for x in [3i64, 4, 15, 16, 17, 23, 24, 25, 71, 72, 73, 127, 128, 129] {
                v.push(b(x));
                v.push(b(-x));
            }
            uniq(v)
        }
        Kind::Offset => uniq(vec![
            b(-1), b(0), b(1), b(2), b(7), b(8), b(9), b(15), b(16),
            p2(31), p2(32), p2(61) - 1, p2(61), p2(63) - 1, p2(63), p2(64) - 1, p2(64),
            -p2(63) - 1, BigInt::from(10).pow(30),
        ]),
        Kind::BitOff => uniq(vec![
            b(-1), b(0), b(1), b(2), b(3), b(4), b(5), b(6), b(7), b(8), p2(32), p2(64),
        ]),
        Kind::NumBits => uniq(vec![
            b(-1), b(0), b(1), b(2), b(7), b(8), b(9), b(31), b(32), b(33), b(57), b(58), b(63),
            b(64), b(65), p2(32) + 1, p2(64),
        ]),
        Kind::ByteVal => uniq(vec![
            b(-1), b(0), b(1), b(2), b(0x7f), b(0x80), b(0x81), b(0xfe), b(0xff), b(256), p2(32),
            p2(64),
        ]),
        Kind::Width => uniq(vec![
            b(-4), b(0), b(1), b(3), b(4), b(5), b(7), b(8), b(9), b(16), p2(32) + 4, p2(64) + 8,
        ]),
        Kind::NumBytes => uniq(vec![
            b(-1), b(0), b(1), b(2), b(3), b(4), b(7), b(8), b(9), p2(32) + 1, p2(64) + 1,
        ]),
        Kind::SetValue => uniq(vec![
            b(-1), b(0), b(1), b(2), b(127), b(255), b(256), p2(31), p2(32) - 1, p2(32),
            p2(63) - 1, p2(63), p2(64) - 1, p2(64),
        ]),
        Kind::AppendValue => {
            let mut v = alphabet(Kind::Full);
            for k in [16usize, 24, 40, 48, 56] {
                v.push(p2(k) - 1);
                v.push(p2(k));
            }
            uniq(v)
        }
    }
}

pub struct Universe {
    pub contents: Vec<Content>,
    pub shapes: Vec<Vec<Shape>>,
    /// content indices usable at a `Pos::Bin` position
    pub std_set: Vec<usize>,
    /// content indices usable at a `Pos::Mask` position
    pub mask_set: Vec<usize>,
}

impl Universe {
    pub fn new() -> Universe {
        let mut cs = contents();
        let std_n = cs.len();
        // extra mask contents (lengths 2 and 4: lane counts of 8- and 16-byte buffers)
        cs.push(Content { name: "m2", bytes: vec![0x01, 0x00] });
        cs.push(Content { name: "n2", bytes: vec![0x00, 0xff] });
        cs.push(Content { name: "z2", bytes: vec![0x00, 0x00] });
        cs.push(Content { name: "m4", bytes: vec![0x00, 0x01, 0x80, 0x00] });
        cs.push(Content { name: "z4", bytes: vec![0x00; 4] });
        let shapes = cs.iter().map(|c| shapes_for(&c.bytes)).collect();
        let by_name = |n: &str| cs.iter().position(|c| c.name == n).unwrap();
        let mask_set = vec![
            by_name("e0"), by_name("d1"), by_name("z1"), by_name("m2"), by_name("n2"), by_name("z2"),
            by_name("d3"), by_name("m4"), by_name("z4"), by_name("d8"),
        ];
        Universe { std_set: (0..std_n).collect(), mask_set, contents: cs, shapes }
    }

    /// number of alphabet members at a position (content level)
    pub fn alpha_len(&self, p: Pos) -> usize {
        match p {
            Pos::Bin => self.std_set.len(),
            Pos::Mask => self.mask_set.len(),
            Pos::Int(k) => alphabet(k).len(),
        }
    }
}

/// One argument at content level.
#[derive(Clone, Debug)]
pub enum CVal {
    Int(BigInt),
    /// index into Universe::contents
    Bin(usize),
}

/// Enumerate the content-level Cartesian product of a builtin with position 0 fixed to member
/// `a0` of its alphabet, last position fastest.
pub fn for_each_content_case(u: &Universe, spec: &Spec, a0: usize, mut f: impl FnMut(&[CVal]) -> bool) {
    let alph: Vec<Vec<CVal>> = spec
        .pos
        .iter()
        .map(|p| match p {
            Pos::Bin => u.std_set.iter().map(|&i| CVal::Bin(i)).collect(),
            Pos::Mask => u.mask_set.iter().map(|&i| CVal::Bin(i)).collect(),
            Pos::Int(k) => alphabet(*k).into_iter().map(CVal::Int).collect(),
        })
        .collect();
    let n = spec.pos.len();
    let mut idx = vec![0usize; n];
    idx[0] = a0;
    if a0 >= alph[0].len() {
        return;
    }
    loop {
        let cur: Vec<CVal> = (0..n).map(|i| alph[i][idx[i]].clone()).collect();
        if !f(&cur) {
            return;
        }
        // advance positions n-1 .. 1
        let mut p = n;
        loop {
            if p == 1 {
                return;
            }
            p -= 1;
            idx[p] += 1;
            if idx[p] < alph[p].len() {
                break;
            }
            idx[p] = 0;
        }
    }
}

pub fn expect_of(u: &Universe, name: &str, c: &[CVal]) -> Expect {
    let margs: Vec<MArg> = c
        .iter()
        .map(|v| match v {
            CVal::Int(i) => MArg::Int(i),
            CVal::Bin(ci) => MArg::Bin(&u.contents[*ci].bytes),
        })
        .collect();
    model(name, &margs)
}

pub fn expect_of_sargs(name: &str, args: &[SArg]) -> Expect {
    let owned: Vec<Option<Vec<u8>>> = args
        .iter()
        .map(|a| match a {
            SArg::Bin(e) => Some(e.content()),
            _ => None,
        })
        .collect();
    let margs: Vec<MArg> = args
        .iter()
        .zip(owned.iter())
        .map(|(a, o)| match a {
            SArg::Int(i) => MArg::Int(i),
            SArg::Bin(_) => MArg::Bin(o.as_ref().unwrap()),
        })
        .collect();
    model(name, &margs)
}

pub fn is_nontrivial(e: &Expect) -> bool {
    matches!(e, Expect::Val(_) | Expect::ErrOrVal(_))
}

/// The verdict on one observation. `None` = conforms.  The key names the *kind* of failure and is
/// part of the signature; `loc` (panic location) only guides the shrinker.
#[derive(Clone, Debug, PartialEq, Eq)]
pub struct Fail {
    pub key: String,
    pub loc: String,
}

pub fn judge(exp: &Expect, obs: &Obs) -> Option<Fail> {
    let f = |k: &str| Some(Fail { key: k.to_string(), loc: String::new() });
    match obs {
        Obs::Panic(loc, msg) => Some(Fail { key: format!("panic({})", msg), loc: loc.clone() }),
        Obs::Other(s) => {
            // the category (text before the first ':') is part of the kind, the detail is not
            let cat = s.split(':').next().unwrap_or("").trim();
            Some(Fail { key: format!("malformed-result({})", cat), loc: String::new() })
        }
        Obs::Err(_) => match exp {
            Expect::Err | Expect::ErrOrVal(_) | Expect::Any => None,
            Expect::Val(_) => f("error-for-valid-argument"),
        },
        Obs::Val(v) => match exp {
            Expect::Val(w) | Expect::ErrOrVal(w) => {
                if v == w {
                    None
                } else {
                    f("wrong-value")
                }
            }
            Expect::Err => f("no-error-for-invalid-argument"),
            Expect::Any => match v {
                RVal::Int(_) => None,
                _ => f("wrong-value"),
            },
        },
    }
}

pub fn expect_text(e: &Expect) -> String {
    match e {
        Expect::Val(v) => super::real::rval_text(v),
        Expect::Err => "a clean runtime error".to_string(),
        Expect::ErrOrVal(v) => format!("{} (or a clean 'does not fit' error)", super::real::rval_text(v)),
        Expect::Any => "any integer or a clean error (totality only)".to_string(),
    }
}

// ---------------------------------------------------------------------------------------------
// cases as data (signatures, replay)

#[derive(Clone, Debug, PartialEq, Eq)]
pub struct Case {
    pub name: String,
    pub args: Vec<SArg>,
    /// true: through the compiler and interpreter; false: direct call
    pub compiled: bool,
}

impl Case {
    pub fn text(&self) -> String {
        let parts: Vec<String> = self
            .args
            .iter()
            .map(|a| match a {
                SArg::Int(i) => i.to_string(),
                SArg::Bin(e) => e.text(),
            })
            .collect();
        format!("{}{}({})", if self.compiled { "compiled " } else { "" }, self.name, parts.join(", "))
    }

    pub fn to_json(&self) -> J {
        let args: Vec<J> = self
            .args
            .iter()
            .map(|a| match a {
                SArg::Int(i) => json!({"int": i.to_string()}),
                SArg::Bin(e) => json!({"bin": e.to_json()}),
            })
            .collect();
        json!({"engine": "c12", "builtin": self.name, "args": args, "compiled": self.compiled})
    }

    pub fn from_json(j: &J) -> Option<Case> {
        let name = j["builtin"].as_str()?.to_string();
        let mut args = vec![];
        for a in j["args"].as_array()? {
            if let Some(s) = a.get("int") {
                args.push(SArg::Int(s.as_str()?.parse().ok()?));
            } else if let Some(b) = a.get("bin") {
                args.push(SArg::Bin(BinExpr::from_json(b)?));
            } else {
                return None;
            }
        }
        Some(Case { name, args, compiled: j["compiled"].as_bool().unwrap_or(false) })
    }
}

/// Which shape levels take part, per tier, arity in binaries and triviality of the case.
/// Returns (A, B): a single binary uses levels <= A; a pair (i, j) takes part when
/// (li <= A and lj <= B) or (li <= B and lj <= A).
pub fn shape_policy(thorough: bool, nontrivial: bool, nbins: usize, npos: usize) -> (u8, u8) {
    match (thorough, nbins, nontrivial) {
        (_, 0, _) => (0, 0),
        (false, 1, true) => (3, 3),
        // bit-field access has 4-5 positions, nearly all of the product is outside the domain
        (false, 1, false) => if npos >= 4 { (0, 0) } else { (1, 1) },
        (false, _, true) => (2, 1),
        (false, _, false) => (1, 0),
        (true, 1, _) => (3, 3),
        (true, _, true) => (3, 3),
        (true, _, false) => (2, 1),
    }
}

pub fn pair_ok(li: u8, lj: u8, a: u8, b: u8) -> bool {
    (li <= a && lj <= b) || (li <= b && lj <= a)
}
