//! Binary contents and the rope shapes of each content (<= 2 constructor steps, before and after
//! `materialize`), as expressions that are *built through the real builtins*.

use serde_json::{Value as J, json};

#[derive(Clone, Debug, PartialEq, Eq, Hash, PartialOrd, Ord)]
pub enum BinExpr {
    /// `allocate_binary(bytes)` / a binary literal
    Lit(Vec<u8>),
    /// `binary_new(n)`
    New(usize),
    /// `binary_concat([a, b])`
    Concat(Box<BinExpr>, Box<BinExpr>),
    /// `binary_slice([p, start, end])`
    Slice(Box<BinExpr>, usize, usize),
    /// `binary_repeat([u, count])`
    Repeat(Box<BinExpr>, usize),
    /// `Executor::materialize` applied to the built slot (in-place flattening)
    Mat(Box<BinExpr>),
}

pub fn hex(b: &[u8]) -> String {
    let mut s = String::with_capacity(2 + b.len() * 2);
    s.push_str("0x");
    for x in b {
        s.push_str(&format!("{:02x}", x));
    }
    s
}

pub fn unhex(s: &str) -> Option<Vec<u8>> {
    let s = s.strip_prefix("0x")?;
    if s.len() % 2 != 0 {
        return None;
    }
    (0..s.len() / 2)
        .map(|i| u8::from_str_radix(&s[2 * i..2 * i + 2], 16).ok())
        .collect()
}

impl BinExpr {
    pub fn lit(b: &[u8]) -> BinExpr {
        BinExpr::Lit(b.to_vec())
    }

    /// Length of the content (no allocation).
    pub fn len(&self) -> usize {
        match self {
            BinExpr::Lit(b) => b.len(),
            BinExpr::New(n) => *n,
            BinExpr::Concat(a, b) => a.len() + b.len(),
            BinExpr::Slice(_, s, e) => e - s,
            BinExpr::Repeat(u, c) => u.len() * c,
            BinExpr::Mat(x) => x.len(),
        }
    }

    /// The flat content this expression denotes (reference semantics of the constructors).
    pub fn content(&self) -> Vec<u8> {
        match self {
            BinExpr::Lit(b) => b.clone(),
            BinExpr::New(n) => vec![0u8; *n],
            BinExpr::Concat(a, b) => {
                let mut v = a.content();
                v.extend_from_slice(&b.content());
                v
            }
            BinExpr::Slice(p, s, e) => p.content()[*s..*e].to_vec(),
            BinExpr::Repeat(u, c) => {
                let unit = u.content();
                let mut v = Vec::with_capacity(unit.len() * c);
                for _ in 0..*c {
                    v.extend_from_slice(&unit);
                }
                v
            }
            BinExpr::Mat(x) => x.content(),
        }
    }

    pub fn is_lit(&self) -> bool {
        matches!(self, BinExpr::Lit(_))
    }

    /// Number of constructor steps (materialize not counted).
    pub fn steps(&self) -> usize {
        match self {
            BinExpr::Lit(_) => 0,
            BinExpr::New(_) => 1,
            BinExpr::Concat(a, b) => 1 + a.steps() + b.steps(),
            BinExpr::Slice(p, _, _) => 1 + p.steps(),
            BinExpr::Repeat(u, _) => 1 + u.steps(),
            BinExpr::Mat(x) => x.steps(),
        }
    }

    pub fn has_mat(&self) -> bool {
        match self {
            BinExpr::Lit(_) | BinExpr::New(_) => false,
            BinExpr::Concat(a, b) => a.has_mat() || b.has_mat(),
            BinExpr::Slice(p, _, _) | BinExpr::Repeat(p, _) => p.has_mat(),
            BinExpr::Mat(_) => true,
        }
    }

    /// Canonical text (used in signatures).
    pub fn text(&self) -> String {
        match self {
            BinExpr::Lit(b) => format!("lit({})", hex(b)),
            BinExpr::New(n) => format!("new({})", n),
            BinExpr::Concat(a, b) => format!("concat({},{})", a.text(), b.text()),
            BinExpr::Slice(p, s, e) => format!("slice({},{},{})", p.text(), s, e),
            BinExpr::Repeat(u, c) => format!("repeat({},{})", u.text(), c),
            BinExpr::Mat(x) => format!("mat({})", x.text()),
        }
    }

    /// Quiver source that builds the same shape (materialize has no source form and is dropped).
    pub fn source(&self) -> String {
        match self {
            BinExpr::Lit(b) => hex(b),
            BinExpr::New(n) => format!("{} __binary_new__", n),
            BinExpr::Concat(a, b) => format!("[{}, {}] __binary_concat__", a.source(), b.source()),
            BinExpr::Slice(p, s, e) => format!("[{}, {}, {}] __binary_slice__", p.source(), s, e),
            BinExpr::Repeat(u, c) => format!("[{}, {}] __binary_repeat__", u.source(), c),
            BinExpr::Mat(x) => x.source(),
        }
    }

    pub fn to_json(&self) -> J {
        match self {
            BinExpr::Lit(b) => json!({"lit": hex(b)}),
            BinExpr::New(n) => json!({"new": n}),
            BinExpr::Concat(a, b) => json!({"concat": [a.to_json(), b.to_json()]}),
            BinExpr::Slice(p, s, e) => json!({"slice": [p.to_json(), s, e]}),
            BinExpr::Repeat(u, c) => json!({"repeat": [u.to_json(), c]}),
            BinExpr::Mat(x) => json!({"mat": x.to_json()}),
        }
    }

    pub fn from_json(j: &J) -> Option<BinExpr> {
        let o = j.as_object()?;
        if let Some(v) = o.get("lit") {
            return Some(BinExpr::Lit(unhex(v.as_str()?)?));
        }
        if let Some(v) = o.get("new") {
            return Some(BinExpr::New(v.as_u64()? as usize));
        }
        if let Some(v) = o.get("concat") {
            let a = v.as_array()?;
            return Some(BinExpr::Concat(
                Box::new(BinExpr::from_json(a.first()?)?),
                Box::new(BinExpr::from_json(a.get(1)?)?),
            ));
        }
        if let Some(v) = o.get("slice") {
            let a = v.as_array()?;
            return Some(BinExpr::Slice(
                Box::new(BinExpr::from_json(a.first()?)?),
                a.get(1)?.as_u64()? as usize,
                a.get(2)?.as_u64()? as usize,
            ));
        }
        if let Some(v) = o.get("repeat") {
            let a = v.as_array()?;
            return Some(BinExpr::Repeat(
                Box::new(BinExpr::from_json(a.first()?)?),
                a.get(1)?.as_u64()? as usize,
            ));
        }
        if let Some(v) = o.get("mat") {
            return Some(BinExpr::Mat(Box::new(BinExpr::from_json(v)?)));
        }
        None
    }
}

// ---------------------------------------------------------------------------------------------
// contents

pub struct Content {
    pub name: &'static str,
    pub bytes: Vec<u8>,
}

/// 16 pairwise distinct bytes, mixing sign bits; prefixes give the "distinguishable" contents.
pub const D16: [u8; 16] = [
    0x81, 0x7f, 0xff, 0x00, 0x01, 0x80, 0xfe, 0x55, 0xaa, 0x10, 0x02, 0xc3, 0x3c, 0xe7, 0x18, 0x99,
];

pub fn contents() -> Vec<Content> {
    let rep = |u: &[u8], n: usize| -> Vec<u8> {
        let mut v = vec![];
        for _ in 0..n {
            v.extend_from_slice(u);
        }
        v
    };
    let mut mx8 = vec![0xffu8; 8];
    mx8[7] = 0x7f; // i64::MAX as a little-endian lane
    let mut mn8 = vec![0u8; 8];
    mn8[7] = 0x80; // i64::MIN
    let (mx8c, mn8c) = (mx8.clone(), mn8.clone());
    vec![
        Content { name: "e0", bytes: vec![] },
        Content { name: "d1", bytes: D16[..1].to_vec() },
        Content { name: "z1", bytes: vec![0] },
        Content { name: "d3", bytes: D16[..3].to_vec() },
        Content { name: "z3", bytes: vec![0; 3] },
        Content { name: "p3", bytes: vec![0x80; 3] },
        Content { name: "d8", bytes: D16[..8].to_vec() },
        Content { name: "z8", bytes: vec![0; 8] },
        // two i32::MAX lanes
        Content { name: "p8", bytes: rep(&[0xff, 0xff, 0xff, 0x7f], 2) },
        Content { name: "f8", bytes: vec![0xff; 8] },
        Content { name: "mx8", bytes: mx8 },
        Content { name: "mn8", bytes: mn8 },
        Content { name: "d9", bytes: D16[..9].to_vec() },
        Content { name: "z9", bytes: vec![0; 9] },
        Content { name: "p9", bytes: rep(&[0x01, 0x80, 0xff], 3) },
        Content { name: "d16", bytes: D16.to_vec() },
        Content { name: "z16", bytes: vec![0; 16] },
        // i32::MAX, i32::MIN lanes twice
        Content { name: "p16", bytes: rep(&[0xff, 0xff, 0xff, 0x7f, 0x00, 0x00, 0x00, 0x80], 2) },
        // two i64::MIN lanes / two i64::MAX lanes: sums of two extreme products leave 128 bits
        Content { name: "mn16", bytes: rep(&mn8c, 2) },
        Content { name: "mx16", bytes: rep(&mx8c, 2) },
    ]
}

// ---------------------------------------------------------------------------------------------
// shapes

#[derive(Clone, Debug)]
pub struct Shape {
    pub expr: BinExpr,
    /// 0 = literal, 1 = one constructor step, 2 = two steps, 3 = any of these after materialize
    pub level: u8,
}

const PAD_L: [u8; 3] = [0xee, 0xdd, 0xcc];
const PAD_R: [u8; 3] = [0xbb, 0xa5, 0x96];

fn lit(b: &[u8]) -> BinExpr {
    BinExpr::lit(b)
}
fn cat(a: BinExpr, b: BinExpr) -> BinExpr {
    BinExpr::Concat(Box::new(a), Box::new(b))
}
fn sl(p: BinExpr, s: usize, e: usize) -> BinExpr {
    BinExpr::Slice(Box::new(p), s, e)
}
fn rp(u: BinExpr, c: usize) -> BinExpr {
    BinExpr::Repeat(Box::new(u), c)
}

fn padded(c: &[u8], l: usize, r: usize) -> Vec<u8> {
    let mut v = PAD_L[..l].to_vec();
    v.extend_from_slice(c);
    v.extend_from_slice(&PAD_R[..r]);
    v
}

/// proper periods d (d < n, d | n, c = (c[..d])^(n/d))
fn periods(c: &[u8]) -> Vec<usize> {
    let n = c.len();
    (1..n)
        .filter(|d| n % d == 0 && (0..n).all(|i| c[i] == c[i % d]))
        .collect()
}

fn dedup_usize(v: Vec<usize>) -> Vec<usize> {
    let mut out = vec![];
    for x in v {
        if !out.contains(&x) {
            out.push(x);
        }
    }
    out
}

/// Every one-step shape of `c`.
fn one_step(c: &[u8]) -> Vec<BinExpr> {
    let n = c.len();
    let mut out = vec![];
    let mut ks = vec![0, 1, n / 2, n];
    if n >= 1 {
        ks.push(n - 1);
    }
    for k in dedup_usize(ks) {
        if k <= n {
            out.push(cat(lit(&c[..k]), lit(&c[k..])));
        }
    }
    for (l, r) in [(1, 1), (2, 0), (0, 3)] {
        out.push(sl(lit(&padded(c, l, r)), l, l + n));
    }
    for d in periods(c) {
        out.push(rp(lit(&c[..d]), n / d));
    }
    out.push(rp(lit(c), 1));
    if n == 0 {
        out.push(rp(lit(&[0x07]), 0));
        out.push(rp(lit(&[]), 3));
    }
    if c.iter().all(|&b| b == 0) {
        out.push(BinExpr::New(n));
    }
    out
}

/// One representative one-step shape per constructor (used for the parts of two-step shapes).
fn one_step_small(c: &[u8]) -> Vec<BinExpr> {
    let n = c.len();
    let mut out = vec![];
    out.push(cat(lit(&c[..n / 2]), lit(&c[n / 2..])));
    out.push(sl(lit(&padded(c, 1, 1)), 1, 1 + n));
    if let Some(&d) = periods(c).first() {
        out.push(rp(lit(&c[..d]), n / d));
    }
    if n > 0 && c.iter().all(|&b| b == 0) {
        out.push(BinExpr::New(n));
    }
    out
}

/// Every two-step shape of `c`.
fn two_step(c: &[u8]) -> Vec<BinExpr> {
    let n = c.len();
    let mut out = vec![];
    // concat with one part itself a one-step shape
    let mut ks = vec![1, n / 2];
    if n >= 1 {
        ks.push(n - 1);
    }
    for k in dedup_usize(ks) {
        if k == 0 || k >= n {
            continue;
        }
        for x in one_step_small(&c[..k]) {
            out.push(cat(x, lit(&c[k..])));
        }
        for y in one_step_small(&c[k..]) {
            out.push(cat(lit(&c[..k]), y));
        }
    }
    // concat of a sliced whole with an empty side
    out.push(cat(sl(lit(&padded(c, 1, 1)), 1, 1 + n), lit(&[])));
    out.push(cat(lit(&[]), sl(lit(&padded(c, 1, 1)), 1, 1 + n)));
    // slice of a one-step parent
    let p = padded(c, 1, 1);
    for j in dedup_usize(vec![1, 1 + n / 2, 1 + n]) {
        out.push(sl(cat(lit(&p[..j]), lit(&p[j..])), 1, 1 + n));
    }
    {
        let mut pp = vec![0x77];
        pp.extend_from_slice(&p);
        pp.push(0x66);
        out.push(sl(sl(lit(&pp), 1, n + 3), 1, 1 + n));
    }
    if n > 0 {
        out.push(sl(rp(lit(c), 3), n, 2 * n));
    }
    if n > 1 {
        // c is a window of the repeat of its rotation by one
        let mut unit = c[1..].to_vec();
        unit.push(c[0]);
        out.push(sl(rp(lit(&unit), 3), n - 1, 2 * n - 1));
    }
    if c.iter().all(|&b| b == 0) {
        out.push(sl(BinExpr::New(n + 2), 1, n + 1));
    }
    // repeat of a one-step unit
    for d in periods(c) {
        for u in one_step_small(&c[..d]) {
            out.push(rp(u, n / d));
        }
    }
    if n > 0 {
        // repeat once of a one-step shape (count == 1 returns the unit itself)
        out.push(rp(cat(lit(&c[..n / 2]), lit(&c[n / 2..])), 1));
    }
    out
}

/// All shapes of content `c`, simplest first, without duplicates.
pub fn shapes_for(c: &[u8]) -> Vec<Shape> {
    let mut out: Vec<Shape> = vec![Shape { expr: lit(c), level: 0 }];
    let mut seen: std::collections::HashSet<String> = std::collections::HashSet::new();
    seen.insert(out[0].expr.text());
    let mut push = |out: &mut Vec<Shape>, e: BinExpr, level: u8| {
        debug_assert_eq!(e.content(), c);
        if seen.insert(e.text()) {
            out.push(Shape { expr: e, level });
        }
    };
    for e in one_step(c) {
        push(&mut out, e, 1);
    }
    for e in two_step(c) {
        push(&mut out, e, 2);
    }
    let unmat: Vec<BinExpr> = out.iter().skip(1).map(|s| s.expr.clone()).collect();
    for e in unmat {
        push(&mut out, BinExpr::Mat(Box::new(e)), 3);
    }
    out
}
