//! Plain reference models of the pure builtins over `BigInt` and flat byte vectors.
//!
//! Every model follows the documented contract only (doc comments in
//! `quiver-core/src/builtins/{integer,binary,vector}.rs`, the module docs there, `std/int.qv`,
//! `std/bin.qv`, `MAX_BINARY_SIZE`).  Domain errors are modelled only as "is an error".
//! Where the documentation does not determine the answer the model abstains:
//! * `Expect::Any`       – totality only (sin/cos: float based),
//! * `Expect::ErrOrVal`  – an index / count / amount that does not fit a machine word although the
//!   unbounded model has an answer (the implementation may narrow and report "does not fit", or
//!   answer like the model; both are accepted, anything else is not).

use num_bigint::{BigInt, BigUint, Sign};
use num_integer::Integer;
use num_traits::{One, Signed, ToPrimitive, Zero};

pub const MAX_BIN: usize = 16 * 1024 * 1024;

#[derive(Clone, Debug, PartialEq, Eq)]
pub enum RVal {
    Int(BigInt),
    Bin(Vec<u8>),
    Nil,
}

#[derive(Clone, Debug, PartialEq, Eq)]
pub enum Expect {
    Val(RVal),
    Err,
    ErrOrVal(RVal),
    Any,
}

#[derive(Clone, Copy, Debug)]
pub enum MArg<'a> {
    Int(&'a BigInt),
    Bin(&'a [u8]),
}

impl<'a> MArg<'a> {
    fn int(&self) -> &'a BigInt {
        match self {
            MArg::Int(i) => i,
            _ => panic!("model: expected int argument"),
        }
    }
    fn bin(&self) -> &'a [u8] {
        match self {
            MArg::Bin(b) => b,
            _ => panic!("model: expected binary argument"),
        }
    }
}

fn pow2(k: u32) -> BigInt {
    BigInt::one() << (k as usize)
}

pub fn fits_i64(n: &BigInt) -> bool {
    *n >= -pow2(63) && *n < pow2(63)
}

pub fn fits_u64(n: &BigInt) -> bool {
    !n.is_negative() && *n < pow2(64)
}

fn int(v: BigInt) -> Expect {
    Expect::Val(RVal::Int(v))
}
fn bin(v: Vec<u8>) -> Expect {
    Expect::Val(RVal::Bin(v))
}
fn nil() -> Expect {
    Expect::Val(RVal::Nil)
}

/// Floor square root by bisection (independent of num-bigint's `sqrt`).
fn isqrt(n: &BigInt) -> BigInt {
    let mut lo = BigInt::zero();
    let mut hi = BigInt::one() << ((n.bits() as usize) / 2 + 1);
    // invariant: lo^2 <= n < hi^2
    while &hi - &lo > BigInt::one() {
        let mid: BigInt = (&lo + &hi) >> 1;
        if &mid * &mid <= *n {
            lo = mid;
        } else {
            hi = mid;
        }
    }
    lo
}

/// Quotient truncated toward zero ("Integer quotient, truncating toward zero", std/int.qv).
fn trunc_div(a: &BigInt, b: &BigInt) -> BigInt {
    let q = BigInt::from(a.magnitude() / b.magnitude());
    if (a.sign() == Sign::Minus) != (b.sign() == Sign::Minus) {
        -q
    } else {
        q
    }
}

fn gcd(a: &BigInt, b: &BigInt) -> BigInt {
    let mut x: BigUint = a.magnitude().clone();
    let mut y: BigUint = b.magnitude().clone();
    while !y.is_zero() {
        let r = &x % &y;
        x = y;
        y = r;
    }
    BigInt::from(x)
}

/// The low 64 bits of `n` read as a signed two's-complement number.
fn wrap_i64(n: &BigInt) -> BigInt {
    let m = pow2(64);
    let r = n.mod_floor(&m);
    if r >= pow2(63) { r - m } else { r }
}

fn popcount_u(n: &BigUint) -> u64 {
    n.to_bytes_le().iter().map(|b| b.count_ones() as u64).sum()
}

fn fnv32(b: &[u8]) -> u32 {
    let mut h: u32 = 2166136261;
    for &x in b {
        h ^= x as u32;
        h = h.wrapping_mul(16777619);
    }
    h
}

fn fnv64(b: &[u8]) -> u64 {
    let mut h: u64 = 14695981039346656037;
    for &x in b {
        h ^= x as u64;
        h = h.wrapping_mul(1099511628211);
    }
    h
}

/// Bit `i` (0 = most significant bit of byte 0) of a flat byte array.
fn bit(b: &[u8], i: usize) -> bool {
    (b[i / 8] >> (7 - (i % 8))) & 1 == 1
}
fn set_bit(b: &mut [u8], i: usize, v: bool) {
    let m = 1u8 << (7 - (i % 8));
    if v {
        b[i / 8] |= m;
    } else {
        b[i / 8] &= !m;
    }
}

/// Common domain check of binary_get / binary_set; returns (first bit, bit count).
fn bit_window(len: usize, byte_off: &BigInt, bit_off: &BigInt, nbits: &BigInt) -> Option<(usize, usize)> {
    if byte_off.is_negative() {
        return None;
    }
    if bit_off.is_negative() || *bit_off > BigInt::from(7) {
        return None;
    }
    if *nbits < BigInt::one() || *nbits > BigInt::from(64) {
        return None;
    }
    let start: BigInt = byte_off * 8 + bit_off;
    let end: BigInt = &start + nbits;
    if end > BigInt::from(len) * 8 {
        return None;
    }
    Some((start.to_usize().unwrap(), nbits.to_usize().unwrap()))
}

fn width_of(w: &BigInt) -> Option<usize> {
    if *w == BigInt::from(4) {
        Some(4)
    } else if *w == BigInt::from(8) {
        Some(8)
    } else {
        None
    }
}

/// Lane `i` of a little-endian two's-complement buffer.
fn lane(b: &[u8], w: usize, i: usize) -> BigInt {
    BigInt::from_signed_bytes_le(&b[i * w..(i + 1) * w])
}

fn lane_fits(v: &BigInt, w: usize) -> bool {
    let k = (w * 8 - 1) as u32;
    *v >= -pow2(k) && *v < pow2(k)
}

fn lane_bytes(v: &BigInt, w: usize) -> Vec<u8> {
    // two's complement, little endian, exactly w bytes
    let m = pow2((w * 8) as u32);
    let r = v.mod_floor(&m);
    let mut bytes = r.magnitude().to_bytes_le();
    bytes.resize(w, 0);
    bytes
}

pub fn model(name: &str, a: &[MArg]) -> Expect {
    match name {
        // ------------------------------------------------------------------ integer arithmetic
        "integer_abs" => int(a[0].int().abs()),
        "integer_sqrt" => {
            let n = a[0].int();
            if n.is_negative() { Expect::Err } else { int(isqrt(n)) }
        }
        "integer_sin" | "integer_cos" => Expect::Any,
        "integer_add" => int(a[0].int() + a[1].int()),
        "integer_subtract" => int(a[0].int() - a[1].int()),
        "integer_multiply" => int(a[0].int() * a[1].int()),
        "integer_divide" => {
            let (x, y) = (a[0].int(), a[1].int());
            if y.is_zero() { Expect::Err } else { int(trunc_div(x, y)) }
        }
        "integer_modulo" => {
            // No convention is documented for the sign of the result; the law
            // a = (a / b) * b + a mod b together with the documented truncating quotient fixes it.
            let (x, y) = (a[0].int(), a[1].int());
            if y.is_zero() {
                Expect::Err
            } else {
                int(x - trunc_div(x, y) * y)
            }
        }
        "integer_gcd" => int(gcd(a[0].int(), a[1].int())),
        "integer_compare" => {
            let (x, y) = (a[0].int(), a[1].int());
            int(BigInt::from(if x < y { -1 } else if x > y { 1 } else { 0 }))
        }
        // ------------------------------------------------------------------ integer bitwise (64-bit)
        "integer_and" | "integer_or" | "integer_xor" => {
            let (x, y) = (a[0].int(), a[1].int());
            if !fits_i64(x) || !fits_i64(y) {
                return Expect::Err;
            }
            // two's complement over 64 bits: work on the unsigned residues modulo 2^64
            let m = pow2(64);
            let ux = x.mod_floor(&m).to_u64().unwrap();
            let uy = y.mod_floor(&m).to_u64().unwrap();
            let r = match name {
                "integer_and" => ux & uy,
                "integer_or" => ux | uy,
                _ => ux ^ uy,
            };
            int(wrap_i64(&BigInt::from(r)))
        }
        "integer_not" => {
            let x = a[0].int();
            if !fits_i64(x) {
                Expect::Err
            } else {
                let y: BigInt = -x - 1;
                int(y)
            }
        }
        "integer_shift" => {
            let (v, s) = (a[0].int(), a[1].int());
            if !fits_i64(v) || !fits_i64(s) {
                return Expect::Err;
            }
            let k = s.magnitude().to_u64().unwrap();
            if s.is_positive() {
                if k >= 64 { int(BigInt::zero()) } else { int(wrap_i64(&(v * pow2(k as u32)))) }
            } else if s.is_negative() {
                if k >= 64 {
                    int(if v.is_negative() { BigInt::from(-1) } else { BigInt::zero() })
                } else {
                    int(v.div_floor(&pow2(k as u32)))
                }
            } else {
                int(v.clone())
            }
        }
        "integer_popcount" => {
            let x = a[0].int();
            if !fits_i64(x) {
                return Expect::Err;
            }
            let c = if x.is_negative() {
                let y: BigInt = -x - 1;
                64 - popcount_u(y.magnitude())
            } else {
                popcount_u(x.magnitude())
            };
            int(BigInt::from(c))
        }
        // ------------------------------------------------------------------ binary
        "binary_new" => {
            let n = a[0].int();
            if n.is_negative() || *n > BigInt::from(MAX_BIN) {
                Expect::Err
            } else {
                bin(vec![0u8; n.to_usize().unwrap()])
            }
        }
        "binary_length" => int(BigInt::from(a[0].bin().len())),
        "binary_concat" => {
            let (x, y) = (a[0].bin(), a[1].bin());
            if x.len() + y.len() > MAX_BIN {
                Expect::Err
            } else {
                let mut v = x.to_vec();
                v.extend_from_slice(y);
                bin(v)
            }
        }
        "binary_repeat" => {
            let (x, c) = (a[0].bin(), a[1].int());
            if c.is_negative() {
                return Expect::Err;
            }
            if x.is_empty() {
                // any number of copies of nothing is nothing; a count beyond a machine word may be
                // refused by narrowing (undocumented) - abstain there.
                return if fits_u64(c) { bin(vec![]) } else { Expect::ErrOrVal(RVal::Bin(vec![])) };
            }
            let total = BigInt::from(x.len()) * c;
            if total > BigInt::from(MAX_BIN) {
                return Expect::Err;
            }
            let c = c.to_usize().unwrap();
            let mut v = Vec::with_capacity(x.len() * c);
            for _ in 0..c {
                v.extend_from_slice(x);
            }
            bin(v)
        }
        "binary_and" => {
            // "For bitwise operations, take the shorter length"
            let (x, y) = (a[0].bin(), a[1].bin());
            bin(x.iter().zip(y.iter()).map(|(p, q)| p & q).collect())
        }
        "binary_or" | "binary_xor" => {
            // "take the longer length, padding with zeros"
            let (x, y) = (a[0].bin(), a[1].bin());
            let n = x.len().max(y.len());
            let mut v = Vec::with_capacity(n);
            for i in 0..n {
                let p = x.get(i).copied().unwrap_or(0);
                let q = y.get(i).copied().unwrap_or(0);
                v.push(if name == "binary_or" { p | q } else { p ^ q });
            }
            bin(v)
        }
        "binary_not" => bin(a[0].bin().iter().map(|b| !b).collect()),
        "binary_shift" => {
            // logical shift of the whole bit string, positive = left
            let (x, s) = (a[0].bin(), a[1].int());
            let nbits = x.len() * 8;
            let result: Vec<u8> = if s.is_zero() {
                x.to_vec()
            } else if *s.magnitude() >= BigUint::from(nbits) {
                vec![0u8; x.len()]
            } else {
                // the bit string read as one big-endian unsigned number of `nbits` bits
                let k = s.magnitude().to_usize().unwrap();
                let n = BigUint::from_bytes_be(x);
                let shifted = if s.is_positive() { n << k } else { n >> k };
                let be = shifted.to_bytes_be();
                // keep the low `len` bytes (drop what was shifted out at the top), left-pad with 0
                let mut out = vec![0u8; x.len()];
                let take = be.len().min(x.len());
                out[x.len() - take..].copy_from_slice(&be[be.len() - take..]);
                out
            };
            if fits_i64(s) { bin(result) } else { Expect::ErrOrVal(RVal::Bin(result)) }
        }
        "binary_popcount" => int(BigInt::from(
            a[0].bin().iter().map(|b| b.count_ones() as u64).sum::<u64>(),
        )),
        "binary_get" => {
            let x = a[0].bin();
            match bit_window(x.len(), a[1].int(), a[2].int(), a[3].int()) {
                None => Expect::Err,
                Some((start, n)) => {
                    let mut v = BigInt::zero();
                    for i in 0..n {
                        v = v * 2 + if bit(x, start + i) { 1 } else { 0 };
                    }
                    int(v)
                }
            }
        }
        "binary_set" => {
            let x = a[0].bin();
            let value = a[3].int();
            match bit_window(x.len(), a[1].int(), a[2].int(), a[4].int()) {
                None => Expect::Err,
                Some((start, n)) => {
                    if value.is_negative() || *value >= pow2(n as u32) {
                        return Expect::Err;
                    }
                    let mut out = x.to_vec();
                    for i in 0..n {
                        // bit i of the field (from its most significant end)
                        let b = ((value >> (n - 1 - i)) & BigInt::one()).is_one();
                        set_bit(&mut out, start + i, b);
                    }
                    bin(out)
                }
            }
        }
        "binary_slice" => {
            let (x, s, e) = (a[0].bin(), a[1].int(), a[2].int());
            let len = BigInt::from(x.len());
            if s.is_negative() || e.is_negative() || *s > len || *e > len || s > e {
                Expect::Err
            } else {
                bin(x[s.to_usize().unwrap()..e.to_usize().unwrap()].to_vec())
            }
        }
        "binary_index" => {
            let (x, byte, off) = (a[0].bin(), a[1].int(), a[2].int());
            if byte.is_negative() || *byte > BigInt::from(255) {
                return Expect::Err;
            }
            if off.is_negative() {
                return Expect::Err;
            }
            if *off >= BigInt::from(x.len()) {
                return if fits_u64(off) { nil() } else { Expect::ErrOrVal(RVal::Nil) };
            }
            let byte = byte.to_u8().unwrap();
            let off = off.to_usize().unwrap();
            match x[off..].iter().position(|&b| b == byte) {
                Some(p) => int(BigInt::from(p + off)),
                None => nil(),
            }
        }
        "binary_hash32" => int(BigInt::from(fnv32(a[0].bin()))),
        // "we cast it anyway, preserving the historical wrapping behaviour of the 64-bit hash"
        "binary_hash64" => int(wrap_i64(&BigInt::from(fnv64(a[0].bin())))),
        "binary_append" => {
            let (x, value, nb) = (a[0].bin(), a[1].int(), a[2].int());
            if *nb < BigInt::one() || *nb > BigInt::from(8) {
                return Expect::Err;
            }
            let nb = nb.to_usize().unwrap();
            if value.is_negative() || *value >= pow2((nb * 8) as u32) {
                return Expect::Err;
            }
            if x.len() + nb > MAX_BIN {
                return Expect::Err;
            }
            let mut out = x.to_vec();
            let mut be = value.magnitude().to_bytes_be();
            while be.len() < nb {
                be.insert(0, 0);
            }
            out.extend_from_slice(&be[be.len() - nb..]);
            bin(out)
        }
        // ------------------------------------------------------------------ packed vectors
        "vector_add" | "vector_subtract" | "vector_multiply" => {
            let (x, y) = (a[0].bin(), a[1].bin());
            let Some(w) = width_of(a[2].int()) else { return Expect::Err };
            if x.len() != y.len() || x.len() % w != 0 {
                return nil();
            }
            let mut out = Vec::with_capacity(x.len());
            for i in 0..x.len() / w {
                let (p, q) = (lane(x, w, i), lane(y, w, i));
                let r = match name {
                    "vector_add" => p + q,
                    "vector_subtract" => p - q,
                    _ => p * q,
                };
                if !lane_fits(&r, w) {
                    return nil();
                }
                out.extend_from_slice(&lane_bytes(&r, w));
            }
            bin(out)
        }
        "vector_less_than" | "vector_equal" | "vector_greater_than" => {
            let (x, y) = (a[0].bin(), a[1].bin());
            let Some(w) = width_of(a[2].int()) else { return Expect::Err };
            if x.len() != y.len() || x.len() % w != 0 {
                return nil();
            }
            let mut out = Vec::new();
            for i in 0..x.len() / w {
                let (p, q) = (lane(x, w, i), lane(y, w, i));
                let t = match name {
                    "vector_less_than" => p < q,
                    "vector_equal" => p == q,
                    _ => p > q,
                };
                out.push(t as u8);
            }
            bin(out)
        }
        "vector_dot" => {
            let (x, y) = (a[0].bin(), a[1].bin());
            let Some(w) = width_of(a[2].int()) else { return Expect::Err };
            if x.len() != y.len() || x.len() % w != 0 {
                return nil();
            }
            let mut acc = BigInt::zero();
            for i in 0..x.len() / w {
                acc += lane(x, w, i) * lane(y, w, i);
            }
            int(acc)
        }
        "vector_take" => {
            let (x, m) = (a[0].bin(), a[2].bin());
            let Some(w) = width_of(a[1].int()) else { return Expect::Err };
            if x.len() % w != 0 || m.len() != x.len() / w {
                return nil();
            }
            let mut out = Vec::new();
            for (i, &sel) in m.iter().enumerate() {
                if sel != 0 {
                    out.extend_from_slice(&x[i * w..(i + 1) * w]);
                }
            }
            bin(out)
        }
        "vector_get" => {
            let (x, idx) = (a[0].bin(), a[2].int());
            let Some(w) = width_of(a[1].int()) else { return Expect::Err };
            if x.len() % w != 0 || idx.is_negative() || *idx >= BigInt::from(x.len() / w) {
                return nil();
            }
            int(lane(x, w, idx.to_usize().unwrap()))
        }
        "vector_push" => {
            let (x, v) = (a[0].bin(), a[2].int());
            let Some(w) = width_of(a[1].int()) else { return Expect::Err };
            if !lane_fits(v, w) || x.len() % w != 0 {
                return nil();
            }
            if x.len() + w > MAX_BIN {
                return Expect::Err;
            }
            let mut out = x.to_vec();
            out.extend_from_slice(&lane_bytes(v, w));
            bin(out)
        }
        "vector_sum" => {
            let x = a[0].bin();
            let Some(w) = width_of(a[1].int()) else { return Expect::Err };
            if x.len() % w != 0 {
                return nil();
            }
            let mut acc = BigInt::zero();
            for i in 0..x.len() / w {
                acc += lane(x, w, i);
            }
            int(acc)
        }
        other => panic!("model: no reference model for builtin {}", other),
    }
}

/// Names the model covers (checked against the registry at start-up).
pub const MODELLED: &[&str] = &[
    "integer_abs", "integer_sqrt", "integer_sin", "integer_cos", "integer_add", "integer_subtract",
    "integer_multiply", "integer_divide", "integer_modulo", "integer_gcd", "integer_compare",
    "integer_and", "integer_or", "integer_xor", "integer_not", "integer_shift", "integer_popcount",
    "binary_new", "binary_length", "binary_concat", "binary_repeat", "binary_and", "binary_or",
    "binary_xor", "binary_not", "binary_shift", "binary_popcount", "binary_get", "binary_set",
    "binary_slice", "binary_index", "binary_hash32", "binary_hash64", "binary_append",
    "vector_add", "vector_subtract", "vector_multiply", "vector_less_than", "vector_equal",
    "vector_greater_than", "vector_dot", "vector_take", "vector_get", "vector_push", "vector_sum",
];
