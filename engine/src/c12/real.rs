//! Calling the real implementation: direct `BuiltinFn` calls on a real `Executor`, argument
//! binaries built through the real builtins, and the compiled `[args] __name__` path.

use super::model::RVal;
use super::shapes::BinExpr;
use crate::qcompile::{self, E};
use num_bigint::BigInt;
use quiver_core::builtins::{BuiltinFn, BuiltinRegistry, BuiltinResult};
use quiver_core::value::{Binary, Value};
use quiver_core::{BinaryData, Executor};
use std::collections::HashMap;
use std::panic::{AssertUnwindSafe, catch_unwind};

/// One argument of a case at shape level.
#[derive(Clone, Debug, PartialEq, Eq)]
pub enum SArg {
    Int(BigInt),
    Bin(BinExpr),
}

/// A borrowed argument (no cloning in the hot loop).
#[derive(Clone, Copy, Debug)]
pub enum ArgRef<'a> {
    Int(&'a BigInt),
    /// shape and, when it comes from the universe tables, its template key (content, shape)
    Bin(&'a BinExpr, Option<(usize, usize)>),
}

/// What the real code did.
#[derive(Clone, Debug, PartialEq, Eq)]
pub enum Obs {
    Val(RVal),
    /// clean runtime error (variant + message)
    Err(String),
    /// (normalised location, message)
    Panic(String, String),
    /// anything else: an Action, a value of an undeclared kind, an inconsistent result rope,
    /// a failure to build an argument
    Other(String),
}

impl Obs {
    pub fn text(&self) -> String {
        match self {
            Obs::Val(v) => rval_text(v),
            Obs::Err(e) => format!("Err({})", e),
            Obs::Panic(loc, msg) => format!("PANIC at {}: {}", loc, msg),
            Obs::Other(s) => format!("<{}>", s),
        }
    }
}

pub fn rval_text(v: &RVal) -> String {
    match v {
        RVal::Int(i) => i.to_string(),
        RVal::Nil => "[]".to_string(),
        RVal::Bin(b) => {
            if b.len() <= 40 {
                super::shapes::hex(b)
            } else {
                let mut h: u64 = 0xcbf29ce484222325;
                for x in b {
                    h ^= *x as u64;
                    h = h.wrapping_mul(0x100000001b3);
                }
                format!(
                    "<{} bytes, first {} .. last {}, fnv {:016x}>",
                    b.len(),
                    super::shapes::hex(&b[..8]),
                    super::shapes::hex(&b[b.len() - 8..]),
                    h
                )
            }
        }
    }
}

/// Split the recorded panic text ("panicked at FILE:L:C:\nMSG") into (location, message); the
/// location is cut down to the path inside the repository so that scratch copies compare equal.
pub fn split_panic(raw: &str) -> (String, String) {
    let body = raw.strip_prefix("panicked at ").unwrap_or(raw);
    let (loc, msg) = match body.find('\n') {
        Some(i) => (&body[..i], body[i + 1..].trim()),
        None => (body, ""),
    };
    let loc = loc.trim_end_matches(':');
    let loc = match loc.find("quiver-") {
        Some(i) => &loc[i..],
        None => loc,
    };
    (loc.to_string(), msg.lines().next().unwrap_or("").to_string())
}

fn take_panic() -> (String, String) {
    split_panic(&crate::sim::system::take_panic())
}

pub struct Ctx {
    pub reg: BuiltinRegistry<E>,
    pub ex: Executor<E>,
    impls: HashMap<String, BuiltinFn<E>>,
    /// template slots of already built shapes (valid for the current executor only)
    templates: HashMap<(usize, usize), Binary>,
    pub heap_limit: usize,
    ops_since_reset: usize,
    pub executors_created: u64,
    pub builds: u64,
}

impl Ctx {
    pub fn new() -> Ctx {
        let reg = qcompile::core_builtins();
        let mut impls = HashMap::new();
        for n in reg.get_function_names() {
            if let Some(f) = reg.get_implementation(&n) {
                impls.insert(n, f);
            }
        }
        let ex = Executor::new(reg.clone(), false, 0);
        Ctx { reg, ex, impls, templates: HashMap::new(), heap_limit: 20_000, ops_since_reset: 0, executors_created: 1, builds: 0 }
    }

    pub fn reset(&mut self) {
        self.ex = Executor::new(self.reg.clone(), false, 0);
        self.templates.clear();
        self.ops_since_reset = 0;
        self.executors_created += 1;
    }

    /// The heap of an executor without running processes only grows; start over now and then.
    fn maybe_recycle(&mut self) {
        self.ops_since_reset += 1;
        if self.ops_since_reset > self.heap_limit {
            self.reset();
        }
    }

    pub fn implementation(&self, name: &str) -> Option<BuiltinFn<E>> {
        self.impls.get(name).copied()
    }

    /// Raw call of a builtin with panic capture. On a panic the executor is replaced.
    fn raw(&mut self, f: BuiltinFn<E>, arg: &Value) -> Result<Value, Obs> {
        let ex = &mut self.ex;
        let r = catch_unwind(AssertUnwindSafe(|| f(0, arg, ex)));
        match r {
            Err(_) => {
                let (loc, msg) = take_panic();
                self.reset();
                Err(Obs::Panic(loc, msg))
            }
            Ok(Err(e)) => Err(Obs::Err(format!("{:?}", e))),
            Ok(Ok(BuiltinResult::Value(v))) => Ok(v),
            Ok(Ok(BuiltinResult::Action(_))) => Err(Obs::Other("builtin returned an Action".into())),
        }
    }

    fn named(&mut self, name: &str, arg: &Value) -> Result<Value, Obs> {
        let f = self
            .implementation(name)
            .ok_or_else(|| Obs::Other(format!("builtin {} not registered", name)))?;
        self.raw(f, arg)
    }

    /// Build `e` on the current executor through the real constructors.
    pub fn build(&mut self, e: &BinExpr) -> Result<Binary, Obs> {
        self.builds += 1;
        let as_bin = |v: Value| match v {
            Value::Binary(b) => Ok(b),
            other => Err(Obs::Other(format!("constructor returned {}", other.type_name()))),
        };
        match e {
            BinExpr::Lit(bytes) => {
                let ex = &mut self.ex;
                let bytes = bytes.clone();
                match catch_unwind(AssertUnwindSafe(|| ex.allocate_binary(bytes))) {
                    Ok(Ok(b)) => Ok(b),
                    Ok(Err(e)) => Err(Obs::Err(format!("{:?}", e))),
                    Err(_) => {
                        let (loc, msg) = take_panic();
                        self.reset();
                        Err(Obs::Panic(loc, msg))
                    }
                }
            }
            BinExpr::New(n) => {
                let v = self.named("binary_new", &Value::Integer(BigInt::from(*n)))?;
                as_bin(v)
            }
            BinExpr::Concat(a, b) => {
                let a = self.build(a)?;
                let b = self.build(b)?;
                let v = self.named("binary_concat", &Value::tuple(2, vec![Value::Binary(a), Value::Binary(b)]))?;
                as_bin(v)
            }
            BinExpr::Slice(p, s, en) => {
                let p = self.build(p)?;
                let v = self.named(
                    "binary_slice",
                    &Value::tuple(
                        2,
                        vec![Value::Binary(p), Value::Integer(BigInt::from(*s)), Value::Integer(BigInt::from(*en))],
                    ),
                )?;
                as_bin(v)
            }
            BinExpr::Repeat(u, c) => {
                let u = self.build(u)?;
                let v = self.named(
                    "binary_repeat",
                    &Value::tuple(2, vec![Value::Binary(u), Value::Integer(BigInt::from(*c))]),
                )?;
                as_bin(v)
            }
            BinExpr::Mat(x) => {
                let b = self.build(x)?;
                let ex = &mut self.ex;
                match catch_unwind(AssertUnwindSafe(|| ex.materialize(&b).map(|_| ()))) {
                    Ok(Ok(())) => Ok(b),
                    Ok(Err(e)) => Err(Obs::Err(format!("{:?}", e))),
                    Err(_) => {
                        let (loc, msg) = take_panic();
                        self.reset();
                        Err(Obs::Panic(loc, msg))
                    }
                }
            }
        }
    }

    /// A fresh slot holding the same rope as the template of shape `key` (built on first use).
    /// A fresh copy per call is needed because the vector kernels flatten their arguments in place.
    pub fn instance(&mut self, key: (usize, usize), e: &BinExpr) -> Result<Binary, Obs> {
        let t = match self.templates.get(&key) {
            Some(t) => *t,
            None => {
                let t = self.build(e)?;
                self.templates.insert(key, t);
                t
            }
        };
        let data: BinaryData = match self.ex.get_binary_data(&t) {
            Ok(d) => d.clone(),
            Err(e) => return Err(Obs::Other(format!("template lost: {:?}", e))),
        };
        self.ex
            .allocate_binary_data(data)
            .map_err(|e| Obs::Other(format!("cannot copy template: {:?}", e)))
    }

    /// Read a heap binary in every available way and insist that they agree.
    pub fn read_binary(&mut self, b: &Binary) -> Result<Vec<u8>, Obs> {
        let ex = &self.ex;
        let r = catch_unwind(AssertUnwindSafe(|| -> Result<Vec<u8>, String> {
            let d = ex.get_binary_data(b).map_err(|e| format!("result handle invalid: {:?}", e))?;
            let len = d.len();
            let flat = d.to_vec();
            if flat.len() != len {
                return Err(format!("inconsistent rope: len() = {} but to_vec() has {} bytes", len, flat.len()));
            }
            if len <= 4096 {
                let it: Vec<u8> = d.iter().collect();
                if it != flat {
                    return Err(format!(
                        "inconsistent rope: iter()/byte_at gives {} but to_vec() gives {}",
                        super::shapes::hex(&it),
                        super::shapes::hex(&flat)
                    ));
                }
                if d.byte_at(len).is_some() {
                    return Err("inconsistent rope: byte_at(len) is Some".to_string());
                }
            } else {
                for i in [0, len / 2, len - 1] {
                    if d.byte_at(i) != Some(flat[i]) {
                        return Err(format!("inconsistent rope: byte_at({}) disagrees with to_vec()", i));
                    }
                }
            }
            Ok(flat)
        }));
        match r {
            Ok(Ok(v)) => Ok(v),
            Ok(Err(s)) => Err(Obs::Other(s)),
            Err(_) => {
                let (loc, msg) = take_panic();
                self.reset();
                Err(Obs::Panic(loc, msg))
            }
        }
    }

    fn observe(&mut self, v: &Value) -> Obs {
        match v {
            Value::Integer(i) => Obs::Val(RVal::Int(i.clone())),
            Value::Binary(b) => match self.read_binary(b) {
                Ok(bytes) => Obs::Val(RVal::Bin(bytes)),
                Err(o) => o,
            },
            v if v.is_nil() => Obs::Val(RVal::Nil),
            other => Obs::Other(format!("result of undeclared kind {}", other.type_name())),
        }
    }

    /// Build the argument value of a case. A binary argument with a template key is instantiated
    /// from its (cached) template; without one it is built from scratch (shrinker, replay).
    fn argument(&mut self, args: &[ArgRef]) -> Result<Value, Obs> {
        let mut fields = Vec::with_capacity(args.len());
        for a in args.iter() {
            fields.push(match a {
                ArgRef::Int(n) => Value::Integer((*n).clone()),
                ArgRef::Bin(e, key) => {
                    let b = match key {
                        Some(key) => self.instance(*key, e)?,
                        None => self.build(e)?,
                    };
                    Value::Binary(b)
                }
            });
        }
        Ok(if fields.len() == 1 { fields.pop().unwrap() } else { Value::tuple(2, fields) })
    }

    /// One direct call `get_implementation(name)(pid, &arg, &mut executor)`.
    pub fn call_direct(&mut self, name: &str, args: &[ArgRef]) -> Obs {
        self.maybe_recycle();
        let arg = match self.argument(args) {
            Ok(a) => a,
            Err(o) => return Obs::Other(format!("argument could not be built: {}", o.text())),
        };
        match self.named(name, &arg) {
            Ok(v) => self.observe(&v),
            Err(o) => o,
        }
    }

    pub fn call_direct_owned(&mut self, name: &str, args: &[SArg]) -> Obs {
        let refs: Vec<ArgRef> = args
            .iter()
            .map(|a| match a {
                SArg::Int(n) => ArgRef::Int(n),
                SArg::Bin(e) => ArgRef::Bin(e, None),
            })
            .collect();
        self.call_direct(name, &refs)
    }

    /// Build a shape through the real constructors and read it back.
    pub fn build_and_read(&mut self, e: &BinExpr) -> Obs {
        self.maybe_recycle();
        match self.build(e) {
            Ok(b) => match self.read_binary(&b) {
                Ok(bytes) => Obs::Val(RVal::Bin(bytes)),
                Err(o) => o,
            },
            Err(o) => o,
        }
    }
}

/// Source text of the compiled form of a case.
pub fn source_of(name: &str, args: &[SArg]) -> String {
    let parts: Vec<String> = args
        .iter()
        .map(|a| match a {
            SArg::Int(n) => n.to_string(),
            SArg::Bin(e) => e.source(),
        })
        .collect();
    if parts.len() == 1 {
        format!("{} __{}__", parts[0], name)
    } else {
        format!("[{}] __{}__", parts.join(", "), name)
    }
}

/// The same call through the real parser, compiler and interpreter.
pub fn call_compiled(reg: &BuiltinRegistry<E>, name: &str, args: &[SArg]) -> Obs {
    let src = source_of(name, args);
    let r = catch_unwind(AssertUnwindSafe(|| -> Obs {
        let unit = match qcompile::compile(&src, reg) {
            Ok(u) => u,
            Err(e) => return Obs::Other(format!("does not compile: {:?}", e)),
        };
        match quiver_core::execute_bytecode_sync(unit.bytecode(), reg, false) {
            Err(e) => Obs::Err(format!("{:?}", e)),
            Ok((v, ex)) => match &v {
                Value::Integer(i) => Obs::Val(RVal::Int(i.clone())),
                Value::Binary(b) => match b {
                    Binary::Heap(_) => match ex.get_binary_data(b) {
                        Ok(d) => Obs::Val(RVal::Bin(d.to_vec())),
                        Err(e) => Obs::Other(format!("result handle invalid: {:?}", e)),
                    },
                    Binary::Constant(i) => match ex.get_constant(*i) {
                        Some(quiver_core::bytecode::Constant::Binary(bytes)) => Obs::Val(RVal::Bin(bytes.clone())),
                        _ => Obs::Other("dangling constant".into()),
                    },
                },
                v if v.is_nil() => Obs::Val(RVal::Nil),
                other => Obs::Other(format!("result of undeclared kind {}", other.type_name())),
            },
        }
    }));
    match r {
        Ok(o) => o,
        Err(_) => {
            let (loc, msg) = take_panic();
            Obs::Panic(loc, msg)
        }
    }
}
