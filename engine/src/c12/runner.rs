//! The worker side: runs slices of the enumeration inside a child process, single threaded, with
//! an internal per-call watchdog, and streams delta summaries to the parent on stdout.

use super::big;
use super::cases::*;
use super::model::{Expect, RVal};
use super::real::{ArgRef, Ctx, Obs, SArg, call_compiled, rval_text};
use super::shapes::BinExpr;
use super::shrink::Shrinker;
use serde::{Deserialize, Serialize};
use serde_json::{Value as J, json};
use std::collections::{BTreeMap, HashMap};
use std::io::Write;
use std::sync::atomic::{AtomicBool, AtomicU64, Ordering};

pub const BATCH: u64 = 8192;

#[derive(Clone, Debug, Serialize, Deserialize, PartialEq, Eq)]
pub struct SliceId {
    /// builtin name, or "#build" (shape read-back) or "#big" (cases at the size limit)
    pub builtin: String,
    /// member of the alphabet of position 0 / content index / group index
    pub a0: usize,
}

#[derive(Clone, Debug, Serialize, Deserialize)]
pub struct ChildSpec {
    pub thorough: bool,
    pub slices: Vec<SliceId>,
    pub resume_slice: usize,
    pub resume_case: u64,
    /// batch size 1 (a marker before every case) up to this case index of the resume slice
    pub careful_until: u64,
    /// instead of slices: run exactly this one case (given as data), without shrinking
    pub data_case: Option<J>,
    /// every `stride`-th case also goes through the compiler (0 = never)
    pub stride: u64,
    pub watchdog_s: f64,
    /// unix time (ms) after which no new batch is started
    pub deadline_ms: u64,
}

#[derive(Clone, Debug, Default, Serialize, Deserialize)]
pub struct FailRec {
    pub count: u64,
    pub summary: String,
    pub replay: J,
}

#[derive(Clone, Debug, Default, Serialize, Deserialize)]
pub struct SliceSum {
    pub content_cases: u64,
    pub evaluations: u64,
    pub compiled: u64,
    pub nontrivial: u64,
    pub nontrivial_content: u64,
    pub expect_value: u64,
    pub expect_error: u64,
    pub abstain_totality_only: u64,
    pub abstain_narrowing: u64,
    pub observed_value: u64,
    pub observed_nil: u64,
    pub observed_error: u64,
    pub observed_panic: u64,
    pub observed_other: u64,
    pub failing_cases: u64,
    pub shrink_evaluations: u64,
    pub failures: BTreeMap<String, FailRec>,
    pub samples: Vec<J>,
    pub capped: bool,
    pub finished: bool,
}

impl SliceSum {
    pub fn add(&mut self, o: &SliceSum) {
        self.content_cases += o.content_cases;
        self.evaluations += o.evaluations;
        self.compiled += o.compiled;
        self.nontrivial += o.nontrivial;
        self.nontrivial_content += o.nontrivial_content;
        self.expect_value += o.expect_value;
        self.expect_error += o.expect_error;
        self.abstain_totality_only += o.abstain_totality_only;
        self.abstain_narrowing += o.abstain_narrowing;
        self.observed_value += o.observed_value;
        self.observed_nil += o.observed_nil;
        self.observed_error += o.observed_error;
        self.observed_panic += o.observed_panic;
        self.observed_other += o.observed_other;
        self.failing_cases += o.failing_cases;
        self.shrink_evaluations += o.shrink_evaluations;
        for (k, v) in &o.failures {
            let e = self.failures.entry(k.clone()).or_insert_with(|| FailRec {
                count: 0,
                summary: v.summary.clone(),
                replay: v.replay.clone(),
            });
            if e.summary.is_empty() && !v.summary.is_empty() {
                e.summary = v.summary.clone();
                e.replay = v.replay.clone();
            }
            e.count += v.count;
        }
        // keep the latest sample (deterministic: summaries arrive in enumeration order)
        if let Some(s) = o.samples.last() {
            self.samples.clear();
            self.samples.push(s.clone());
        }
        self.capped |= o.capped;
        self.finished |= o.finished;
    }
}

// ---------------------------------------------------------------------------------------------
// watchdog

static WD_SEQ: AtomicU64 = AtomicU64::new(0);
static WD_SLICE: AtomicU64 = AtomicU64::new(0);
static WD_CASE: AtomicU64 = AtomicU64::new(0);
static WD_ACTIVE: AtomicBool = AtomicBool::new(false);

fn wd_enter(slice: usize, case: u64) {
    WD_SLICE.store(slice as u64, Ordering::Relaxed);
    WD_CASE.store(case, Ordering::Relaxed);
    WD_SEQ.fetch_add(1, Ordering::Relaxed);
    WD_ACTIVE.store(true, Ordering::Release);
}
fn wd_tick() {
    WD_SEQ.fetch_add(1, Ordering::Relaxed);
}
fn wd_leave() {
    WD_ACTIVE.store(false, Ordering::Release);
}

/// CPU seconds consumed so far by the main thread (the one that runs the cases).  `/proc/self`
/// names the thread-group leader, i.e. the main thread, also when read from the watchdog thread.
fn main_thread_cpu_s() -> Option<f64> {
    if let Ok(s) = std::fs::read_to_string("/proc/self/schedstat") {
        if let Some(ns) = s.split_whitespace().next().and_then(|x| x.parse::<u64>().ok()) {
            return Some(ns as f64 / 1e9);
        }
    }
    // fallback: utime + stime of the whole process, in clock ticks (100 Hz)
    let s = std::fs::read_to_string("/proc/self/stat").ok()?;
    let rest = &s[s.rfind(')')? + 1..];
    let f: Vec<&str> = rest.split_whitespace().collect();
    let ut: u64 = f.get(11)?.parse().ok()?;
    let st: u64 = f.get(12)?.parse().ok()?;
    Some((ut + st) as f64 / 100.0)
}

/// A call "hangs" when the main thread has burnt `limit_s` seconds of CPU inside one call (CPU
/// time, not wall time: on a loaded machine a process can be kept off the CPU for seconds), or
/// has made no progress for 30 x limit_s of wall time (a blocked call).
fn start_watchdog(limit_s: f64) {
    std::thread::spawn(move || {
        let tick = std::time::Duration::from_millis(100);
        let mut last = u64::MAX;
        let mut stale_wall = 0.0f64;
        let mut cpu_at_change = main_thread_cpu_s();
        loop {
            std::thread::sleep(tick);
            let seq = WD_SEQ.load(Ordering::Relaxed);
            let cpu_now = main_thread_cpu_s();
            if WD_ACTIVE.load(Ordering::Acquire) && seq == last {
                stale_wall += 0.1;
                let stale_cpu = match (cpu_now, cpu_at_change) {
                    (Some(n), Some(c)) => n - c,
                    // no CPU clock available: fall back to wall time, generously
                    _ => stale_wall / 4.0,
                };
                if stale_cpu >= limit_s || stale_wall >= limit_s * 30.0 {
                    let out = std::io::stdout();
                    let mut l = out.lock();
                    let _ = writeln!(l, "H {} {}", WD_SLICE.load(Ordering::Relaxed), WD_CASE.load(Ordering::Relaxed));
                    let _ = l.flush();
                    std::process::exit(3);
                }
            } else {
                stale_wall = 0.0;
                last = seq;
                cpu_at_change = cpu_now;
            }
        }
    });
}

fn now_ms() -> u64 {
    std::time::SystemTime::now()
        .duration_since(std::time::UNIX_EPOCH)
        .map(|d| d.as_millis() as u64)
        .unwrap_or(0)
}

fn emit(line: &str) {
    let out = std::io::stdout();
    let mut l = out.lock();
    let _ = writeln!(l, "{}", line);
    let _ = l.flush();
}

// ---------------------------------------------------------------------------------------------
// evaluation of a case given as data (shrinker, replay, single)

pub fn eval_case(ctx: &mut Ctx, case: &Case) -> (Expect, Obs) {
    if case.name == "#build" {
        let SArg::Bin(e) = &case.args[0] else {
            return (Expect::Err, Obs::Other("bad #build case".into()));
        };
        let exp = Expect::Val(RVal::Bin(e.content()));
        return (exp, ctx.build_and_read(e));
    }
    let exp = expect_of_sargs(&case.name, &case.args);
    let obs = if case.compiled {
        call_compiled(&ctx.reg, &case.name, &case.args)
    } else {
        ctx.call_direct_owned(&case.name, &case.args)
    };
    (exp, obs)
}

pub fn signature_of(case: &Case, fail: &Fail) -> String {
    format!("{} => {}", case.text(), fail.key)
}

fn lit_version(case: &Case) -> Option<Case> {
    let mut changed = false;
    let mut c = case.clone();
    for a in c.args.iter_mut() {
        if let SArg::Bin(e) = a {
            if !e.is_lit() && e.len() <= 64 {
                *a = SArg::Bin(BinExpr::Lit(e.content()));
                changed = true;
            }
        }
    }
    if changed { Some(c) } else { None }
}

pub struct Recorder {
    /// family key -> signature (saves re-shrinking the many members of one family).  A panic
    /// family is (builtin, message, source location): the panic site is the root cause.  Any other
    /// failure family is the case with its shapes replaced by literals, when that still fails in
    /// the same way (shape-independent), else the case itself.
    memo: HashMap<String, String>,
    pub shrink: bool,
    pub max_shrink_evals: usize,
}

fn alphabets_for(case: &Case) -> Vec<Vec<num_bigint::BigInt>> {
    let specs = specs();
    match specs.iter().find(|s| s.name == case.name) {
        Some(sp) => sp
            .pos
            .iter()
            .map(|p| match p {
                Pos::Int(k) => alphabet(*k),
                _ => vec![],
            })
            .collect(),
        None => vec![vec![]; case.args.len()],
    }
}

impl Recorder {
    pub fn new(shrink: bool) -> Recorder {
        Recorder { memo: HashMap::new(), shrink, max_shrink_evals: 40_000 }
    }

    /// Record one failing case into `sum` under the signature of its shrunk core.
    pub fn record(&mut self, ctx: &mut Ctx, sum: &mut SliceSum, case: &Case, exp: &Expect, obs: &Obs, fail: &Fail) {
        sum.failing_cases += 1;
        let mut start = case.clone();
        let mut evals = 0u64;
        let same = |ctx: &mut Ctx, c: &Case, evals: &mut u64| -> bool {
            *evals += 1;
            wd_tick();
            let (e, o) = eval_case(ctx, c);
            judge(&e, &o).as_ref() == Some(fail)
        };
        let is_panic = matches!(obs, Obs::Panic(_, _));
        let memo_key = if is_panic {
            format!("{}{} => {} @ {}", if case.compiled { "compiled " } else { "" }, case.name, fail.key, fail.loc)
        } else {
            let lit = lit_version(case);
            let lit_key = lit.as_ref().map(|l| format!("{} => {}", l.text(), fail.key));
            match (lit, lit_key) {
                (Some(l), Some(k)) => {
                    if self.memo.contains_key(&k) {
                        k
                    } else if self.shrink && case.name != "#build" && same(ctx, &l, &mut evals) {
                        start = l;
                        k
                    } else {
                        format!("{} => {}", case.text(), fail.key)
                    }
                }
                _ => format!("{} => {}", case.text(), fail.key),
            }
        };
        let sig = match self.memo.get(&memo_key) {
            Some(s) => s.clone(),
            None => {
                let shrunk = if self.shrink {
                    let mut f = |c: &Case| same(ctx, c, &mut evals);
                    let mut sh = Shrinker::new(&mut f, alphabets_for(&start), self.max_shrink_evals, &start);
                    sh.shrink()
                } else {
                    start.clone()
                };
                let sig = if self.shrink {
                    signature_of(&shrunk, fail)
                } else {
                    format!("{} [unshrunk]", signature_of(&shrunk, fail))
                };
                self.memo.insert(memo_key, sig.clone());
                if !sum.failures.contains_key(&sig) {
                    // observed / expected of the shrunk core itself
                    let (e2, o2) = eval_case(ctx, &shrunk);
                    let summary = format!(
                        "{}: observed {}, expected {} [first enumerated witness: {} -> observed {}, expected {}]",
                        shrunk.text(),
                        o2.text(),
                        expect_text(&e2),
                        case.text(),
                        obs.text(),
                        expect_text(exp),
                    );
                    let mut replay = shrunk.to_json();
                    replay["kind"] = json!(fail.key);
                    sum.failures.insert(sig.clone(), FailRec { count: 0, summary, replay });
                }
                sig
            }
        };
        sum.shrink_evaluations += evals;
        let e = sum.failures.entry(sig).or_insert_with(|| {
            // the summary/replay of this signature went out with an earlier batch
            FailRec { count: 0, summary: String::new(), replay: J::Null }
        });
        e.count += 1;
    }
}

// ---------------------------------------------------------------------------------------------
// enumeration at shape level

/// One shape-level case handed to the visitor.
pub struct Visit<'a> {
    pub idx: u64,
    pub cvals: &'a [CVal],
    pub exp: &'a Expect,
    /// for each argument position, the chosen shape index (binaries only)
    pub shape_idx: &'a [usize],
    pub first_of_content: bool,
}

/// Enumerate the shape-level cases of a regular slice in their fixed order.
pub fn enumerate_slice(
    u: &Universe,
    spec: &Spec,
    a0: usize,
    thorough: bool,
    mut f: impl FnMut(&Visit) -> bool,
) {
    let mut idx: u64 = 0;
    let nbins = spec.pos.iter().filter(|p| !matches!(p, Pos::Int(_))).count();
    for_each_content_case(u, spec, a0, |cvals| {
        let exp = expect_of(u, spec.name, cvals);
        let (a, b) = shape_policy(thorough, is_nontrivial(&exp), nbins, spec.pos.len());
        let bins: Vec<(usize, usize)> = cvals
            .iter()
            .enumerate()
            .filter_map(|(p, v)| match v {
                CVal::Bin(ci) => Some((p, *ci)),
                _ => None,
            })
            .collect();
        let mut shape_idx = vec![0usize; cvals.len()];
        let mut first = true;
        let mut go = |shape_idx: &[usize], idx: &mut u64, first: &mut bool| -> bool {
            let v = Visit { idx: *idx, cvals, exp: &exp, shape_idx, first_of_content: *first };
            *idx += 1;
            *first = false;
            f(&v)
        };
        match bins.len() {
            0 => go(&shape_idx, &mut idx, &mut first),
            1 => {
                let (p, ci) = bins[0];
                for (si, s) in u.shapes[ci].iter().enumerate() {
                    if s.level <= a {
                        shape_idx[p] = si;
                        if !go(&shape_idx, &mut idx, &mut first) {
                            return false;
                        }
                    }
                }
                true
            }
            2 => {
                let (p, ci) = bins[0];
                let (q, cj) = bins[1];
                for (si, s) in u.shapes[ci].iter().enumerate() {
                    if s.level > a {
                        continue;
                    }
                    for (sj, t) in u.shapes[cj].iter().enumerate() {
                        if pair_ok(s.level, t.level, a, b) {
                            shape_idx[p] = si;
                            shape_idx[q] = sj;
                            if !go(&shape_idx, &mut idx, &mut first) {
                                return false;
                            }
                        }
                    }
                }
                true
            }
            _ => panic!("more than two binary positions"),
        }
    });
}

pub fn case_of_visit(u: &Universe, spec: &Spec, v: &Visit, compiled: bool) -> Case {
    let args = v
        .cvals
        .iter()
        .enumerate()
        .map(|(p, c)| match c {
            CVal::Int(i) => SArg::Int(i.clone()),
            CVal::Bin(ci) => SArg::Bin(u.shapes[*ci][v.shape_idx[p]].expr.clone()),
        })
        .collect();
    Case { name: spec.name.to_string(), args, compiled }
}

/// The case with index `idx` of a slice (for naming a hang or crash reported by index).
pub fn nth_case(u: &Universe, thorough: bool, slice: &SliceId, idx: u64) -> Option<Case> {
    match slice.builtin.as_str() {
        "#build" => {
            let s = u.shapes.get(slice.a0)?.get(idx as usize)?;
            Some(Case { name: "#build".into(), args: vec![SArg::Bin(s.expr.clone())], compiled: false })
        }
        "#big" => big::groups(thorough).get(slice.a0)?.get(idx as usize).cloned(),
        name => {
            let specs = specs();
            let spec = specs.iter().find(|s| s.name == name)?;
            let mut found = None;
            enumerate_slice(u, spec, slice.a0, thorough, |v| {
                if v.idx == idx {
                    found = Some(case_of_visit(u, spec, v, false));
                    false
                } else {
                    true
                }
            });
            found
        }
    }
}

// ---------------------------------------------------------------------------------------------
// running

struct Run<'a> {
    u: &'a Universe,
    spec: &'a ChildSpec,
    ctx: Ctx,
    rec: Recorder,
    /// running count of shape-level cases in this child
    global: u64,
    /// running count of the cases that have a source form (drives the compiled stride)
    compilable: u64,
}

fn classify_expect(sum: &mut SliceSum, exp: &Expect) {
    match exp {
        Expect::Val(_) => sum.expect_value += 1,
        Expect::Err => sum.expect_error += 1,
        Expect::Any => sum.abstain_totality_only += 1,
        Expect::ErrOrVal(_) => sum.abstain_narrowing += 1,
    }
}

fn classify_obs(sum: &mut SliceSum, obs: &Obs) {
    match obs {
        Obs::Val(RVal::Nil) => sum.observed_nil += 1,
        Obs::Val(_) => sum.observed_value += 1,
        Obs::Err(_) => sum.observed_error += 1,
        Obs::Panic(_, _) => sum.observed_panic += 1,
        Obs::Other(_) => sum.observed_other += 1,
    }
}

/// Agreement of the compiled path with the direct path where the model abstains.
fn same_class(a: &Obs, b: &Obs) -> bool {
    match (a, b) {
        (Obs::Err(_), Obs::Err(_)) => true,
        (Obs::Val(x), Obs::Val(y)) => x == y,
        _ => false,
    }
}

impl<'a> Run<'a> {
    /// Evaluate one case given as data: direct (and compiled when `also_compiled`), judge, record.
    fn run_data_case(&mut self, sum: &mut SliceSum, case: &Case, also_compiled: bool) {
        let (exp, obs) = eval_case(&mut self.ctx, case);
        sum.evaluations += 1;
        classify_expect(sum, &exp);
        classify_obs(sum, &obs);
        if is_nontrivial(&exp) {
            sum.nontrivial += 1;
            sum.nontrivial_content += 1;
            if sum.samples.is_empty() {
                sum.samples.push(json!({"case": case.text(), "expected": expect_text(&exp), "observed": obs.text()}));
            }
        }
        sum.content_cases += 1;
        match judge(&exp, &obs) {
            Some(fail) => self.rec.record(&mut self.ctx, sum, case, &exp, &obs, &fail),
            None => {
                if also_compiled {
                    self.compiled_check(sum, case, &exp, &obs);
                }
            }
        }
    }

    fn compiled_check(&mut self, sum: &mut SliceSum, case: &Case, exp: &Expect, direct: &Obs) {
        let mut c = case.clone();
        c.compiled = true;
        wd_tick();
        let obs = call_compiled(&self.ctx.reg, &c.name, &c.args);
        sum.compiled += 1;
        match judge(exp, &obs) {
            Some(fail) => self.rec.record(&mut self.ctx, sum, &c, exp, &obs, &fail),
            None => {
                if !same_class(direct, &obs) && !matches!(exp, Expect::Val(_) | Expect::Err) {
                    // the model abstains, but the two paths must still agree with each other
                    let fail = Fail { key: "compiled-differs-from-direct".into(), loc: String::new() };
                    sum.failing_cases += 1;
                    let sig = signature_of(&c, &fail);
                    let mut replay = c.to_json();
                    replay["kind"] = json!(fail.key);
                    let e = sum.failures.entry(sig).or_insert_with(|| FailRec {
                        count: 0,
                        summary: format!("{}: compiled gives {}, direct call gives {}", c.text(), obs.text(), direct.text()),
                        replay,
                    });
                    e.count += 1;
                }
            }
        }
    }

    fn run_list_slice(&mut self, pos: usize, cases: &[Case], also_compiled: bool) -> bool {
        let start = if pos == self.spec.resume_slice { self.spec.resume_case } else { 0 };
        for (i, case) in cases.iter().enumerate() {
            let i = i as u64;
            if i < start {
                continue;
            }
            if now_ms() > self.spec.deadline_ms {
                let sum = SliceSum { capped: true, ..Default::default() };
                emit(&format!("S {} {}", pos, serde_json::to_string(&sum).unwrap()));
                return false;
            }
            emit(&format!("B {} {}", pos, i));
            let mut sum = SliceSum::default();
            wd_enter(pos, i);
            self.run_data_case(&mut sum, case, also_compiled);
            wd_leave();
            if case.name != "#build" {
                self.ctx.reset(); // big binaries: free the heap right away
            }
            emit(&format!("S {} {}", pos, serde_json::to_string(&sum).unwrap()));
        }
        true
    }

    fn run_regular_slice(&mut self, pos: usize, spec: &Spec, a0: usize) -> bool {
        let u = self.u;
        let cs = self.spec;
        let start = if pos == cs.resume_slice { cs.resume_case } else { 0 };
        let careful_until = if pos == cs.resume_slice { cs.careful_until } else { 0 };
        let mut sum = SliceSum::default();
        let mut in_batch: u64 = 0;
        let mut batch_open = false;
        let mut stop_capped = false;
        // first observation of the current content-level case (for shape independence where the
        // model abstains)
        let mut first_obs: Option<Obs> = None;
        enumerate_slice(u, spec, a0, cs.thorough, |v| {
            if v.idx < start {
                return true;
            }
            let batch = if v.idx < careful_until { 1 } else { BATCH };
            if !batch_open || in_batch >= batch {
                if batch_open {
                    emit(&format!("S {} {}", pos, serde_json::to_string(&sum).unwrap()));
                    sum = SliceSum::default();
                }
                if now_ms() > cs.deadline_ms {
                    stop_capped = true;
                    return false;
                }
                emit(&format!("B {} {}", pos, v.idx));
                batch_open = true;
                in_batch = 0;
            }
            in_batch += 1;
            self.global += 1;

            // ---- the call
            let refs: Vec<ArgRef> = v
                .cvals
                .iter()
                .enumerate()
                .map(|(p, c)| match c {
                    CVal::Int(i) => ArgRef::Int(i),
                    CVal::Bin(ci) => ArgRef::Bin(&u.shapes[*ci][v.shape_idx[p]].expr, Some((*ci, v.shape_idx[p]))),
                })
                .collect();
            wd_enter(pos, v.idx);
            let obs = self.ctx.call_direct(spec.name, &refs);
            sum.evaluations += 1;
            classify_expect(&mut sum, v.exp);
            classify_obs(&mut sum, &obs);
            let nontrivial = is_nontrivial(v.exp);
            if v.first_of_content {
                sum.content_cases += 1;
                if nontrivial {
                    sum.nontrivial_content += 1;
                }
            }
            if nontrivial {
                sum.nontrivial += 1;
                if sum.samples.is_empty() || v.idx % 997 == 13 {
                    let case = case_of_visit(u, spec, v, false);
                    sum.samples.clear();
                    sum.samples.push(json!({"case": case.text(), "expected": expect_text(v.exp), "observed": obs.text()}));
                }
            }
            if v.first_of_content {
                first_obs = None;
            }
            match judge(v.exp, &obs) {
                Some(fail) => {
                    let case = case_of_visit(u, spec, v, false);
                    self.rec.record(&mut self.ctx, &mut sum, &case, v.exp, &obs, &fail);
                }
                None => {
                    if !matches!(v.exp, Expect::Val(_) | Expect::Err) {
                        // equal content => equal result, also where the model accepts two answers
                        match &first_obs {
                            None => first_obs = Some(obs.clone()),
                            Some(f0) => {
                                if !same_class(f0, &obs) {
                                    let case = case_of_visit(u, spec, v, false);
                                    let fail = Fail { key: "result-depends-on-shape".into(), loc: String::new() };
                                    sum.failing_cases += 1;
                                    let mut replay = case.to_json();
                                    replay["kind"] = json!(fail.key);
                                    let e = sum.failures.entry(signature_of(&case, &fail)).or_insert_with(|| FailRec {
                                        count: 0,
                                        summary: format!("{}: gives {}, but the same content in its first shape gave {}", case.text(), obs.text(), f0.text()),
                                        replay,
                                    });
                                    e.count += 1;
                                }
                            }
                        }
                    }
                    // materialize has no source form (such a case is not the same case compiled):
                    // the stride runs over the cases without a materialized shape
                    let has_mat = v.cvals.iter().enumerate().any(|(p, c)| match c {
                        CVal::Bin(ci) => u.shapes[*ci][v.shape_idx[p]].level == 3,
                        _ => false,
                    });
                    if cs.stride > 0 && !has_mat {
                        self.compilable += 1;
                        if self.compilable % cs.stride == 0 {
                            let case = case_of_visit(u, spec, v, false);
                            self.compiled_check(&mut sum, &case, v.exp, &obs);
                        }
                    }
                }
            }
            wd_leave();
            true
        });
        if stop_capped {
            sum.capped = true;
        } else {
            sum.finished = true;
        }
        emit(&format!("S {} {}", pos, serde_json::to_string(&sum).unwrap()));
        !stop_capped
    }
}

/// Entry point of the child process.
pub fn child_main(spec_json: &str) -> ! {
    let spec: ChildSpec = match serde_json::from_str(spec_json) {
        Ok(s) => s,
        Err(e) => {
            eprintln!("c12 child: bad spec: {}", e);
            std::process::exit(2);
        }
    };
    start_watchdog(spec.watchdog_s);
    let u = Universe::new();
    let specs = specs();
    let mut run = Run { u: &u, spec: &spec, ctx: Ctx::new(), rec: Recorder::new(spec.data_case.is_none()), global: 0, compilable: 0 };
    if let Some(j) = &spec.data_case {
        let Some(case) = Case::from_json(j) else {
            eprintln!("c12 child: bad data case");
            std::process::exit(2);
        };
        emit("B 0 0");
        let mut sum = SliceSum::default();
        wd_enter(0, 0);
        run.run_data_case(&mut sum, &case, false);
        wd_leave();
        emit(&format!("S 0 {}", serde_json::to_string(&sum).unwrap()));
        emit("D");
        std::process::exit(0);
    }
    for (pos, sl) in spec.slices.iter().enumerate() {
        if pos < spec.resume_slice {
            continue;
        }
        let cont = match sl.builtin.as_str() {
            "#build" => {
                let cases: Vec<Case> = u.shapes[sl.a0]
                    .iter()
                    .map(|s| Case { name: "#build".into(), args: vec![SArg::Bin(s.expr.clone())], compiled: false })
                    .collect();
                let r = run.run_list_slice(pos, &cases, false);
                if r {
                    emit(&format!("S {} {}", pos, serde_json::to_string(&SliceSum { finished: true, ..Default::default() }).unwrap()));
                }
                r
            }
            "#big" => {
                let groups = big::groups(spec.thorough);
                let cases = groups.get(sl.a0).cloned().unwrap_or_default();
                run.rec.max_shrink_evals = 40;
                let r = run.run_list_slice(pos, &cases, false);
                run.rec.max_shrink_evals = 40_000;
                if r {
                    emit(&format!("S {} {}", pos, serde_json::to_string(&SliceSum { finished: true, ..Default::default() }).unwrap()));
                }
                r
            }
            name => match specs.iter().find(|s| s.name == name) {
                Some(sp) => run.run_regular_slice(pos, sp, sl.a0),
                None => {
                    eprintln!("c12 child: unknown builtin {}", name);
                    std::process::exit(2);
                }
            },
        };
        if !cont {
            break;
        }
    }
    emit("D");
    std::process::exit(0);
}
