//! Fixed cases around the maximal binary size (16 MiB - 1, 16 MiB, 16 MiB + 1), zero-filled, in
//! every cheap rope shape.  Run in child processes with a generous watchdog.

use super::cases::Case;
use super::model::MAX_BIN;
use super::real::SArg;
use super::shapes::BinExpr;
use num_bigint::BigInt;

fn lit(b: &[u8]) -> BinExpr {
    BinExpr::lit(b)
}
fn cat(a: BinExpr, b: BinExpr) -> BinExpr {
    BinExpr::Concat(Box::new(a), Box::new(b))
}
fn rp(u: BinExpr, c: usize) -> BinExpr {
    BinExpr::Repeat(Box::new(u), c)
}
fn sl(p: BinExpr, s: usize, e: usize) -> BinExpr {
    BinExpr::Slice(Box::new(p), s, e)
}

/// Zero-filled shapes of `n` bytes; `full` adds the slow byte-unit tiling and the flattened form.
fn zero_shapes(n: usize, full: bool) -> Vec<BinExpr> {
    let mut v = vec![
        BinExpr::New(n),
        cat(BinExpr::New(n - 1), lit(&[0])),
        cat(BinExpr::New(n / 2), BinExpr::New(n - n / 2)),
    ];
    if n % 2 == 0 {
        v.push(rp(BinExpr::New(n / 2), 2));
    }
    if n + 1 <= MAX_BIN {
        v.push(sl(BinExpr::New(n + 1), 1, n + 1));
    }
    if full {
        v.push(rp(lit(&[0]), n));
        v.push(BinExpr::Mat(Box::new(BinExpr::New(n))));
        if n % 8 == 0 {
            v.push(rp(lit(&[0; 8]), n / 8));
        }
    }
    v
}

fn i(n: i128) -> SArg {
    SArg::Int(BigInt::from(n))
}
fn b(e: &BinExpr) -> SArg {
    SArg::Bin(e.clone())
}

/// Groups of cases (one group = one slice = one unit of child work).
pub fn groups(thorough: bool) -> Vec<Vec<Case>> {
    let m = MAX_BIN;
    let mut out: Vec<Vec<Case>> = vec![];
    let case = |name: &str, args: Vec<SArg>| Case { name: name.to_string(), args, compiled: false };

    // construction at the limit
    let mut g = vec![];
    for n in [m - 1, m, m + 1] {
        g.push(case("binary_new", vec![i(n as i128)]));
    }
    let z = BinExpr::New(m);
    let z1 = BinExpr::New(m - 1);
    g.push(case("binary_concat", vec![b(&z1), b(&lit(&[7]))]));
    g.push(case("binary_concat", vec![b(&z), b(&lit(&[7]))]));
    g.push(case("binary_concat", vec![b(&z), b(&lit(&[]))]));
    g.push(case("binary_concat", vec![b(&lit(&[7])), b(&z)]));
    g.push(case("binary_concat", vec![b(&BinExpr::New(m / 2)), b(&BinExpr::New(m / 2))]));
    g.push(case("binary_concat", vec![b(&BinExpr::New(m / 2)), b(&BinExpr::New(m / 2 + 1))]));
    g.push(case("binary_concat", vec![b(&z), b(&z)]));
    g.push(case("binary_repeat", vec![b(&lit(&[5])), i(m as i128)]));
    g.push(case("binary_repeat", vec![b(&lit(&[5])), i(m as i128 + 1)]));
    g.push(case("binary_repeat", vec![b(&lit(&[1, 2, 3])), i((m / 3) as i128)]));
    g.push(case("binary_repeat", vec![b(&lit(&[1, 2, 3])), i((m / 3) as i128 + 1)]));
    g.push(case("binary_repeat", vec![b(&BinExpr::New(m / 2)), i(2)]));
    g.push(case("binary_repeat", vec![b(&BinExpr::New(m / 2 + 1)), i(2)]));
    g.push(case("binary_repeat", vec![b(&z), i(1)]));
    g.push(case("binary_repeat", vec![b(&z), i(2)]));
    g.push(case("binary_repeat", vec![b(&BinExpr::New(1 << 12)), i(1 << 12)]));
    g.push(case("binary_repeat", vec![b(&BinExpr::New(1 << 12)), i((1 << 12) + 1)]));
    out.push(g);

    // quick: the maximal size in its two cheapest shapes; thorough: both sizes in every shape
    let sizes: Vec<usize> = if thorough { vec![m - 1, m] } else { vec![m] };
    for n in sizes {
        let mut shapes = zero_shapes(n, thorough);
        if !thorough {
            shapes.truncate(2);
        }
        for shape in shapes {
            let mut g = vec![];
            let s = &shape;
            let ni = n as i128;
            for name in ["binary_length", "binary_popcount", "binary_hash32", "binary_hash64", "binary_not"] {
                g.push(case(name, vec![b(s)]));
            }
            for amt in [1, -1, 8 * ni - 1, -(8 * ni - 1), 8 * ni, -(8 * ni), 1i128 << 32] {
                g.push(case("binary_shift", vec![b(s), i(amt)]));
            }
            g.push(case("binary_get", vec![b(s), i(ni - 1), i(7), i(1)]));
            g.push(case("binary_get", vec![b(s), i(ni - 8), i(0), i(64)]));
            g.push(case("binary_get", vec![b(s), i(ni - 8), i(1), i(64)]));
            g.push(case("binary_get", vec![b(s), i(ni), i(0), i(1)]));
            g.push(case("binary_set", vec![b(s), i(ni - 1), i(0), i(255), i(8)]));
            g.push(case("binary_set", vec![b(s), i(0), i(3), i(1), i(1)]));
            g.push(case("binary_set", vec![b(s), i(ni / 2), i(4), i(0xabc), i(12)]));
            g.push(case("binary_set", vec![b(s), i(ni), i(0), i(1), i(1)]));
            g.push(case("binary_slice", vec![b(s), i(ni - 1), i(ni)]));
            g.push(case("binary_slice", vec![b(s), i(0), i(ni)]));
            g.push(case("binary_slice", vec![b(s), i(ni), i(ni)]));
            g.push(case("binary_slice", vec![b(s), i(ni), i(ni + 1)]));
            g.push(case("binary_index", vec![b(s), i(0), i(ni - 1)]));
            g.push(case("binary_index", vec![b(s), i(0), i(ni)]));
            g.push(case("binary_index", vec![b(s), i(1), i(0)]));
            g.push(case("binary_index", vec![b(s), i(1), i(ni - 1)]));
            g.push(case("binary_append", vec![b(s), i(9), i(1)]));
            g.push(case("binary_append", vec![b(s), i(9), i(2)]));
            g.push(case("binary_concat", vec![b(s), b(&lit(&[9]))]));
            g.push(case("binary_concat", vec![b(&lit(&[])), b(s)]));
            g.push(case("binary_repeat", vec![b(s), i(1)]));
            g.push(case("binary_repeat", vec![b(s), i(2)]));
            g.push(case("binary_and", vec![b(s), b(&lit(&[0xff]))]));
            g.push(case("binary_or", vec![b(s), b(&lit(&[0xff]))]));
            g.push(case("binary_xor", vec![b(&lit(&[0xff, 0x01])), b(s)]));
            g.push(case("vector_sum", vec![b(s), i(8)]));
            g.push(case("vector_sum", vec![b(s), i(4)]));
            g.push(case("vector_get", vec![b(s), i(8), i(ni / 8 - 1)]));
            g.push(case("vector_get", vec![b(s), i(8), i(ni / 8)]));
            g.push(case("vector_push", vec![b(s), i(8), i(1)]));
            g.push(case("vector_push", vec![b(s), i(4), i(1)]));
            if thorough {
                g.push(case("vector_add", vec![b(s), b(s), i(8)]));
                g.push(case("vector_equal", vec![b(s), b(s), i(4)]));
                g.push(case("vector_dot", vec![b(s), b(s), i(8)]));
                g.push(case("vector_take", vec![b(&BinExpr::New(8 * (1 << 20))), i(8), b(&BinExpr::New(1 << 20))]));
                g.push(case("binary_or", vec![b(s), b(s)]));
            }
            out.push(g);
        }
    }
    out
}
