//! C13 cases: (operands, comparison form, engine) -> script -> observation.

use super::paths::*;
use super::vals::*;
use crate::qcompile;
use crate::sim::session::{Eval, Session};
use serde_json::{Value as J, json};
use std::cell::RefCell;
use std::collections::{BTreeMap, HashMap};
use std::panic::{AssertUnwindSafe, catch_unwind};

#[derive(Clone, Debug, PartialEq, Eq, Hash, PartialOrd, Ord)]
pub struct Operand {
    pub v: Val,
    pub path: Path,
}

#[derive(Clone, Copy, Debug, PartialEq, Eq, Hash, PartialOrd, Ord)]
pub enum Form {
    /// `a =&b`
    Pin,
    /// `[a, b] =[x, x]`
    Rep,
    /// `a =<literal pattern of b's value>`
    LitPat,
    /// `a =&a`
    SelfPin,
    /// `[a, a] =[x, x]`
    SelfRep,
    /// `[a, b, c] =[x, x, x]`
    Rep3,
    /// `[a =7, a =<literal pattern of b's value>] .1`: the literal-pattern match evaluated after a
    /// failed sibling match on the same variable (the verdict must not depend on what the
    /// compiler inferred from the sibling)
    SibLit,
}

impl Form {
    pub fn name(self) -> &'static str {
        match self {
            Form::Pin => "pin",
            Form::Rep => "repeated-binder",
            Form::LitPat => "literal-pattern",
            Form::SelfPin => "self-pin",
            Form::SelfRep => "self-repeated-binder",
            Form::Rep3 => "repeated-binder-3",
            Form::SibLit => "literal-pattern-after-sibling-match",
        }
    }
    pub fn from_name(s: &str) -> Option<Form> {
        [Form::Pin, Form::Rep, Form::LitPat, Form::SelfPin, Form::SelfRep, Form::Rep3, Form::SibLit]
            .into_iter()
            .find(|f| f.name() == s)
    }
    pub fn arity(self) -> usize {
        match self {
            Form::SelfPin | Form::SelfRep => 1,
            Form::Rep3 => 3,
            _ => 2,
        }
    }
}

#[derive(Clone, Copy, Debug, PartialEq, Eq, Hash, PartialOrd, Ord)]
pub enum Engine {
    /// one program, `execute_bytecode_sync` (single process, fresh `Program`)
    E1,
    /// a REPL session over the real Environment + `n` workers, one REPL line per step
    E2(usize),
}

impl Engine {
    pub fn name(self) -> String {
        match self {
            Engine::E1 => "program".to_string(),
            Engine::E2(w) => format!("repl-w{}", w),
        }
    }
    pub fn from_name(s: &str) -> Option<Engine> {
        if s == "program" {
            return Some(Engine::E1);
        }
        s.strip_prefix("repl-w").and_then(|w| w.parse().ok()).map(Engine::E2)
    }
}

#[derive(Clone, Debug, PartialEq, Eq, Hash, PartialOrd, Ord)]
pub struct Case {
    pub engine: Engine,
    pub form: Form,
    pub ops: Vec<Operand>,
}

/// What the property demands for a case: Some(true) = `Ok`, Some(false) = `[]`, None = abstain.
pub fn expected(form: Form, ops: &[Operand]) -> Option<bool> {
    match form {
        Form::Pin | Form::Rep => Some(host_eq(&ops[0].v, &ops[1].v)),
        Form::SelfPin | Form::SelfRep => Some(true),
        Form::Rep3 => Some(host_eq(&ops[0].v, &ops[1].v) && host_eq(&ops[0].v, &ops[2].v)),
        Form::LitPat | Form::SibLit => {
            let (v, w) = (&ops[0].v, &ops[1].v);
            if host_eq(v, w) {
                Some(true)
            } else if shape_differs(v, w) {
                // The documentation's destructuring examples disagree with the implementation on
                // whether a tuple pattern must repeat the value's name and labels; a literal
                // tuple pattern whose name/labels differ from the value's is not judged.
                None
            } else {
                Some(false)
            }
        }
    }
}

/// Both are tuples of the same arity somewhere along the common structure, but names or labels differ.
fn shape_differs(v: &Val, w: &Val) -> bool {
    match (v, w) {
        (Val::Tup(n1, f1), Val::Tup(n2, f2)) => {
            if f1.len() != f2.len() {
                return false; // arity decides, names irrelevant to the verdict
            }
            if n1 != n2 || f1.iter().zip(f2).any(|((l1, _), (l2, _))| l1 != l2) {
                return true;
            }
            // same outer shape: an inner shape difference only matters if everything else is equal,
            // but to stay on the safe side abstain whenever any aligned inner pair differs in shape
            f1.iter().zip(f2).any(|((_, a), (_, b))| shape_differs(a, b))
        }
        _ => false,
    }
}

pub const VAR_NAMES: [&str; 3] = ["a", "b", "c"];

/// The final expression of a form over operand variables `names`.
pub fn form_expr(form: Form, ops: &[Operand], names: &[String]) -> String {
    let lit_form = matches!(form, Form::LitPat | Form::SibLit);
    let amp = if lit_form { ops[0].v.needs_amp() } else { ops.iter().take(form.arity()).any(|o| o.v.needs_amp()) };
    let r = |i: usize| var_ref(&names[i], amp);
    match form {
        Form::Pin => format!("{} =&{}", r(0), names[1]),
        Form::Rep => format!("[{}, {}] =[x, x]", r(0), r(1)),
        Form::LitPat => format!("{} ={}", var_ref(&names[0], ops[0].v.needs_amp()), pat(&ops[1].v).expect("data pattern")),
        Form::SelfPin => format!("{} =&{}", r(0), names[0]),
        Form::SelfRep => format!("[{}, {}] =[x, x]", r(0), r(0)),
        Form::Rep3 => format!("[{}, {}, {}] =[x, x, x]", r(0), r(1), r(2)),
        Form::SibLit => format!("[{} =7, {} ={}] .1", r(0), r(0), pat(&ops[1].v).expect("data pattern")),
    }
}

#[derive(Clone, Debug, Default)]
pub struct Script {
    /// everything before the final line: prelude, selector, per-operand setup and bindings
    pub lines: Vec<String>,
    pub modules: Vec<(String, String)>,
}

/// The union-result selector over the operands' values plus two decoys of other kinds.
pub fn selector_line(name: &str, vals: &[&Val]) -> String {
    let mut s = format!("{} = #'int {{", name);
    for (i, v) in vals.iter().enumerate() {
        s.push_str(&format!(" | ={} => {}", i, lit(v)));
    }
    s.push_str(&format!(" | ={} => 7 | Z[0x07] }}", vals.len()));
    s
}

/// Script that binds every operand of `ops` to the variable of the same position in `names`.
pub fn build_named(ops: &[&Operand], names: &[String], sel_extra: &[&Val]) -> Script {
    let mut sc = Script::default();
    let mut pairs: Vec<(&Val, Path)> = ops.iter().map(|o| (&o.v, o.path)).collect();
    for v in sel_extra {
        pairs.push((v, Path::Lit));
    }
    let needs = needs_of(&pairs);
    sc.lines.extend(prelude_lines(&needs));
    if needs.funs.contains(&FUN_FROM_MODULE) {
        sc.modules.push((FUN_MODULE.0.to_string(), FUN_MODULE.1.to_string()));
    }
    if ops.iter().any(|o| o.path == Path::Uni) {
        let mut vals: Vec<&Val> = ops.iter().map(|o| &o.v).collect();
        vals.extend(sel_extra.iter().copied());
        sc.lines.push(selector_line("sel", &vals));
    }
    for (i, o) in ops.iter().enumerate() {
        let uni = UniRef { sel: "sel".to_string(), index: i };
        let b = build(&o.v, o.path, &names[i], Some(&uni));
        sc.lines.extend(b.setup);
        sc.lines.push(format!("{} = {}", names[i], b.expr));
        sc.modules.extend(b.modules);
    }
    sc
}

/// Script that builds every *constructed* operand (`n_built` first operands) into `a`, `b`, `c`;
/// the values of the remaining operands (literal-pattern side) still widen the union selector.
pub fn build_script(ops: &[Operand], n_built: usize) -> Script {
    let names: Vec<String> = VAR_NAMES.iter().map(|s| s.to_string()).collect();
    let built: Vec<&Operand> = ops.iter().take(n_built).collect();
    let extra: Vec<&Val> = ops.iter().skip(n_built).map(|o| &o.v).collect();
    build_named(&built, &names, &extra)
}

pub fn n_built(form: Form) -> usize {
    match form {
        Form::LitPat | Form::SibLit => 1,
        f => f.arity(),
    }
}

pub fn case_script(case: &Case) -> (Script, String) {
    let sc = build_script(&case.ops, n_built(case.form));
    let names: Vec<String> = VAR_NAMES.iter().map(|s| s.to_string()).collect();
    let fin = form_expr(case.form, &case.ops, &names);
    (sc, fin)
}

// ---------------------------------------------------------------------------------------------
// Running scripts

#[derive(Clone, Debug, PartialEq, Eq)]
pub enum Ran {
    /// masked canonical rendering of the final line's value
    Value(String),
    /// the compiler refused the program / line
    Rejected(String),
    RuntimeError(String),
    /// panic, hang, environment failure
    Broken(String),
    /// a line before the final one failed (line, what)
    Setup(String),
}

thread_local! {
    static BUILTINS: quiver_core::builtins::BuiltinRegistry<qcompile::E> = qcompile::core_builtins();
}

fn module_map(mods: &[(String, String)]) -> HashMap<Vec<String>, String> {
    mods.iter().map(|(n, s)| (vec![n.clone()], s.clone())).collect()
}

fn panic_text(p: Box<dyn std::any::Any + Send>) -> String {
    let recorded = crate::sim::system::take_panic();
    if !recorded.is_empty() {
        return recorded;
    }
    if let Some(s) = p.downcast_ref::<&str>() {
        s.to_string()
    } else if let Some(s) = p.downcast_ref::<String>() {
        s.clone()
    } else {
        "panic".to_string()
    }
}

/// Engine 1: the whole script + final line as ONE program, run by `execute_bytecode_sync`.
/// `heap_seen` is set when the result contains a heap binary.
pub fn run_e1(lines: &[String], fin: &str, modules: &[(String, String)]) -> Ran {
    let mut src = lines.join("\n");
    if !src.is_empty() {
        src.push('\n');
    }
    src.push_str(fin);
    BUILTINS.with(|builtins| {
        let compiled = catch_unwind(AssertUnwindSafe(|| qcompile::compile_with(&src, builtins, module_map(modules))));
        let unit = match compiled {
            Err(p) => return Ran::Broken(format!("panic in compiler: {}", panic_text(p))),
            Ok(Err(qcompile::CompileFail::Parse(e))) => return Ran::Rejected(format!("parse: {}", e)),
            Ok(Err(qcompile::CompileFail::Compile(e))) => return Ran::Rejected(e),
            Ok(Err(qcompile::CompileFail::Panic(e))) => return Ran::Broken(e),
            Ok(Ok(u)) => u,
        };
        execute_and_render(unit, builtins)
    })
}

fn execute_and_render(unit: qcompile::CompiledUnit, builtins: &quiver_core::builtins::BuiltinRegistry<qcompile::E>) -> Ran {
    {
        let bc = unit.bytecode();
        let ran = catch_unwind(AssertUnwindSafe(|| quiver_core::execute_bytecode_sync(bc, builtins, false)));
        match ran {
            Err(p) => Ran::Broken(format!("panic in executor: {}", panic_text(p))),
            Ok(Err(e)) => Ran::RuntimeError(format!("{:?}", e)),
            Ok(Ok((value, executor))) => {
                let extracted = catch_unwind(AssertUnwindSafe(|| executor.extract_heap_data(&value)));
                let (v2, heap) = match extracted {
                    Ok(Ok(x)) => x,
                    Ok(Err(e)) => return Ran::Broken(format!("extract_heap_data: {:?}", e)),
                    Err(p) => return Ran::Broken(format!("panic in extract_heap_data: {}", panic_text(p))),
                };
                let refs = RefCell::new(BTreeMap::new());
                let r = crate::render::Renderer {
                    types: &unit.program,
                    heap: &heap,
                    constants: unit.program.get_constants(),
                    pid_names: None,
                    ref_names: Some(&refs),
                };
                Ran::Value(mask(&r.render(&v2)))
            }
        }
    }
}

thread_local! {
    static CHAINS: RefCell<HashMap<String, Vec<quiver_compiler::ast::Chain>>> = RefCell::new(HashMap::new());
    static FAST_COUNT: std::cell::Cell<u64> = const { std::cell::Cell::new(0) };
}

pub static AST_CROSSCHECKS: std::sync::atomic::AtomicU64 = std::sync::atomic::AtomicU64::new(0);
pub static AST_MISMATCHES: std::sync::atomic::AtomicU64 = std::sync::atomic::AtomicU64::new(0);

fn chains_of(line: &str) -> Result<Vec<quiver_compiler::ast::Chain>, String> {
    if let Some(c) = CHAINS.with(|m| m.borrow().get(line).cloned()) {
        return Ok(c);
    }
    let ast = quiver_compiler::parse(line).map_err(|e| format!("{}", e))?;
    let mut chains = vec![];
    for st in ast.statements {
        match st {
            quiver_compiler::ast::Statement::Expression(seq) => chains.extend(seq.chains),
            _ => return Err("type alias in a script line".to_string()),
        }
    }
    CHAINS.with(|m| {
        let mut m = m.borrow_mut();
        if m.len() > 200_000 {
            m.clear();
        }
        m.insert(line.to_string(), chains.clone());
    });
    Ok(chains)
}

/// Same as [`run_e1`], but the program's AST is assembled from per-line ASTs that are parsed once
/// and cached (parsing dominates the cost of these small programs). The whole program is one
/// statement holding one sequence of chains, exactly what the parser produces for the joined text;
/// every 64th call per thread cross-checks `assembled == parse(joined text)` (`Spanned` compares
/// always-equal, so this is structural AST equality).
pub fn run_e1_fast(lines: &[String], fin: &str, modules: &[(String, String)]) -> Ran {
    let mut chains = vec![];
    for l in lines.iter().map(|s| s.as_str()).chain(std::iter::once(fin)) {
        match chains_of(l) {
            Ok(c) => chains.extend(c),
            Err(_) => return run_e1(lines, fin, modules),
        }
    }
    let ast = quiver_compiler::ast::Program {
        statements: vec![quiver_compiler::ast::Statement::Expression(quiver_compiler::ast::Sequence { chains })],
    };
    let k = FAST_COUNT.with(|c| {
        c.set(c.get() + 1);
        c.get()
    });
    if k % 64 == 1 {
        let mut src = lines.join("\n");
        src.push('\n');
        src.push_str(fin);
        AST_CROSSCHECKS.fetch_add(1, std::sync::atomic::Ordering::Relaxed);
        match quiver_compiler::parse(&src) {
            Ok(full) if full == ast => {}
            _ => {
                AST_MISMATCHES.fetch_add(1, std::sync::atomic::Ordering::Relaxed);
                return run_e1(lines, fin, modules);
            }
        }
    }
    BUILTINS.with(|builtins| {
        let compiled = catch_unwind(AssertUnwindSafe(|| compile_ast(ast, builtins, module_map(modules))));
        let unit = match compiled {
            Err(p) => return Ran::Broken(format!("panic in compiler: {}", panic_text(p))),
            Ok(Err(e)) => return Ran::Rejected(e),
            Ok(Ok(u)) => u,
        };
        execute_and_render(unit, builtins)
    })
}

/// `qcompile::compile_with` minus the parsing step (copied: shared files must not be changed).
fn compile_ast(
    ast: quiver_compiler::ast::Program,
    builtins: &quiver_core::builtins::BuiltinRegistry<qcompile::E>,
    modules: HashMap<Vec<String>, String>,
) -> Result<qcompile::CompiledUnit, String> {
    use quiver_compiler::compiler::ModuleCache;
    use quiver_compiler::{Compiler, PackageResolver};
    use quiver_core::bytecode::Function;
    use quiver_core::program::Program;
    use quiver_core::types::Type;
    let mut program = Program::new();
    let mut module_cache = ModuleCache::new();
    let resolver = if modules.is_empty() { PackageResolver::inline() } else { PackageResolver::memory(modules) };
    let compiled = Compiler::compile(
        ast,
        &HashMap::new(),
        &mut module_cache,
        &resolver,
        &mut program,
        quiver_core::types::NIL,
        &HashMap::new(),
        builtins,
        None,
    )
    .map_err(|e| format!("{:?}", e.error))?;
    let nil_type_id = program.register_type(Type::nil());
    let callable = program.register_type(Type::Callable {
        parameter: nil_type_id,
        result: compiled.result_type,
        receive: compiled.receive_type,
    });
    let entry = program.register_function(Function { instructions: compiled.instructions, captures: 0, type_id: callable });
    Ok(qcompile::CompiledUnit { program, entry, result_type: compiled.result_type, receive_type: compiled.receive_type })
}

/// Does the rendering of the E1 result contain a heap binary? (separate helper used for coverage)
pub fn e1_result_is_heap_binary(lines: &[String], fin: &str) -> Option<bool> {
    let mut src = lines.join("\n");
    src.push('\n');
    src.push_str(fin);
    BUILTINS.with(|builtins| {
        let unit = qcompile::compile(&src, builtins).ok()?;
        let (value, _) = quiver_core::execute_bytecode_sync(unit.bytecode(), builtins, false).ok()?;
        match value {
            quiver_core::value::Value::Binary(quiver_core::value::Binary::Heap(_)) => Some(true),
            quiver_core::value::Value::Binary(quiver_core::value::Binary::Constant(_)) => Some(false),
            _ => None,
        }
    })
}

pub fn eval_to_ran(e: Eval) -> Ran {
    match e {
        Eval::Value(canon, _) => Ran::Value(mask(&canon)),
        Eval::NoCode => Ran::Broken("line contained no code".into()),
        Eval::ParseError(e) => Ran::Rejected(format!("parse: {}", e)),
        Eval::CompileError(e) => Ran::Rejected(e),
        Eval::RuntimeError(e) => Ran::RuntimeError(e),
        Eval::Broken(e) => Ran::Broken(e),
    }
}

pub fn new_session(workers: usize, modules: &[(String, String)]) -> Result<Session, String> {
    let r = catch_unwind(AssertUnwindSafe(|| Session::new(workers, module_map(modules))));
    match r {
        Ok(r) => r,
        Err(p) => Err(format!("panic in Session::new: {}", panic_text(p))),
    }
}

/// Engine 2: every line is one REPL line of a fresh session on `workers` workers.
pub fn run_e2(workers: usize, lines: &[String], fin: &str, modules: &[(String, String)]) -> Ran {
    let mut s = match new_session(workers, modules) {
        Ok(s) => s,
        Err(e) => return Ran::Broken(e),
    };
    let mut out = None;
    for (i, l) in lines.iter().enumerate() {
        match eval_to_ran(s.eval(l)) {
            Ran::Value(_) => {}
            other => {
                out = Some(Ran::Setup(format!("line {} `{}`: {:?}", i, l, other)));
                break;
            }
        }
    }
    let out = out.unwrap_or_else(|| eval_to_ran(s.eval(fin)));
    s.close();
    out
}

pub fn run_script(engine: Engine, sc: &Script, fin: &str) -> Ran {
    match engine {
        Engine::E1 => run_e1(&sc.lines, fin, &sc.modules),
        Engine::E2(w) => run_e2(w, &sc.lines, fin, &sc.modules),
    }
}

/// Parse `[Ok, [], Ok]` (a tuple of verdicts) into booleans.
pub fn parse_verdicts(s: &str, n: usize) -> Option<Vec<bool>> {
    if n == 1 && (s == "Ok" || s == "[]") {
        return Some(vec![s == "Ok"]);
    }
    let inner = s.strip_prefix('[')?.strip_suffix(']')?;
    let parts: Vec<&str> = inner.split(", ").collect();
    if parts.len() != n {
        return None;
    }
    parts
        .iter()
        .map(|p| match *p {
            "Ok" => Some(true),
            "[]" => Some(false),
            _ => None,
        })
        .collect()
}

pub fn parse_verdict(s: &str) -> Option<bool> {
    match s {
        "Ok" => Some(true),
        "[]" => Some(false),
        _ => None,
    }
}

#[derive(Clone, Debug, PartialEq, Eq)]
pub enum Obs {
    Verdict(bool),
    /// compiler refused: counted, not judged
    Rejected(String),
    /// the operands could not be built as intended: not a C13 case (counted)
    Construction(String),
    /// accepted by the compiler but no verdict: runtime error, panic, hang, non-verdict value
    NoVerdict(String),
}

pub struct CaseResult {
    pub obs: Obs,
    pub expected: Option<bool>,
    pub program: String,
}

impl CaseResult {
    pub fn fails(&self) -> bool {
        match (&self.obs, self.expected) {
            (Obs::Verdict(v), Some(e)) => *v != e,
            (Obs::NoVerdict(_), _) => true,
            _ => false,
        }
    }
}

/// Check (by rendering) that the constructed operands are the intended values.
pub fn check_construction(case: &Case) -> Result<(), String> {
    let k = n_built(case.form);
    let sc = build_script(&case.ops, k);
    for i in 0..k {
        let fin = var_ref(VAR_NAMES[i], true);
        match run_script(case.engine, &sc, &fin) {
            Ran::Value(s) => {
                let want = rendered(&case.ops[i].v);
                if s != want {
                    return Err(format!("operand {} renders as {} instead of {}", VAR_NAMES[i], s, want));
                }
            }
            other => return Err(format!("operand {} could not be built: {:?}", VAR_NAMES[i], other)),
        }
    }
    Ok(())
}

/// Evaluate one case in isolation (used by the shrinker, the replay, and to confirm bulk results).
pub fn eval_case(case: &Case) -> CaseResult {
    let (sc, fin) = case_script(case);
    let mut program = sc.lines.join("\n");
    if !program.is_empty() {
        program.push('\n');
    }
    program.push_str(&fin);
    let exp = expected(case.form, &case.ops);
    let ran = run_script(case.engine, &sc, &fin);
    let obs = match ran {
        Ran::Value(s) => match parse_verdict(&s) {
            Some(v) => {
                if Some(v) != exp && exp.is_some() {
                    // before blaming equality, make sure the operands are what they should be
                    match check_construction(case) {
                        Ok(()) => Obs::Verdict(v),
                        Err(e) => Obs::Construction(e),
                    }
                } else {
                    Obs::Verdict(v)
                }
            }
            None => Obs::NoVerdict(format!("the match evaluated to {}", s)),
        },
        Ran::Rejected(e) => Obs::Rejected(e),
        Ran::Setup(e) => Obs::Construction(e),
        Ran::RuntimeError(e) => match check_construction(case) {
            Ok(()) => Obs::NoVerdict(format!("runtime error {}", e)),
            Err(c) => Obs::Construction(c),
        },
        Ran::Broken(e) => match check_construction(case) {
            Ok(()) => Obs::NoVerdict(format!("broken: {}", e)),
            Err(c) => Obs::Construction(c),
        },
    };
    CaseResult { obs, expected: exp, program }
}

// ---------------------------------------------------------------------------------------------
// Text / JSON

pub fn operand_text(o: &Operand) -> String {
    format!("{} via {}", show(&o.v), o.path.name())
}

pub fn case_signature(case: &Case) -> String {
    let ops: Vec<String> = match case.form {
        Form::LitPat | Form::SibLit => vec![operand_text(&case.ops[0]), format!("={}", show(&case.ops[1].v))],
        f => case.ops.iter().take(f.arity()).map(operand_text).collect(),
    };
    format!("{} {} | {}", case.engine.name(), case.form.name(), ops.join(" | "))
}

pub fn case_to_json(case: &Case) -> J {
    json!({
        "engine": "c13",
        "kind": "case",
        "run_on": case.engine.name(),
        "form": case.form.name(),
        "operands": case.ops.iter().map(|o| json!({"value": to_json(&o.v), "path": o.path.name()})).collect::<Vec<_>>(),
    })
}

pub fn case_from_json(j: &J) -> Result<Case, String> {
    let engine = Engine::from_name(j["run_on"].as_str().unwrap_or("")).ok_or("bad run_on")?;
    let form = Form::from_name(j["form"].as_str().unwrap_or("")).ok_or("bad form")?;
    let mut ops = vec![];
    for o in j["operands"].as_array().ok_or("no operands")? {
        ops.push(Operand {
            v: from_json(&o["value"])?,
            path: Path::from_name(o["path"].as_str().unwrap_or("")).ok_or("bad path")?,
        });
    }
    Ok(Case { engine, form, ops })
}

// ---------------------------------------------------------------------------------------------
// Failing inputs with their bulk context

/// A failing input found in a session, with the session context needed to re-run it verbatim.
#[derive(Clone, Debug)]
pub struct Context {
    /// 0 = Engine 1 (one program), otherwise the number of workers of the REPL session
    pub workers: usize,
    pub modules: Vec<(String, String)>,
    pub lines: Vec<String>,
    pub fin: String,
    pub index: usize,
    pub count: usize,
}

pub struct Failing {
    pub case: Case,
    pub context: Option<Context>,
}


/// Re-run a recorded session context verbatim; returns the verdict at `index`.
pub fn rerun_context(c: &Context) -> Result<Option<bool>, String> {
    let ran = if c.workers == 0 { run_e1(&c.lines, &c.fin, &c.modules) } else { run_e2(c.workers, &c.lines, &c.fin, &c.modules) };
    match ran {
        Ran::Value(s) => Ok(parse_verdicts(&s, c.count).map(|v| v[c.index])),
        other => Err(format!("{:?}", other)),
    }
}

pub fn context_to_json(c: &Context) -> J {
    json!({
        "workers": c.workers,
        "modules": c.modules.iter().map(|(n, s)| json!([n, s])).collect::<Vec<_>>(),
        "lines": c.lines,
        "final": c.fin,
        "index": c.index,
        "count": c.count,
    })
}

pub fn context_from_json(j: &J) -> Result<Context, String> {
    Ok(Context {
        workers: j["workers"].as_u64().ok_or("workers")? as usize,
        modules: j["modules"]
            .as_array()
            .ok_or("modules")?
            .iter()
            .map(|m| (m[0].as_str().unwrap_or("").to_string(), m[1].as_str().unwrap_or("").to_string()))
            .collect(),
        lines: j["lines"].as_array().ok_or("lines")?.iter().filter_map(|l| l.as_str().map(|s| s.to_string())).collect(),
        fin: j["final"].as_str().ok_or("final")?.to_string(),
        index: j["index"].as_u64().ok_or("index")? as usize,
        count: j["count"].as_u64().ok_or("count")? as usize,
    })
}
