//! C13 Engine 1: every ordered pair of (value, path) operands as ONE program run by
//! `execute_bytecode_sync` (fresh `Program`, single process).

use super::case::*;
use super::paths::*;
use super::vals::*;
use crate::infra::Budget;
use rayon::prelude::*;
use serde_json::{Value as J, json};

pub const NIL: u8 = 0;
pub const OK: u8 = 1;
pub const REJ: u8 = 2;
pub const NOVERDICT: u8 = 3;
pub const SKIP: u8 = 4;
pub const CONSTR: u8 = 5;

pub fn code_of(v: bool) -> u8 {
    if v { OK } else { NIL }
}

#[derive(Default)]
pub struct Counters {
    pub programs: u64,
    pub evaluations: u64,
    pub judged: u64,
    pub rejected: u64,
    pub abstained: u64,
    pub no_verdict: u64,
    pub skipped: u64,
    pub nontrivial: u64,
    pub expected_equal_cross_path: u64,
    pub expected_unequal_same_kind: u64,
    pub verdict_ok: u64,
    pub verdict_nil: u64,
}

impl Counters {
    pub fn add(&mut self, o: &Counters) {
        self.programs += o.programs;
        self.evaluations += o.evaluations;
        self.judged += o.judged;
        self.rejected += o.rejected;
        self.abstained += o.abstained;
        self.no_verdict += o.no_verdict;
        self.skipped += o.skipped;
        self.nontrivial += o.nontrivial;
        self.expected_equal_cross_path += o.expected_equal_cross_path;
        self.expected_unequal_same_kind += o.expected_unequal_same_kind;
        self.verdict_ok += o.verdict_ok;
        self.verdict_nil += o.verdict_nil;
    }
    pub fn json(&self) -> J {
        json!({
            "programs_or_lines": self.programs,
            "evaluations": self.evaluations,
            "judged": self.judged,
            "rejected_by_compiler_not_judged": self.rejected,
            "abstained_documentation_undetermined": self.abstained,
            "no_verdict": self.no_verdict,
            "skipped_by_budget": self.skipped,
            "distinct_nontrivial": self.nontrivial,
            "expected_equal_with_different_paths": self.expected_equal_cross_path,
            "expected_unequal_same_kind": self.expected_unequal_same_kind,
            "verdicts_ok": self.verdict_ok,
            "verdicts_nil": self.verdict_nil,
        })
    }
    /// Book-keeping for one evaluated cell. Returns true when the cell is a failing input.
    pub fn record(&mut self, code: u8, form: Form, ops: &[Operand], same_operand: bool) -> bool {
        self.evaluations += 1;
        match code {
            REJ => {
                self.rejected += 1;
                return false;
            }
            SKIP => {
                self.skipped += 1;
                self.evaluations -= 1;
                return false;
            }
            CONSTR => return false,
            NOVERDICT => {
                self.no_verdict += 1;
                return true;
            }
            _ => {}
        }
        if code == OK {
            self.verdict_ok += 1;
        } else {
            self.verdict_nil += 1;
        }
        let exp = expected(form, ops);
        let Some(exp) = exp else {
            self.abstained += 1;
            return false;
        };
        self.judged += 1;
        // non-trivial: the two sides are not the same (value, path) text and are of the same kind,
        // so the verdict depends on content and on how the runtime represents the two constructions
        let same_kind = ops.len() >= 2 && ops[0].v.kind() == ops[1].v.kind();
        if !same_operand && same_kind {
            self.nontrivial += 1;
            if exp {
                self.expected_equal_cross_path += 1;
            } else {
                self.expected_unequal_same_kind += 1;
            }
        }
        code_of(exp) != code
    }
}

pub struct Matrix {
    pub n: usize,
    pub pin: Vec<u8>,
    pub rep: Vec<u8>,
}

impl Matrix {
    pub fn new(n: usize) -> Matrix {
        Matrix { n, pin: vec![SKIP; n * n], rep: vec![SKIP; n * n] }
    }
    pub fn get(&self, form: Form, i: usize, j: usize) -> u8 {
        match form {
            Form::Pin => self.pin[i * self.n + j],
            _ => self.rep[i * self.n + j],
        }
    }
}

/// All (value, path) operands of an engine: every value x every applicable path.
pub fn combos(values: &[Val], allow: &dyn Fn(Path) -> bool) -> Vec<Operand> {
    let mut out = vec![];
    for v in values {
        for p in ALL_PATHS {
            if allow(*p) && p.applies(v) {
                out.push(Operand { v: v.clone(), path: *p });
            }
        }
    }
    out
}

/// Validate (by rendering) that each operand can be built as intended in `engine`; returns the
/// valid ones and the excluded ones with the reason.
pub fn validate(engine: Engine, all: Vec<Operand>) -> (Vec<Operand>, Vec<(Operand, String)>) {
    let res: Vec<Result<(), String>> = all
        .par_iter()
        .map(|o| {
            crate::sim::system::install_panic_recorder();
            let case = Case { engine, form: Form::SelfPin, ops: vec![o.clone()] };
            check_construction(&case)
        })
        .collect();
    let mut ok = vec![];
    let mut bad = vec![];
    for (o, r) in all.into_iter().zip(res) {
        match r {
            Ok(()) => ok.push(o),
            Err(e) => bad.push((o, e)),
        }
    }
    (ok, bad)
}

fn ran_cells(ran: &Ran, n: usize) -> Option<Vec<u8>> {
    match ran {
        Ran::Value(s) => parse_verdicts(s, n).map(|v| v.into_iter().map(code_of).collect()),
        _ => None,
    }
}

fn single_cell(engine: Engine, form: Form, ops: &[Operand]) -> u8 {
    let case = Case { engine, form, ops: ops.to_vec() };
    match eval_case(&case).obs {
        Obs::Verdict(v) => code_of(v),
        Obs::Rejected(_) => REJ,
        Obs::Construction(_) => CONSTR,
        Obs::NoVerdict(_) => NOVERDICT,
    }
}

pub struct E1Out {
    pub ops: Vec<Operand>,
    pub matrix: Matrix,
    pub counters: Counters,
    pub failing: Vec<Failing>,
    pub complete: bool,
    pub samples: Vec<J>,
}

fn batch_exprs(ops: &[Operand], i: usize, js: &[usize]) -> Vec<String> {
    let mut out = vec![];
    for (k, &j) in js.iter().enumerate() {
        let amp = ops[i].v.needs_amp() || ops[j].v.needs_amp();
        // every comparison sits in a block of its own: what the compiler infers from one match
        // must not reach its sibling tuple fields (see Form::SibLit)
        out.push(format!("{{ {} =&b{} }}", var_ref("a", amp), k));
        out.push(format!("{{ [{}, {}] =[x, x] }}", var_ref("a", amp), var_ref(&format!("b{}", k), amp)));
    }
    out
}

/// Pairs: for every operand i and every chunk of `batch` operands j, one program that binds
/// `a` (operand i) and `b0..` (operands j) and evaluates `a =&bk` and `[a, bk] =[xk, xk]` for each.
pub fn run_pairs(ops: &[Operand], batch: usize, budget: &Budget, seed: usize) -> E1Out {
    let n = ops.len();
    let mut order: Vec<usize> = (0..n).collect();
    if n > 0 {
        order.rotate_left(seed % n);
    }
    let all_j: Vec<usize> = (0..n).collect();
    type Row = (usize, Vec<[u8; 2]>, u64, Vec<(usize, Form, Context)>);
    let rows: Vec<Row> = order
        .par_iter()
        .map(|&i| {
            crate::sim::system::install_panic_recorder();
            let mut row = vec![[SKIP, SKIP]; n];
            let mut programs = 0u64;
            let mut ctxs = vec![];
            for js in all_j.chunks(batch) {
                if budget.exhausted() {
                    break;
                }
                let mut names = vec!["a".to_string()];
                let mut operands: Vec<&Operand> = vec![&ops[i]];
                for (k, &j) in js.iter().enumerate() {
                    names.push(format!("b{}", k));
                    operands.push(&ops[j]);
                }
                let sc = build_named(&operands, &names, &[]);
                let exprs = batch_exprs(ops, i, js);
                let fin = format!("[{}]", exprs.join(", "));
                let ran = run_e1_fast(&sc.lines, &fin, &sc.modules);
                programs += 1;
                match ran_cells(&ran, exprs.len()) {
                    Some(c) => {
                        for (k, &j) in js.iter().enumerate() {
                            row[j] = [c[2 * k], c[2 * k + 1]];
                            let pair = [ops[i].clone(), ops[j].clone()];
                            for (f, form) in [Form::Pin, Form::Rep].into_iter().enumerate() {
                                if let Some(e) = expected(form, &pair) {
                                    if code_of(e) != c[2 * k + f] && ctxs.len() < 4 {
                                        ctxs.push((
                                            j,
                                            form,
                                            Context {
                                                workers: 0,
                                                modules: sc.modules.clone(),
                                                lines: sc.lines.clone(),
                                                fin: fin.clone(),
                                                index: 2 * k + f,
                                                count: exprs.len(),
                                            },
                                        ));
                                    }
                                }
                            }
                        }
                    }
                    None => {
                        // attribute per pair and form, in isolation
                        for &j in js {
                            let pair = [ops[i].clone(), ops[j].clone()];
                            row[j] = [
                                single_cell(Engine::E1, Form::Pin, &pair),
                                single_cell(Engine::E1, Form::Rep, &pair),
                            ];
                            programs += 2;
                        }
                    }
                }
            }
            (i, row, programs, ctxs)
        })
        .collect();
    let mut m = Matrix::new(n);
    let mut counters = Counters::default();
    let mut failing = vec![];
    let mut complete = true;
    let mut samples = vec![];
    let mut rows = rows;
    rows.sort_by_key(|r| r.0);
    for (i, row, programs, ctxs) in rows {
        counters.programs += programs;
        let mut ctxs: std::collections::BTreeMap<(usize, Form), Context> =
            ctxs.into_iter().map(|(j, f, c)| ((j, f), c)).collect();
        for j in 0..n {
            m.pin[i * n + j] = row[j][0];
            m.rep[i * n + j] = row[j][1];
            let pair = [ops[i].clone(), ops[j].clone()];
            for (k, form) in [Form::Pin, Form::Rep].into_iter().enumerate() {
                if row[j][k] == SKIP {
                    complete = false;
                }
                if counters.record(row[j][k], form, &pair, i == j) {
                    failing.push(Failing {
                        case: Case { engine: Engine::E1, form, ops: pair.to_vec() },
                        context: ctxs.remove(&(j, form)),
                    });
                }
            }
        }
    }
    // samples: a few written-out non-trivial cases (fixed picks)
    for (i, j) in sample_picks(ops) {
        let case = Case { engine: Engine::E1, form: Form::Pin, ops: vec![ops[i].clone(), ops[j].clone()] };
        let r = eval_case(&case);
        samples.push(json!({
            "case": case_signature(&case),
            "program": r.program,
            "observed": format!("{:?}", r.obs),
            "expected": r.expected.map(|e| if e { "Ok" } else { "[]" }),
        }));
    }
    E1Out { ops: ops.to_vec(), matrix: m, counters, failing, complete, samples }
}

/// A few fixed, interesting index pairs for the evidence samples.
fn sample_picks(ops: &[Operand]) -> Vec<(usize, usize)> {
    let find = |pred: &dyn Fn(&Operand) -> bool| ops.iter().position(|o| pred(o));
    let mut out = vec![];
    let heapbin = find(&|o| matches!(&o.v, Val::Bin(b) if b.len() == 2) && o.path == Path::Comp);
    let constbin = find(&|o| matches!(&o.v, Val::Bin(b) if b.len() == 2) && o.path == Path::Lit);
    if let (Some(a), Some(b)) = (heapbin, constbin) {
        out.push((a, b));
    }
    let is_axy = |o: &Operand| show(&o.v) == "A[x: 1, y: 0x00]";
    let gmk = find(&|o| is_axy(o) && o.path == Path::Gmk);
    let uni = find(&|o| is_axy(o) && o.path == Path::Uni);
    if let (Some(a), Some(b)) = (gmk, uni) {
        out.push((a, b));
    }
    let yx = find(&|o| show(&o.v) == "A[y: 1, x: 0x00]" && o.path == Path::Spread);
    if let (Some(a), Some(b)) = (gmk, yx) {
        out.push((a, b));
    }
    let clo1 = find(&|o| matches!(&o.v, Val::Fun(3, c) if c[0] == int("1")) && o.path == Path::Lit);
    let clo1f = find(&|o| matches!(&o.v, Val::Fun(3, c) if c[0] == int("1")) && o.path == Path::Fld);
    if let (Some(a), Some(b)) = (clo1, clo1f) {
        out.push((a, b));
    }
    let nil_l = find(&|o| o.v.is_nil() && o.path == Path::Lit);
    if let Some(a) = nil_l {
        out.push((a, a));
    }
    out
}

/// Self forms and literal-pattern forms, one program per operand (patterns in chunks).
pub fn run_unary(ops: &[Operand], patterns: &[Val], budget: &Budget) -> (Counters, Vec<Case>, bool) {
    let names: Vec<String> = VAR_NAMES.iter().map(|s| s.to_string()).collect();
    let chunk = 16usize;
    let res: Vec<(Counters, Vec<Case>, bool)> = ops
        .par_iter()
        .map(|o| {
            crate::sim::system::install_panic_recorder();
            let mut c = Counters::default();
            let mut failing = vec![];
            if budget.exhausted() {
                return (c, failing, false);
            }
            let one = [o.clone()];
            let sc = build_script(&one, 1);
            // self forms
            let fin = format!(
                "[{{ {} }}, {{ {} }}]",
                form_expr(Form::SelfPin, &one, &names),
                form_expr(Form::SelfRep, &one, &names)
            );
            let ran = run_e1_fast(&sc.lines, &fin, &sc.modules);
            c.programs += 1;
            let cells = ran_cells(&ran, 2).unwrap_or_else(|| {
                vec![single_cell(Engine::E1, Form::SelfPin, &one), single_cell(Engine::E1, Form::SelfRep, &one)]
            });
            for (k, form) in [Form::SelfPin, Form::SelfRep].into_iter().enumerate() {
                if c.record(cells[k], form, &one, false) {
                    failing.push(Case { engine: Engine::E1, form, ops: one.to_vec() });
                }
            }
            // literal patterns
            for ch in patterns.chunks(chunk) {
                let pairs: Vec<[Operand; 2]> = ch
                    .iter()
                    .map(|w| [o.clone(), Operand { v: w.clone(), path: Path::Lit }])
                    .collect();
                let mut forms = vec![Form::LitPat];
                // the sibling-match probe only where the static type can matter: union-typed
                // operands, with the literal-typed ones as controls
                if matches!(o.path, Path::Uni | Path::Lit) {
                    forms.push(Form::SibLit);
                }
                for form in forms {
                    let fin = format!(
                        "[{}]",
                        pairs.iter().map(|p| format!("{{ {} }}", form_expr(form, p, &names))).collect::<Vec<_>>().join(", ")
                    );
                    let ran = run_e1_fast(&sc.lines, &fin, &sc.modules);
                    c.programs += 1;
                    let cells = ran_cells(&ran, pairs.len())
                        .unwrap_or_else(|| pairs.iter().map(|p| single_cell(Engine::E1, form, p)).collect());
                    for (p, cell) in pairs.iter().zip(cells) {
                        let same = o.path == Path::Lit && o.v == p[1].v;
                        if c.record(cell, form, p, same) {
                            failing.push(Case { engine: Engine::E1, form, ops: p.to_vec() });
                        }
                    }
                }
            }
            (c, failing, true)
        })
        .collect();
    let mut c = Counters::default();
    let mut failing = vec![];
    let mut complete = true;
    for (ci, f, done) in res {
        c.add(&ci);
        failing.extend(f);
        complete &= done;
    }
    (c, failing, complete)
}

/// Algebraic laws on the verdict matrix, independent of the host oracle: reflexive on the
/// diagonal, symmetric, transitive. Returns (checked counts, violating cases not already failing).
pub struct Laws {
    pub capped: bool,
    pub reflexive_checked: u64,
    pub symmetric_checked: u64,
    pub transitive_checked: u64,
    pub violations: Vec<(String, Vec<usize>, Form)>,
}

pub fn laws(m: &Matrix) -> Laws {
    let n = m.n;
    let mut out = Laws { capped: false, reflexive_checked: 0, symmetric_checked: 0, transitive_checked: 0, violations: vec![] };
    for form in [Form::Pin, Form::Rep] {
        let judged = |c: u8| c == OK || c == NIL;
        let eq_sets: Vec<Vec<usize>> =
            (0..n).map(|i| (0..n).filter(|&j| m.get(form, i, j) == OK).collect()).collect();
        for i in 0..n {
            let d = m.get(form, i, i);
            if judged(d) {
                out.reflexive_checked += 1;
                if d != OK && out.violations.len() < 1000 {
                    out.violations.push(("reflexivity".into(), vec![i, i], form));
                }
            }
            for j in (i + 1)..n {
                let (x, y) = (m.get(form, i, j), m.get(form, j, i));
                if judged(x) && judged(y) {
                    out.symmetric_checked += 1;
                    if x != y && out.violations.len() < 1000 {
                        out.violations.push(("symmetry".into(), vec![i, j], form));
                    }
                }
            }
            for &j in &eq_sets[i] {
                if out.transitive_checked > 50_000_000 {
                    out.capped = true;
                    break;
                }
                for &k in &eq_sets[j] {
                    let c = m.get(form, i, k);
                    if judged(c) {
                        out.transitive_checked += 1;
                        if c != OK && out.violations.len() < 1000 {
                            out.violations.push(("transitivity".into(), vec![i, j, k], form));
                        }
                    }
                }
            }
        }
    }
    out
}

/// Triples (i, j, k), j < k, the implementation calls equal along the chain i~j, j~k:
/// `[a, b, c] =[x, x, x]`.
pub fn run_triples(ops: &[Operand], m: &Matrix, cap: usize, budget: &Budget) -> (Counters, Vec<Case>, u64, bool) {
    let n = m.n;
    let eq_sets: Vec<Vec<usize>> =
        (0..n).map(|i| (0..n).filter(|&j| m.get(Form::Rep, i, j) == OK).collect()).collect();
    let mut triples: Vec<(usize, usize, usize)> = vec![];
    let mut capped = false;
    'outer: for i in 0..n {
        for &j in &eq_sets[i] {
            for &k in &eq_sets[j] {
                // the form treats its 2nd and 3rd operand alike (both are compared with the 1st), so
                // only j < k is enumerated
                if i != j && i != k && j < k {
                    if triples.len() >= cap {
                        capped = true;
                        break 'outer;
                    }
                    triples.push((i, j, k));
                }
            }
        }
    }
    let names: Vec<String> = VAR_NAMES.iter().map(|s| s.to_string()).collect();
    let res: Vec<(u8, bool)> = triples
        .par_iter()
        .map(|&(i, j, k)| {
            crate::sim::system::install_panic_recorder();
            if budget.exhausted() {
                return (SKIP, false);
            }
            let t = [ops[i].clone(), ops[j].clone(), ops[k].clone()];
            let sc = build_script(&t, 3);
            let fin = form_expr(Form::Rep3, &t, &names);
            let ran = run_e1_fast(&sc.lines, &fin, &sc.modules);
            match ran_cells(&ran, 1) {
                Some(c) => (c[0], true),
                None => (single_cell(Engine::E1, Form::Rep3, &t), true),
            }
        })
        .collect();
    let mut c = Counters::default();
    let mut failing = vec![];
    let mut complete = !capped;
    for (&(i, j, k), (cell, done)) in triples.iter().zip(res) {
        complete &= done;
        c.programs += done as u64;
        let t = [ops[i].clone(), ops[j].clone(), ops[k].clone()];
        if c.record(cell, Form::Rep3, &t, false) {
            failing.push(Case { engine: Engine::E1, form: Form::Rep3, ops: t.to_vec() });
        }
    }
    (c, failing, triples.len() as u64, complete)
}
