//! C13 construction paths: how a value of the universe gets built before it is compared.

use super::vals::*;

#[derive(Clone, Copy, Debug, PartialEq, Eq, Hash, PartialOrd, Ord)]
pub enum Path {
    /// written as a literal (functions / refs / processes: the prelude variable)
    Lit,
    /// every int / binary leaf computed by a builtin (binaries end up on the heap); nil / Ok from a match
    Comp,
    /// a binary of three or more bytes concatenated at another split point than `Comp` uses (two
    /// unflattened ropes with the same bytes and different shapes)
    Comp2,
    /// rebuilt by spread from a tuple with another name: `A[...t]`
    Spread,
    /// first field spread from a 1-tuple, second written: `A[...t, f]`
    SpreadTail,
    /// returned from the generic identity `#<'t>'t { =x => x }`
    Gid,
    /// outermost tuple layer built inside a generic function from its type-variable-typed parameters
    Gmk,
    /// returned from a function whose result type is a union
    Uni,
    /// tuple whose every field value comes out of a union-typed variable (so the construction
    /// site infers union field types and the tuple gets a type id of its own)
    Ufld,
    /// taken as a field of a larger tuple
    Fld,
    /// imported from an in-memory module (evaluated at compile time)
    Mod,
    /// captured in a closure and returned by it
    Clo,
    /// sent to another process as a message (typed receive), returned by that process, awaited
    Msg,
    /// built inside another process, returned by it, awaited
    Rem,
    /// captured by a spawned process, returned by it, awaited
    Cap,
    /// `&.` evaluated inside the spawned process p3 and returned by it
    SelfRet,
    /// `&.` evaluated on a REPL line of its own
    SelfLine,
}

pub const ALL_PATHS: &[Path] = &[
    Path::Lit,
    Path::Comp,
    Path::Comp2,
    Path::Spread,
    Path::SpreadTail,
    Path::Gid,
    Path::Gmk,
    Path::Uni,
    Path::Ufld,
    Path::Fld,
    Path::Mod,
    Path::Clo,
    Path::Msg,
    Path::Rem,
    Path::Cap,
    Path::SelfRet,
    Path::SelfLine,
];

impl Path {
    pub fn name(self) -> &'static str {
        match self {
            Path::Lit => "literal",
            Path::Comp => "computed",
            Path::Comp2 => "computed-other-split",
            Path::Spread => "spread",
            Path::SpreadTail => "spread+field",
            Path::Gid => "generic-identity",
            Path::Gmk => "generic-constructor",
            Path::Uni => "union-result",
            Path::Ufld => "union-typed-fields",
            Path::Fld => "field-of-tuple",
            Path::Mod => "module-import",
            Path::Clo => "closure-capture",
            Path::Msg => "message",
            Path::Rem => "built-in-other-process",
            Path::Cap => "captured-by-process",
            Path::SelfRet => "self-returned",
            Path::SelfLine => "self-on-repl-line",
        }
    }
    pub fn from_name(s: &str) -> Option<Path> {
        ALL_PATHS.iter().copied().find(|p| p.name() == s)
    }
    /// Needs the multi-process runtime (Engine 2 only).
    pub fn remote(self) -> bool {
        matches!(self, Path::Msg | Path::Rem | Path::Cap | Path::SelfRet | Path::SelfLine)
    }
    pub fn applies(self, v: &Val) -> bool {
        let repl = matches!(v, Val::Proc(PROC_REPL));
        let arity = match v {
            Val::Tup(_, f) => Some(f.len()),
            _ => None,
        };
        match self {
            Path::Lit | Path::Gid | Path::Uni | Path::Fld | Path::Clo | Path::Rem | Path::Cap => !repl,
            Path::Comp => comp(v).is_some(),
            Path::Comp2 => matches!(v, Val::Bin(b) if b.len() >= 3),
            Path::Spread => matches!(arity, Some(n) if n >= 1),
            Path::SpreadTail => arity == Some(2),
            Path::Gmk => matches!(arity, Some(1) | Some(2)),
            Path::Ufld => match v {
                Val::Tup(_, f) => !f.is_empty() && f.iter().all(|(_, x)| !x.needs_amp()),
                _ => false,
            },
            Path::Mod => v.is_data() || matches!(v, Val::Fun(FUN_FROM_MODULE, c) if matches!(&c[0], Val::Int(s) if s == "1" || s == "2")),
            Path::Msg => !repl && ty(v).is_some(),
            Path::SelfRet => matches!(v, Val::Proc(PROC_SELFRET)),
            Path::SelfLine => repl,
        }
    }
}

/// How the `Uni` path is realised by the caller: `<index> <sel>`.
#[derive(Clone, Debug)]
pub struct UniRef {
    pub sel: String,
    pub index: usize,
}

pub struct Built {
    /// lines evaluated before the binding
    pub setup: Vec<String>,
    /// the expression bound to the operand variable
    pub expr: String,
    /// in-memory modules needed: (name, source)
    pub modules: Vec<(String, String)>,
}

fn field_text(label: &Option<String>, text: String) -> String {
    match label {
        Some(l) => format!("{}: {}", l, text),
        None => text,
    }
}

fn other_name(n: &Option<String>) -> String {
    match n.as_deref() {
        Some("B") => "A".to_string(),
        _ => "B".to_string(),
    }
}

/// Code that builds `v` along `path`. `tag` makes helper names unique.
pub fn build(v: &Val, path: Path, tag: &str, uni: Option<&UniRef>) -> Built {
    let l = lit(v);
    let amp = if v.needs_amp() { "&" } else { "" };
    let mut b = Built { setup: vec![], expr: String::new(), modules: vec![] };
    match path {
        Path::Lit => b.expr = l,
        Path::Comp => b.expr = comp(v).expect("comp applies"),
        Path::Comp2 => {
            let Val::Bin(bytes) = v else { unreachable!() };
            let n = bytes.len();
            b.expr = format!("[{}, {}] __binary_concat__", lit(&Val::Bin(bytes[..n - 1].to_vec())), lit(&Val::Bin(bytes[n - 1..].to_vec())));
        }
        Path::Spread => {
            let Val::Tup(n, f) = v else { unreachable!() };
            let src = Val::Tup(Some(other_name(n)), f.clone());
            b.setup.push(format!("t{} = {}", tag, lit(&src)));
            b.expr = format!("{}[...t{}]", n.clone().unwrap_or_default(), tag);
        }
        Path::SpreadTail => {
            let Val::Tup(n, f) = v else { unreachable!() };
            b.setup.push(format!("t{} = [{}]", tag, field_text(&f[0].0, lit(&f[0].1))));
            b.expr = format!(
                "{}[...t{}, {}]",
                n.clone().unwrap_or_default(),
                tag,
                field_text(&f[1].0, lit(&f[1].1))
            );
        }
        Path::Gid => b.expr = format!("{} gid", l),
        Path::Gmk => {
            let Val::Tup(n, f) = v else { unreachable!() };
            let name = n.clone().unwrap_or_default();
            if f.len() == 1 {
                b.setup.push(format!(
                    "g{} = #<'t>'t {{ =p => {}[{}] }}",
                    tag,
                    name,
                    field_text(&f[0].0, "p".to_string())
                ));
                b.expr = format!("{} g{}", lit(&f[0].1), tag);
            } else {
                b.setup.push(format!(
                    "g{} = #<'t, 'u>['t, 'u] {{ =[p, q] => {}[{}, {}] }}",
                    tag,
                    name,
                    field_text(&f[0].0, "p".to_string()),
                    field_text(&f[1].0, "q".to_string())
                ));
                b.expr = format!("[{}, {}] g{}", lit(&f[0].1), lit(&f[1].1), tag);
            }
        }
        Path::Uni => {
            let u = uni.expect("uni path needs a selector");
            b.expr = format!("{} {}", u.index, u.sel);
        }
        Path::Ufld => {
            let Val::Tup(n, f) = v else { unreachable!() };
            let mut sel = format!("s{} = #'int {{", tag);
            for (k, (_, x)) in f.iter().enumerate() {
                sel.push_str(&format!(" | ={} => {}", k, lit(x)));
            }
            sel.push_str(&format!(" | ={} => 7 | Z[0x07] }}", f.len()));
            b.setup.push(sel);
            let mut parts = vec![];
            for (k, (label, _)) in f.iter().enumerate() {
                b.setup.push(format!("u{}x{} = {} s{}", tag, k, k, tag));
                parts.push(field_text(label, format!("u{}x{}", tag, k)));
            }
            b.expr = format!("{}[{}]", n.clone().unwrap_or_default(), parts.join(", "));
        }
        Path::Fld => {
            b.setup.push(format!("h{} = W[0x07, {}]", tag, l));
            b.expr = format!("{}h{}.1", amp, tag);
        }
        Path::Mod if matches!(v, Val::Fun(..)) => {
            let Val::Fun(_, c) = v else { unreachable!() };
            b.expr = format!("&%{}.c{}", FUN_MODULE.0, lit(&c[0]));
        }
        Path::Mod => {
            let name = format!("c13m{}", tag);
            b.expr = format!("%{}", name);
            b.modules.push((name, l));
        }
        Path::Clo => {
            b.setup.push(format!("c{} = {}", tag, l));
            b.setup.push(format!("k{} = #{{ {}c{} }}", tag, amp, tag));
            b.expr = format!("k{}", tag);
        }
        Path::Msg => {
            b.setup.push(format!("e{} = @{{ !({}) }}", tag, ty(v).expect("msg applies")));
            b.setup.push(format!("{} e{}", l, tag));
            b.expr = format!("!e{}", tag);
        }
        Path::Rem => {
            b.setup.push(format!("e{} = @{{ {} }}", tag, l));
            b.expr = format!("!e{}", tag);
        }
        Path::Cap => {
            b.setup.push(format!("c{} = {}", tag, l));
            b.setup.push(format!("e{} = @{{ {}c{} }}", tag, amp, tag));
            b.expr = format!("!e{}", tag);
        }
        Path::SelfRet => b.expr = "!p3".to_string(),
        Path::SelfLine => b.expr = "&.".to_string(),
    }
    b
}

/// Prelude lines (function definitions, generic identity, ref mintings, process spawns) needed by
/// the given values / paths, in a fixed order.
pub fn prelude_lines(needs: &Needs) -> Vec<String> {
    let mut out = vec![];
    for d in &needs.funs {
        out.push(FUN_DEFS[*d as usize].line.to_string());
    }
    if needs.gid {
        out.push("gid = #<'t>'t { =x => x }".to_string());
    }
    for r in &needs.refs {
        match r {
            0 | 1 => out.push(format!("r{} = %ref", r)),
            // minted inside another process
            _ => {
                out.push(format!("q{} = @{{ %ref }}", r));
                out.push(format!("r{} = !q{}", r, r));
            }
        }
    }
    for p in &needs.procs {
        match p {
            0 | 1 => out.push(format!("p{} = @{{ !'int }}", p)),
            2 => out.push("p2 = @{ !'bin }".to_string()),
            3 => out.push("p3 = @{ &. }".to_string()),
            _ => {}
        }
    }
    out
}

pub fn needs_of(ops: &[(&Val, Path)]) -> Needs {
    let mut n = Needs::default();
    for (v, p) in ops {
        v.needs(&mut n);
        if *p == Path::Gid {
            n.gid = true;
        }
        if *p == Path::SelfRet {
            n.procs.insert(PROC_SELFRET);
        }
    }
    n
}

/// `x` or `&x`, for referencing operand variable `x` holding `v` (also `&` when the partner is
/// callable, because a union-typed operand may then be callable too).
pub fn var_ref(name: &str, amp: bool) -> String {
    if amp { format!("&{}", name) } else { name.to_string() }
}
