//! C13 Engine 2: the same comparison matrix through REPL sessions over the real Environment and
//! `W` workers. Every operand is bound on REPL lines of its own (so the program — and the
//! canonical-shape table — is updated between the construction of the two operands and their
//! comparison), and the remote construction paths (message, other process) are available.

use super::case::*;
use super::e1::{CONSTR, Counters, Matrix, NIL, NOVERDICT, OK, REJ, SKIP, code_of};
use super::paths::*;
use super::vals::*;
use crate::infra::Budget;
use crate::sim::session::Session;
use rayon::prelude::*;
use serde_json::{Value as J, json};
use std::collections::BTreeMap;

pub const NA: u8 = 6;

fn vname(i: usize) -> String {
    format!("v{}", i)
}

/// Second operand of cell (i, j): on the diagonal a second, separately constructed copy.
fn second(i: usize, j: usize) -> String {
    if i == j { format!("w{}", j) } else { vname(j) }
}

struct SessionScript {
    modules: Vec<(String, String)>,
    prelude: Vec<String>,
    /// per operand index: lines (setup + binding)
    defs: BTreeMap<usize, Vec<String>>,
    /// second, separately constructed copies `w<i>` (diagonal jobs)
    dup_defs: BTreeMap<usize, Vec<String>>,
}

fn sel_class(v: &Val) -> &'static str {
    match v {
        Val::Proc(_) => "sp",
        Val::Fun(..) => "sf",
        _ => "sd",
    }
}

fn session_script(ops: &[Operand], idxs: &[usize], dups: &[usize]) -> SessionScript {
    let pairs: Vec<(&Val, Path)> = idxs.iter().map(|&i| (&ops[i].v, ops[i].path)).collect();
    let needs = needs_of(&pairs);
    let mut modules = vec![];
    if needs.funs.contains(&FUN_FROM_MODULE) {
        modules.push((FUN_MODULE.0.to_string(), FUN_MODULE.1.to_string()));
    }
    let mut prelude = prelude_lines(&needs);
    // wide selectors, one per class, over the values of the Uni operands of this session
    let mut classes: BTreeMap<&'static str, Vec<&Val>> = BTreeMap::new();
    for &i in idxs {
        if ops[i].path == Path::Uni {
            let c = classes.entry(sel_class(&ops[i].v)).or_default();
            if !c.contains(&&ops[i].v) {
                c.push(&ops[i].v);
            }
        }
    }
    for (name, vals) in &classes {
        prelude.push(selector_line(name, vals));
    }
    let mut defs = BTreeMap::new();
    for &i in idxs {
        let o = &ops[i];
        let uni = if o.path == Path::Uni {
            let cl = sel_class(&o.v);
            Some(UniRef { sel: cl.to_string(), index: classes[cl].iter().position(|v| **v == o.v).unwrap() })
        } else {
            None
        };
        let b = build(&o.v, o.path, &i.to_string(), uni.as_ref());
        let mut lines = b.setup;
        lines.push(format!("{} = {}", vname(i), b.expr));
        modules.extend(b.modules);
        defs.insert(i, lines);
    }
    let mut dup_defs = BTreeMap::new();
    for &i in dups {
        let o = &ops[i];
        let uni = if o.path == Path::Uni {
            let cl = sel_class(&o.v);
            Some(UniRef { sel: cl.to_string(), index: classes[cl].iter().position(|v| **v == o.v).unwrap() })
        } else {
            None
        };
        let b = build(&o.v, o.path, &format!("{}d", i), uni.as_ref());
        let mut lines = b.setup;
        lines.push(format!("w{} = {}", i, b.expr));
        modules.extend(b.modules);
        dup_defs.insert(i, lines);
    }
    SessionScript { modules, prelude, defs, dup_defs }
}

fn pin_expr(ops: &[Operand], i: usize, j: usize) -> String {
    let amp = ops[i].v.needs_amp() || ops[j].v.needs_amp();
    format!("{{ {} =&{} }}", var_ref(&vname(i), amp), second(i, j))
}

fn rep_expr(ops: &[Operand], i: usize, j: usize, _n: usize) -> String {
    let amp = ops[i].v.needs_amp() || ops[j].v.needs_amp();
    format!("{{ [{}, {}] =[x, x] }}", var_ref(&vname(i), amp), var_ref(&second(i, j), amp))
}

pub struct E2Out {
    pub matrix: Matrix,
    pub counters: Counters,
    pub failing: Vec<Failing>,
    pub complete: bool,
    pub sessions: u64,
    pub restarts: u64,
    pub samples: Vec<J>,
}

struct Live {
    s: Session,
    history: Vec<String>,
}

impl Live {
    fn eval(&mut self, line: &str) -> Ran {
        self.history.push(line.to_string());
        eval_to_ran(self.s.eval(line))
    }
}

/// Open a session and bind every operand of `idxs`; returns the live session and the operands that
/// could not be bound as intended.
fn open(workers: usize, ops: &[Operand], idxs: &[usize], dups: &[usize]) -> Result<(Live, Vec<usize>, Vec<(String, String)>), String> {
    let sc = session_script(ops, idxs, dups);
    let s = new_session(workers, &sc.modules)?;
    let mut live = Live { s, history: vec![] };
    for l in &sc.prelude {
        match live.eval(l) {
            Ran::Value(_) => {}
            other => {
                live.s.close();
                return Err(format!("prelude line `{}`: {:?}", l, other));
            }
        }
    }
    let mut bad = vec![];
    for (&i, lines) in sc.defs.iter().chain(sc.dup_defs.iter()) {
        for l in lines {
            match live.eval(l) {
                Ran::Value(_) => {}
                Ran::Rejected(_) => {
                    bad.push(i);
                    break;
                }
                other => {
                    live.s.close();
                    return Err(format!("definition line `{}`: {:?}", l, other));
                }
            }
        }
    }
    // validate renderings, 16 per line
    let good: Vec<(usize, String)> = idxs
        .iter()
        .map(|&i| (i, vname(i)))
        .chain(dups.iter().map(|&i| (i, format!("w{}", i))))
        .filter(|(i, _)| !bad.contains(i))
        .collect();
    for ch in good.chunks(16) {
        let line = format!("[{}]", ch.iter().map(|(_, n)| format!("&{}", n)).collect::<Vec<_>>().join(", "));
        let want = format!("[{}]", ch.iter().map(|(i, _)| rendered(&ops[*i].v)).collect::<Vec<_>>().join(", "));
        match live.eval(&line) {
            Ran::Value(s) if s == want => {}
            Ran::Value(_) | Ran::Rejected(_) => {
                for (i, name) in ch {
                    let i = *i;
                    match live.eval(&format!("&{}", name)) {
                        Ran::Value(s) if s == rendered(&ops[i].v) => {}
                        Ran::Value(_) | Ran::Rejected(_) => bad.push(i),
                        other => {
                            live.s.close();
                            return Err(format!("rendering {}: {:?}", name, other));
                        }
                    }
                }
            }
            other => {
                live.s.close();
                return Err(format!("rendering line `{}`: {:?}", line, other));
            }
        }
    }
    Ok((live, bad, sc.modules))
}

pub type PairFilter<'a> = &'a (dyn Fn(&Operand, &Operand) -> bool + Sync);

struct JobOut {
    cells: Vec<(usize, usize, u8, u8)>,
    failing_ctx: Vec<(usize, usize, Form, Context)>,
    unary: Counters,
    unary_failing: Vec<Failing>,
    lines: u64,
    restarts: u64,
    complete: bool,
    error: Option<String>,
}

/// One (block, block) job: sessions are re-opened after a runtime error (which kills a session).
fn job(
    workers: usize,
    ops: &[Operand],
    bi: &[usize],
    bj: &[usize],
    diagonal: bool,
    filter: PairFilter,
    patterns: &[Val],
    chunk: usize,
    budget: &Budget,
) -> JobOut {
    let mut out = JobOut {
        cells: vec![],
        failing_ctx: vec![],
        unary: Counters::default(),
        unary_failing: vec![],
        lines: 0,
        restarts: 0,
        complete: true,
        error: None,
    };
    let mut cells: Vec<(usize, usize)> = vec![];
    for &x in bi {
        for &y in bj {
            if filter(&ops[x], &ops[y]) {
                cells.push((x, y));
            }
            if !diagonal && filter(&ops[y], &ops[x]) {
                cells.push((y, x));
            }
        }
    }
    if cells.is_empty() {
        return out;
    }
    let mut idxs: Vec<usize> = bi.iter().chain(bj.iter()).copied().collect();
    idxs.sort();
    idxs.dedup();
    let mut queue: Vec<Vec<(usize, usize)>> = cells.chunks(chunk).map(|c| c.to_vec()).collect();
    queue.reverse();
    let mut unary_done = !diagonal;
    let names: Vec<String> = VAR_NAMES.iter().map(|s| s.to_string()).collect();
    while !queue.is_empty() || !unary_done {
        if budget.exhausted() {
            out.complete = false;
            for ch in &queue {
                for &(i, j) in ch {
                    out.cells.push((i, j, SKIP, SKIP));
                }
            }
            return out;
        }
        if out.restarts > 20 {
            out.error = Some("more than 20 session restarts in one job".into());
            return out;
        }
        let dups: Vec<usize> = if diagonal { bi.to_vec() } else { vec![] };
        let (mut live, bad, modules) = match open(workers, ops, &idxs, &dups) {
            Ok(x) => x,
            Err(e) => {
                out.error = Some(e);
                return out;
            }
        };
        let setup_len = live.history.len();
        let mut dead = false;
        while let Some(ch) = queue.pop() {
            if budget.exhausted() {
                queue.push(ch);
                break;
            }
            let usable: Vec<(usize, usize)> =
                ch.iter().copied().filter(|(i, j)| !bad.contains(i) && !bad.contains(j)).collect();
            for &(i, j) in &ch {
                if bad.contains(&i) || bad.contains(&j) {
                    out.cells.push((i, j, CONSTR, CONSTR));
                }
            }
            if usable.is_empty() {
                continue;
            }
            let exprs: Vec<String> = usable
                .iter()
                .enumerate()
                .flat_map(|(n, &(i, j))| [pin_expr(ops, i, j), rep_expr(ops, i, j, n)])
                .collect();
            let line = format!("[{}]", exprs.join(", "));
            let ran = live.eval(&line);
            out.lines += 1;
            let verdicts = match &ran {
                Ran::Value(s) => parse_verdicts(s, exprs.len()),
                _ => None,
            };
            match verdicts {
                Some(v) => {
                    for (n, &(i, j)) in usable.iter().enumerate() {
                        let (p, r) = (code_of(v[2 * n]), code_of(v[2 * n + 1]));
                        out.cells.push((i, j, p, r));
                        let pair = [ops[i].clone(), ops[j].clone()];
                        for (k, (form, code)) in [(Form::Pin, p), (Form::Rep, r)].into_iter().enumerate() {
                            if let Some(e) = expected(form, &pair) {
                                // (contexts are only witnesses for failures that do not reproduce
                                // alone; a handful per job is enough)
                                if code_of(e) != code && out.failing_ctx.len() < 8 {
                                    out.failing_ctx.push((
                                        i,
                                        j,
                                        form,
                                        Context {
                                            workers,
                                            modules: modules.clone(),
                                            lines: live.history[..setup_len].to_vec(),
                                            fin: line.clone(),
                                            index: 2 * n + k,
                                            count: exprs.len(),
                                        },
                                    ));
                                }
                            }
                        }
                    }
                }
                None => {
                    let alive = matches!(ran, Ran::Rejected(_) | Ran::Value(_));
                    if alive {
                        // attribute per expression, in this session
                        for &(i, j) in &usable {
                            let mut codes = [NOVERDICT, NOVERDICT];
                            for (k, e) in [pin_expr(ops, i, j), rep_expr(ops, i, j, 0)].iter().enumerate() {
                                if dead {
                                    break;
                                }
                                out.lines += 1;
                                codes[k] = match live.eval(e) {
                                    Ran::Value(s) => parse_verdict(&s).map(code_of).unwrap_or(NOVERDICT),
                                    Ran::Rejected(_) => REJ,
                                    _ => {
                                        dead = true;
                                        NOVERDICT
                                    }
                                };
                            }
                            out.cells.push((i, j, codes[0], codes[1]));
                        }
                    } else {
                        dead = true;
                        // the session died: judge these cells in isolation (fresh session each)
                        for &(i, j) in &usable {
                            let pair = vec![ops[i].clone(), ops[j].clone()];
                            let iso = |form| match eval_case(&Case { engine: Engine::E2(workers), form, ops: pair.clone() }).obs {
                                Obs::Verdict(v) => code_of(v),
                                Obs::Rejected(_) => REJ,
                                Obs::Construction(_) => CONSTR,
                                Obs::NoVerdict(_) => NOVERDICT,
                            };
                            out.cells.push((i, j, iso(Form::Pin), iso(Form::Rep)));
                        }
                    }
                    if dead {
                        break;
                    }
                }
            }
        }
        // unary forms on the diagonal job: self-pin, self-rep, literal patterns
        if !dead && !unary_done && !budget.exhausted() {
            for &i in bi {
                if bad.contains(&i) {
                    continue;
                }
                let one = [ops[i].clone()];
                let amp = ops[i].v.needs_amp();
                let me = var_ref(&vname(i), amp);
                let mut exprs = vec![
                    (Form::SelfPin, one.to_vec(), format!("{{ {} =&{} }}", me, vname(i))),
                    (Form::SelfRep, one.to_vec(), format!("{{ [{}, {}] =[x, x] }}", me, me)),
                ];
                for w in patterns {
                    let p = vec![ops[i].clone(), Operand { v: w.clone(), path: Path::Lit }];
                    let e = format!("{{ {} ={} }}", me, pat(w).expect("data pattern"));
                    exprs.push((Form::LitPat, p, e));
                }
                for ch in exprs.chunks(2 * chunk) {
                    let line = format!("[{}]", ch.iter().map(|c| c.2.clone()).collect::<Vec<_>>().join(", "));
                    let ran = live.eval(&line);
                    out.lines += 1;
                    out.unary.programs += 1;
                    let verdicts = match &ran {
                        Ran::Value(s) => parse_verdicts(s, ch.len()),
                        _ => None,
                    };
                    let codes: Vec<u8> = match verdicts {
                        Some(v) => v.into_iter().map(code_of).collect(),
                        None => ch
                            .iter()
                            .map(|(form, o, _)| {
                                match eval_case(&Case { engine: Engine::E2(workers), form: *form, ops: o.clone() }).obs {
                                    Obs::Verdict(v) => code_of(v),
                                    Obs::Rejected(_) => REJ,
                                    Obs::Construction(_) => CONSTR,
                                    Obs::NoVerdict(_) => NOVERDICT,
                                }
                            })
                            .collect(),
                    };
                    if !matches!(ran, Ran::Value(_) | Ran::Rejected(_)) {
                        dead = true;
                    }
                    for (n, ((form, o, _), code)) in ch.iter().zip(codes).enumerate() {
                        let same = *form == Form::LitPat && o[0].path == Path::Lit && o[0].v == o[1].v;
                        if out.unary.record(code, *form, o, same) {
                            let keep_ctx = out.unary_failing.len() < 8;
                            out.unary_failing.push(Failing {
                                case: Case { engine: Engine::E2(workers), form: *form, ops: o.clone() },
                                context: if !keep_ctx { None } else { Some(Context {
                                    workers,
                                    modules: modules.clone(),
                                    lines: live.history[..setup_len].to_vec(),
                                    fin: line.clone(),
                                    index: n,
                                    count: ch.len(),
                                }) },
                            });
                        }
                    }
                    if dead {
                        break;
                    }
                }
                if dead {
                    break;
                }
            }
            if !dead {
                unary_done = true;
            } else {
                // unary forms are not retried after a session death; the pair cells are
                unary_done = true;
                out.complete = false;
            }
        } else if budget.exhausted() {
            unary_done = true;
            out.complete = false;
        }
        live.s.close();
        if dead {
            out.restarts += 1;
        }
    }
    out
}

/// The whole matrix: blocks of `block` operands, one job per unordered pair of blocks.
pub fn run_bulk(
    workers: usize,
    ops: &[Operand],
    filter: PairFilter,
    patterns: &[Val],
    block: usize,
    chunk: usize,
    budget: &Budget,
    seed: usize,
) -> Result<E2Out, String> {
    let n = ops.len();
    let blocks: Vec<Vec<usize>> = (0..n).collect::<Vec<_>>().chunks(block).map(|c| c.to_vec()).collect();
    let mut jobs: Vec<(usize, usize)> = vec![];
    for a in 0..blocks.len() {
        for b in a..blocks.len() {
            jobs.push((a, b));
        }
    }
    if !jobs.is_empty() {
        let k = seed % jobs.len();
        jobs.rotate_left(k);
    }
    let outs: Vec<((usize, usize), JobOut)> = jobs
        .par_iter()
        .map(|&(a, b)| {
            crate::sim::system::install_panic_recorder();
            ((a, b), job(workers, ops, &blocks[a], &blocks[b], a == b, filter, patterns, chunk, budget))
        })
        .collect();
    let mut outs = outs;
    outs.sort_by_key(|o| o.0);
    let mut m = Matrix::new(n);
    m.pin.iter_mut().for_each(|c| *c = NA);
    m.rep.iter_mut().for_each(|c| *c = NA);
    let mut counters = Counters::default();
    let mut failing = vec![];
    let mut complete = true;
    let mut sessions = 0u64;
    let mut restarts = 0u64;
    for (_, o) in outs {
        if let Some(e) = o.error {
            return Err(format!("engine 2 (W={}): {}", workers, e));
        }
        complete &= o.complete;
        counters.programs += o.lines;
        restarts += o.restarts;
        if o.lines > 0 {
            sessions += 1 + o.restarts;
        }
        let ctx: BTreeMap<(usize, usize, Form), Context> =
            o.failing_ctx.into_iter().map(|(i, j, f, c)| ((i, j, f), c)).collect();
        for (i, j, p, r) in o.cells {
            m.pin[i * n + j] = p;
            m.rep[i * n + j] = r;
            let pair = [ops[i].clone(), ops[j].clone()];
            for (form, code) in [(Form::Pin, p), (Form::Rep, r)] {
                if code == SKIP {
                    complete = false;
                }
                if counters.record(code, form, &pair, i == j) {
                    failing.push(Failing {
                        case: Case { engine: Engine::E2(workers), form, ops: pair.to_vec() },
                        context: ctx.get(&(i, j, form)).cloned(),
                    });
                }
            }
        }
        counters.add(&o.unary);
        failing.extend(o.unary_failing);
    }
    Ok(E2Out { matrix: m, counters, failing, complete, sessions, restarts, samples: vec![] })
}

