//! C13 shrinker: reduce a failing (engine, form, operands) case to a minimal core. Deterministic:
//! candidates are tried in a fixed order, a candidate is kept only if it still fails and is
//! strictly smaller, until a fixpoint.

use super::case::*;
use super::paths::*;
use super::vals::*;
use std::collections::HashMap;
use std::sync::Mutex;

pub struct Memo {
    map: Mutex<HashMap<Case, bool>>,
}

impl Memo {
    pub fn new() -> Memo {
        Memo { map: Mutex::new(HashMap::new()) }
    }
    pub fn fails(&self, c: &Case) -> bool {
        if let Some(v) = self.map.lock().unwrap().get(c) {
            return *v;
        }
        let v = eval_case(c).fails();
        self.map.lock().unwrap().insert(c.clone(), v);
        v
    }
}

fn path_rank(p: Path) -> usize {
    ALL_PATHS.iter().position(|q| *q == p).unwrap_or(0)
}

fn form_rank(f: Form) -> usize {
    match f {
        Form::Pin => 0,
        Form::Rep => 1,
        Form::LitPat => 2,
        Form::SelfPin => 3,
        Form::SelfRep => 4,
        Form::Rep3 => 5,
        Form::SibLit => 6,
    }
}

fn engine_rank(e: Engine) -> usize {
    match e {
        Engine::E1 => 0,
        Engine::E2(w) => w,
    }
}

pub fn measure(c: &Case) -> usize {
    1000 * engine_rank(c.engine)
        + 100 * form_rank(c.form)
        + c.ops.iter().map(|o| 10 * path_rank(o.path) + 20 * o.v.size()).sum::<usize>()
}

/// Can the case run in Engine 1 (single process, refs r0 / r1 only)?
pub fn e1_capable(c: &Case) -> bool {
    c.ops.iter().all(|o| {
        let mut n = Needs::default();
        o.v.needs(&mut n);
        !o.path.remote() && n.procs.is_empty() && n.refs.iter().all(|r| *r < 2)
    })
}

/// Simpler values of the same sort, simplest first.
pub fn value_candidates(v: &Val) -> Vec<Val> {
    let mut out = vec![];
    match v {
        Val::Int(s) => {
            if s != "0" {
                out.push(int("0"));
            }
            if s != "0" && s != "1" {
                out.push(int("1"));
            }
        }
        Val::Bin(b) => {
            if !b.is_empty() {
                out.push(bin(&[]));
            }
            if b.len() > 1 {
                out.push(bin(&b[..1]));
            }
        }
        Val::Tup(n, f) => {
            // nil is never proposed for a non-nil value: nil is the language's failure value and has
            // defects of its own, so shrinking towards it would merge unrelated root causes
            let ok = |v: &Val| !v.is_nil();
            // hoist a field
            for (_, x) in f {
                if ok(x) {
                    out.push(x.clone());
                }
            }
            // simplest name
            if matches!(n.as_deref(), Some(x) if x != "A") {
                out.push(Val::Tup(Some("A".to_string()), f.clone()));
            }
            // drop the name
            if n.is_some() && !f.is_empty() {
                out.push(Val::Tup(None, f.clone()));
            }
            // drop a field
            for i in 0..f.len() {
                let mut g = f.clone();
                g.remove(i);
                let c = Val::Tup(n.clone(), g);
                if ok(&c) {
                    out.push(c);
                }
            }
            // drop a label
            for i in 0..f.len() {
                if f[i].0.is_some() {
                    let mut g = f.clone();
                    g[i].0 = None;
                    out.push(Val::Tup(n.clone(), g));
                }
            }
            // simplify a field: the globally simplest term, then simpler terms of its own sort
            for i in 0..f.len() {
                let mut cands = vec![];
                if f[i].1 != int("0") {
                    cands.push(int("0"));
                }
                cands.extend(value_candidates(&f[i].1));
                for c in cands {
                    let mut g = f.clone();
                    g[i].1 = c;
                    out.push(Val::Tup(n.clone(), g));
                }
            }
        }
        Val::Fun(d, c) => {
            if *d != 0 {
                out.push(Val::Fun(0, vec![]));
            }
            if c.len() == 1 {
                let allowed = |x: &Val| match d {
                    3 | 6 => matches!(x, Val::Int(_)),
                    4 => matches!(x, Val::Bin(_)),
                    _ => true,
                };
                for x in value_candidates(&c[0]) {
                    if allowed(&x) {
                        out.push(Val::Fun(*d, vec![x]));
                    }
                }
            }
        }
        Val::Ref(k) => {
            if *k > 1 {
                out.push(Val::Ref(0));
            }
        }
        Val::Proc(k) => {
            if *k != 0 && *k != PROC_REPL {
                out.push(Val::Proc(0));
            }
        }
    }
    out
}

fn candidates(c: &Case) -> Vec<Case> {
    let mut out = vec![];
    // 1. engine
    match c.engine {
        Engine::E2(w) => {
            if e1_capable(c) {
                out.push(Case { engine: Engine::E1, ..c.clone() });
            }
            if w > 1 {
                out.push(Case { engine: Engine::E2(1), ..c.clone() });
                if w > 2 {
                    out.push(Case { engine: Engine::E2(2), ..c.clone() });
                }
            }
        }
        Engine::E1 => {}
    }
    // 2. form
    match c.form {
        Form::Rep3 => {
            for (i, j) in [(0, 1), (0, 2), (1, 2)] {
                out.push(Case { engine: c.engine, form: Form::Rep, ops: vec![c.ops[i].clone(), c.ops[j].clone()] });
            }
        }
        Form::SelfPin => out.push(Case { engine: c.engine, form: Form::Pin, ops: vec![c.ops[0].clone(), c.ops[0].clone()] }),
        Form::SelfRep => {
            out.push(Case { engine: c.engine, form: Form::Rep, ops: vec![c.ops[0].clone(), c.ops[0].clone()] });
        }
        // pin, repeated binder and literal pattern are different mechanisms: never converted into
        // each other
        Form::Rep | Form::LitPat => {}
        Form::SibLit => out.push(Case { form: Form::LitPat, ..c.clone() }),
        Form::Pin => {}
    }
    // 3. paths -> literal
    let built = n_built(c.form);
    for i in 0..built {
        for p in ALL_PATHS {
            if path_rank(*p) < path_rank(c.ops[i].path) && p.applies(&c.ops[i].v) && (!p.remote() || c.engine != Engine::E1) {
                let mut d = c.clone();
                d.ops[i].path = *p;
                out.push(d);
            }
        }
    }
    // 4. values: jointly (same edit on all operands holding the same value), then one at a time
    let n = c.form.arity();
    let all_same = (1..n).all(|i| c.ops[i].v == c.ops[0].v);
    if n > 1 && all_same {
        for v in value_candidates(&c.ops[0].v) {
            let mut d = c.clone();
            let mut ok = true;
            for i in 0..n {
                d.ops[i].v = v.clone();
                if i < built && !d.ops[i].path.applies(&v) {
                    ok = false;
                }
            }
            if matches!(c.form, Form::LitPat | Form::SibLit) && !v.is_data() {
                ok = false;
            }
            if ok {
                out.push(d);
            }
        }
    }
    // ... in parallel: the same structural edit on two tuples of the same arity
    if n == 2 {
        if let (Val::Tup(n0, f0), Val::Tup(n1, f1)) = (&c.ops[0].v, &c.ops[1].v) {
            if f0.len() == f1.len() && !all_same {
                let mut edits: Vec<(Val, Val)> = vec![];
                for k in 0..f0.len() {
                    edits.push((f0[k].1.clone(), f1[k].1.clone()));
                    let (mut g0, mut g1) = (f0.clone(), f1.clone());
                    g0.remove(k);
                    g1.remove(k);
                    edits.push((Val::Tup(n0.clone(), g0), Val::Tup(n1.clone(), g1)));
                    let (mut g0, mut g1) = (f0.clone(), f1.clone());
                    g0[k].0 = None;
                    g1[k].0 = None;
                    edits.push((Val::Tup(n0.clone(), g0), Val::Tup(n1.clone(), g1)));
                }
                if !f0.is_empty() {
                    edits.push((Val::Tup(None, f0.clone()), Val::Tup(None, f1.clone())));
                }
                for (a, b) in edits {
                    if a.is_nil() || b.is_nil() {
                        continue;
                    }
                    let mut d = c.clone();
                    d.ops[0].v = a;
                    d.ops[1].v = b;
                    let ok = (0..n).all(|i| i >= built || d.ops[i].path.applies(&d.ops[i].v))
                        && (!matches!(c.form, Form::LitPat | Form::SibLit) || d.ops[1].v.is_data());
                    if ok {
                        out.push(d);
                    }
                }
            }
        }
    }
    // ... a whole operand replaced by the globally simplest values (a defect that does not care
    // about the sort of its operands collapses to `0` / `1`)
    for i in 0..n {
        for v in [int("0"), int("1")] {
            if c.ops[i].v != v && !matches!(c.ops[i].v, Val::Int(_)) {
                let mut d = c.clone();
                d.ops[i].v = v;
                if i < built && !d.ops[i].path.applies(&d.ops[i].v) {
                    d.ops[i].path = Path::Lit;
                }
                out.push(d);
            }
        }
    }
    for i in 0..n {
        for v in value_candidates(&c.ops[i].v) {
            let mut d = c.clone();
            d.ops[i].v = v.clone();
            if i < built && !d.ops[i].path.applies(&v) {
                continue;
            }
            if matches!(c.form, Form::LitPat | Form::SibLit) && i == 1 && !v.is_data() {
                continue;
            }
            out.push(d);
        }
    }
    out
}

pub fn shrink(case: &Case, memo: &Memo) -> Case {
    let mut cur = case.clone();
    'outer: loop {
        let m = measure(&cur);
        for cand in candidates(&cur) {
            if measure(&cand) < m && memo.fails(&cand) {
                cur = cand;
                continue 'outer;
            }
        }
        return cur;
    }
}
