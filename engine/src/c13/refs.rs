//! C13 refs(n): n processes mint refs with `%ref` and hand them to a collector that compares all
//! ordered pairs with `=&`. Two refs must be equal iff they come from the same minting — checked
//! both through the language (`=&` verdicts) and on the raw values (canonical rendering names refs
//! by first occurrence, so two mintings that collide on the same 64-bit value show up directly).

use super::case::new_session;
use crate::infra::Budget;
use crate::sim::session::Eval;
use rayon::prelude::*;
use serde_json::{Value as J, json};
use std::collections::{BTreeMap, BTreeSet};

#[derive(Clone, Debug, PartialEq, Eq, PartialOrd, Ord)]
pub enum Transport {
    /// each minter returns its refs; the main process awaits every minter and compares
    Await,
    /// each minter sends its refs to a collector process, which compares
    Message,
    /// as Message, and minter 1's first ref additionally travels through a relay process
    MessageRelay,
}

impl Transport {
    pub fn name(&self) -> &'static str {
        match self {
            Transport::Await => "await",
            Transport::Message => "message",
            Transport::MessageRelay => "message+relay",
        }
    }
    pub fn from_name(s: &str) -> Option<Transport> {
        [Transport::Await, Transport::Message, Transport::MessageRelay].into_iter().find(|t| t.name() == s)
    }
}

#[derive(Clone, Debug, PartialEq, Eq, PartialOrd, Ord)]
pub struct Shape {
    pub workers: usize,
    /// refs minted by each minter process (1..)
    pub mints: Vec<usize>,
    /// refs minted by the main process itself
    pub main_mints: usize,
    /// dummy processes spawned before each minter (shifts the round-robin placement)
    pub pads: Vec<usize>,
    pub transport: Transport,
}

impl Shape {
    pub fn text(&self) -> String {
        format!(
            "refs W={} mints={:?} main={} pads={:?} {}",
            self.workers,
            self.mints,
            self.main_mints,
            self.pads,
            self.transport.name()
        )
    }
    pub fn to_json(&self) -> J {
        json!({"engine": "c13", "kind": "refs", "workers": self.workers, "mints": self.mints, "main_mints": self.main_mints,
               "pads": self.pads, "transport": self.transport.name()})
    }
    pub fn from_json(j: &J) -> Result<Shape, String> {
        let arr = |k: &str| -> Result<Vec<usize>, String> {
            Ok(j[k].as_array().ok_or(format!("no {}", k))?.iter().filter_map(|x| x.as_u64().map(|x| x as usize)).collect())
        };
        Ok(Shape {
            workers: j["workers"].as_u64().ok_or("workers")? as usize,
            mints: arr("mints")?,
            main_mints: j["main_mints"].as_u64().ok_or("main_mints")? as usize,
            pads: arr("pads")?,
            transport: Transport::from_name(j["transport"].as_str().unwrap_or("")).ok_or("transport")?,
        })
    }
}

/// The variables holding refs, each with its minting identity, in collector order.
pub struct Layout {
    /// (variable, minting id)
    pub vars: Vec<(String, usize)>,
}

pub fn layout(s: &Shape) -> Layout {
    let mut vars = vec![];
    let mut mint = 0usize;
    for (k, &m) in s.mints.iter().enumerate() {
        for i in 0..m {
            vars.push((format!("m{}r{}", k + 1, i), mint));
            mint += 1;
        }
    }
    if s.transport == Transport::MessageRelay {
        // the relayed copy of minter 1's first ref
        vars.push(("d1".to_string(), 0));
    }
    for i in 0..s.main_mints {
        vars.push((format!("z{}", i), mint));
        mint += 1;
    }
    Layout { vars }
}

fn verdict_exprs(l: &Layout) -> Vec<String> {
    let mut v = vec![];
    for (a, _) in &l.vars {
        for (b, _) in &l.vars {
            v.push(format!("{} =&{}", a, b));
        }
    }
    v
}

pub fn expected_verdicts(l: &Layout) -> Vec<bool> {
    let mut v = vec![];
    for (_, a) in &l.vars {
        for (_, b) in &l.vars {
            v.push(a == b);
        }
    }
    v
}

/// Expected canonical rendering of the tuple of all refs: named by first occurrence.
pub fn expected_refs_rendering(l: &Layout) -> String {
    let mut names: BTreeMap<usize, usize> = BTreeMap::new();
    let parts: Vec<String> = l
        .vars
        .iter()
        .map(|(_, m)| {
            let next = names.len();
            format!("&ref{}", *names.entry(*m).or_insert(next))
        })
        .collect();
    format!("[{}]", parts.join(", "))
}

fn minter_tuple(k: usize, m: usize, first: Option<&str>) -> String {
    let fields: Vec<String> =
        (0..m).map(|i| if i == 0 { first.unwrap_or("%ref").to_string() } else { "%ref".to_string() }).collect();
    format!("M{}[{}]", k, fields.join(", "))
}

fn minter_pattern(k: usize, m: usize) -> String {
    let fields: Vec<String> = (0..m).map(|i| format!("m{}r{}", k, i)).collect();
    format!("M{}[{}]", k, fields.join(", "))
}

fn minter_type(k: usize, m: usize) -> String {
    format!("M{}[{}]", k, vec!["'ref"; m].join(", "))
}

/// The steps of the scenario (REPL lines, or the steps of one program), without the final step.
pub fn steps(s: &Shape) -> (Vec<String>, String, String) {
    let l = layout(s);
    let verdicts = format!("[{}]", verdict_exprs(&l).join(", "));
    let all = format!("[{}]", l.vars.iter().map(|(v, _)| v.clone()).collect::<Vec<_>>().join(", "));
    let mut lines = vec![];
    let mut pad_no = 0;
    match s.transport {
        Transport::Await => {
            for (k, &m) in s.mints.iter().enumerate() {
                for _ in 0..s.pads[k] {
                    lines.push(format!("pad{} = @{{ 0 }}", pad_no));
                    pad_no += 1;
                }
                lines.push(format!("p{} = @{{ {} }}", k + 1, minter_tuple(k + 1, m, None)));
            }
            for (k, &m) in s.mints.iter().enumerate() {
                lines.push(format!("!p{} ={}", k + 1, minter_pattern(k + 1, m)));
            }
            for i in 0..s.main_mints {
                lines.push(format!("z{} = %ref", i));
            }
            (lines, verdicts, all)
        }
        Transport::Message | Transport::MessageRelay => {
            let relay = s.transport == Transport::MessageRelay;
            // collector: receives one tagged tuple per minter (+ relayed copy, + main's), compares
            let mut body = vec![];
            for (k, &m) in s.mints.iter().enumerate() {
                body.push(format!("!({}) ={}", minter_type(k + 1, m), minter_pattern(k + 1, m)));
            }
            if relay {
                body.push("!(D['ref]) =D[d1]".to_string());
            }
            if s.main_mints > 0 {
                let fields: Vec<String> = (0..s.main_mints).map(|i| format!("z{}", i)).collect();
                body.push(format!("!(M0[{}]) =M0[{}]", vec!["'ref"; s.main_mints].join(", "), fields.join(", ")));
            }
            body.push(format!("[{}, {}]", verdicts, all));
            lines.push(format!("col = @{{ {} }}", body.join(", ")));
            if relay {
                lines.push("rl = @{ !(R['ref]) =R[r], D[r] col }".to_string());
            }
            for (k, &m) in s.mints.iter().enumerate() {
                for _ in 0..s.pads[k] {
                    lines.push(format!("pad{} = @{{ 0 }}", pad_no));
                    pad_no += 1;
                }
                if relay && k == 0 {
                    lines.push(format!("p1 = @{{ %ref =r, R[r] rl, {} col }}", minter_tuple(1, m, Some("r"))));
                } else {
                    lines.push(format!("p{} = @{{ {} col }}", k + 1, minter_tuple(k + 1, m, None)));
                }
            }
            if s.main_mints > 0 {
                lines.push(format!("M0[{}] col", vec!["%ref"; s.main_mints].join(", ")));
            }
            (lines, "!col =[verdicts, all], verdicts".to_string(), "all".to_string())
        }
    }
}

/// One whole program (for the schedule explorer): evaluates to `[verdicts, refs]`.
pub fn program(s: &Shape) -> String {
    let (mut lines, fin1, fin2) = steps(s);
    match s.transport {
        Transport::Await => lines.push(format!("[{}, {}]", fin1, fin2)),
        _ => lines.push("!col".to_string()),
    }
    lines.join(",\n")
}

pub fn all_shapes(max_n: usize) -> Vec<Shape> {
    let mut out = vec![];
    for workers in 1..=3usize {
        for n in 1..=max_n {
            // mints in {1,2}^n
            for mm in 0..(1usize << n) {
                let mints: Vec<usize> = (0..n).map(|k| 1 + ((mm >> k) & 1)).collect();
                // pads in {0..W-1}^n
                let combos = workers.pow(n as u32);
                for pp in 0..combos {
                    let mut pads = vec![];
                    let mut x = pp;
                    for _ in 0..n {
                        pads.push(x % workers);
                        x /= workers;
                    }
                    for main_mints in 0..=1usize {
                        for transport in [Transport::Await, Transport::Message, Transport::MessageRelay] {
                            out.push(Shape { workers, mints: mints.clone(), main_mints, pads: pads.clone(), transport });
                        }
                    }
                }
            }
        }
    }
    out
}

pub struct ShapeResult {
    pub fails: Option<String>,
    pub machinery: Option<String>,
    /// worker ids the refs were minted on (from the repository's own `&worker:counter` formatting)
    pub placement: Vec<u64>,
    pub pairs: usize,
    pub observed: String,
    pub expected: String,
    pub script: Vec<String>,
}

fn verdict_text(v: &[bool]) -> String {
    format!("[{}]", v.iter().map(|b| if *b { "Ok" } else { "[]" }).collect::<Vec<_>>().join(", "))
}

/// Run one shape in a fresh session (default schedule).
pub fn run_shape(s: &Shape) -> ShapeResult {
    let l = layout(s);
    let (lines, fin1, fin2) = steps(s);
    let mut script = lines.clone();
    script.push(fin1.clone());
    script.push(fin2.clone());
    let want_v = verdict_text(&expected_verdicts(&l));
    let want_r = expected_refs_rendering(&l);
    let expected = format!("{} {}", want_v, want_r);
    let mut res = ShapeResult {
        fails: None,
        machinery: None,
        placement: vec![],
        pairs: l.vars.len() * l.vars.len(),
        observed: String::new(),
        expected,
        script,
    };
    let mut sess = match new_session(s.workers, &[]) {
        Ok(s) => s,
        Err(e) => {
            res.machinery = Some(e);
            return res;
        }
    };
    for line in &lines {
        match sess.eval(line) {
            Eval::Value(..) => {}
            other => {
                res.machinery = Some(format!("line `{}`: {:?}", line, other));
                sess.close();
                return res;
            }
        }
    }
    let got_v = sess.eval(&fin1);
    let got_r = sess.eval(&fin2);
    sess.close();
    match (&got_v, &got_r) {
        (Eval::Value(v, _), Eval::Value(r, own)) => {
            res.observed = format!("{} {}", v, r);
            // `&worker:counter`
            res.placement = own
                .split('&')
                .skip(1)
                .filter_map(|p| p.split(':').next().and_then(|w| w.parse().ok()))
                .collect();
            if *v != want_v {
                res.fails = Some(format!("`=&` verdicts over all ordered pairs are {} but same-minting demands {}", v, want_v));
            } else if *r != want_r {
                res.fails = Some(format!("the refs themselves are {} (named by first occurrence) but the mintings are {}", r, want_r));
            }
        }
        (Eval::RuntimeError(e), _) | (_, Eval::RuntimeError(e)) => {
            res.observed = format!("runtime error {}", e);
            res.fails = Some(format!("runtime error while comparing refs: {}", e));
        }
        other => res.machinery = Some(format!("final lines: {:?}", other)),
    }
    res
}

/// Shrink a failing shape: fewer minters, fewer mints, no pads, simpler transport, fewer workers.
pub fn shrink_shape(s: &Shape) -> Shape {
    let fails = |s: &Shape| run_shape(s).fails.is_some();
    let mut cur = s.clone();
    loop {
        let mut cands: Vec<Shape> = vec![];
        for k in 0..cur.mints.len() {
            if cur.mints.len() > 1 {
                let mut c = cur.clone();
                c.mints.remove(k);
                c.pads.remove(k);
                cands.push(c);
            }
            if cur.mints[k] > 1 {
                let mut c = cur.clone();
                c.mints[k] -= 1;
                cands.push(c);
            }
            if cur.pads[k] > 0 {
                let mut c = cur.clone();
                c.pads[k] -= 1;
                cands.push(c);
            }
        }
        if cur.main_mints > 0 {
            let mut c = cur.clone();
            c.main_mints -= 1;
            cands.push(c);
        }
        match cur.transport {
            Transport::MessageRelay => {
                let mut c = cur.clone();
                c.transport = Transport::Message;
                cands.push(c);
            }
            Transport::Message => {
                let mut c = cur.clone();
                c.transport = Transport::Await;
                cands.push(c);
            }
            Transport::Await => {}
        }
        if cur.workers > 1 {
            let mut c = cur.clone();
            c.workers -= 1;
            c.pads = c.pads.iter().map(|p| *p.min(&(c.workers - 1))).collect();
            cands.push(c);
        }
        match cands.into_iter().find(|c| fails(c)) {
            Some(c) => cur = c,
            None => return cur,
        }
    }
}

pub struct RefsOut {
    pub shapes: u64,
    pub pairs: u64,
    pub placements: BTreeSet<String>,
    pub failing: Vec<(Shape, ShapeResult)>,
    pub complete: bool,
    pub samples: Vec<J>,
}

pub fn run_all(max_n: usize, budget: &Budget, seed: usize) -> Result<RefsOut, String> {
    let mut shapes = all_shapes(max_n);
    if !shapes.is_empty() {
        let k = seed % shapes.len();
        shapes.rotate_left(k);
    }
    let res: Vec<(Shape, Option<ShapeResult>)> = shapes
        .par_iter()
        .map(|s| {
            crate::sim::system::install_panic_recorder();
            if budget.exhausted() {
                return (s.clone(), None);
            }
            (s.clone(), Some(run_shape(s)))
        })
        .collect();
    let mut res = res;
    res.sort_by(|a, b| a.0.cmp(&b.0));
    let mut out = RefsOut { shapes: 0, pairs: 0, placements: BTreeSet::new(), failing: vec![], complete: true, samples: vec![] };
    for (s, r) in res {
        let Some(r) = r else {
            out.complete = false;
            continue;
        };
        if let Some(e) = &r.machinery {
            return Err(format!("{}: {}", s.text(), e));
        }
        out.shapes += 1;
        out.pairs += r.pairs as u64;
        out.placements.insert(format!("W{}:{:?}", s.workers, r.placement));
        if out.samples.len() < 2 && s.workers == 3 && s.mints.len() == 2 && s.transport == Transport::MessageRelay && s.pads == vec![1, 0] {
            out.samples.push(json!({"case": s.text(), "session_lines": r.script, "observed": r.observed, "expected": r.expected,
                                    "refs_minted_on_workers": r.placement}));
        }
        if r.fails.is_some() {
            out.failing.push((s, r));
        }
    }
    Ok(out)
}
