//! C13 value universe: host-side values, the host-side structural equality (the oracle), and the
//! textual forms (expression literal, computed expression, pattern, type) of every value.

use num_bigint::BigInt;
use serde_json::{Value as J, json};

/// A host-side value. `Fun(def, captures)`: `def` indexes [`FUN_DEFS`]. `Ref(k)`: the k-th minting
/// of the program/session (`r<k>`). `Proc(k)`: the k-th process token (`p<k>`; `PROC_REPL` is the
/// REPL's own process).
#[derive(Clone, Debug, PartialEq, Eq, Hash, PartialOrd, Ord)]
pub enum Val {
    Int(String),
    Bin(Vec<u8>),
    Tup(Option<String>, Vec<(Option<String>, Val)>),
    Fun(u8, Vec<Val>),
    Ref(u8),
    Proc(u8),
}

pub const PROC_SELFRET: u8 = 3;
pub const PROC_REPL: u8 = 9;

/// (variable, definition line, type of the produced function value given the capture's type)
pub struct FunDef {
    pub var: &'static str,
    pub line: &'static str,
    pub captures: usize,
}

pub const FUN_DEFS: &[FunDef] = &[
    FunDef { var: "f0", line: "f0 = #{ 1 }", captures: 0 },
    FunDef { var: "f1", line: "f1 = #{ 2 }", captures: 0 },
    FunDef { var: "f2", line: "f2 = #'int { 1 }", captures: 0 },
    FunDef { var: "mki", line: "mki = #'int { =n => #{ n } }", captures: 1 },
    FunDef { var: "mkb", line: "mkb = #'bin { =n => #{ [n, 0x] __binary_concat__ } }", captures: 1 },
    FunDef { var: "mkg", line: "mkg = #<'t>'t { =n => #{ [n] } }", captures: 1 },
    // the maker itself is imported from the in-memory module `c13f`, which also exports closures
    // made by it at compile time (`c1`, `c2`)
    FunDef { var: "mkm", line: "mkm = &%c13f.mk", captures: 1 },
];

pub const FUN_MODULE: (&str, &str) = ("c13f", "mk = #'int { =n => #{ [n, 0] __integer_add__ } }, [mk: &mk, c1: 1 mk, c2: 2 mk]");
pub const FUN_FROM_MODULE: u8 = 6;

pub fn int(s: &str) -> Val {
    Val::Int(s.to_string())
}
pub fn bin(b: &[u8]) -> Val {
    Val::Bin(b.to_vec())
}
pub fn nil() -> Val {
    Val::Tup(None, vec![])
}
pub fn named0(n: &str) -> Val {
    Val::Tup(Some(n.to_string()), vec![])
}
pub fn tup(name: Option<&str>, fields: Vec<(Option<&str>, Val)>) -> Val {
    Val::Tup(
        name.map(|s| s.to_string()),
        fields.into_iter().map(|(l, v)| (l.map(|s| s.to_string()), v)).collect(),
    )
}

pub const BIG: &str = "1180591620717411303424"; // 2^70
pub const BIG_MINUS_1: &str = "1180591620717411303423";

impl Val {
    pub fn is_nil(&self) -> bool {
        matches!(self, Val::Tup(None, f) if f.is_empty())
    }
    /// Must be written `&x` when referenced through a variable (callable / process values).
    pub fn needs_amp(&self) -> bool {
        matches!(self, Val::Fun(..) | Val::Proc(_))
    }
    /// Contains no function, ref or process anywhere (has a literal pattern form, can live in a module).
    pub fn is_data(&self) -> bool {
        match self {
            Val::Int(_) | Val::Bin(_) => true,
            Val::Tup(_, f) => f.iter().all(|(_, v)| v.is_data()),
            _ => false,
        }
    }
    pub fn kind(&self) -> &'static str {
        match self {
            Val::Int(_) => "int",
            Val::Bin(_) => "bin",
            Val::Tup(..) => "tuple",
            Val::Fun(..) => "fun",
            Val::Ref(_) => "ref",
            Val::Proc(_) => "proc",
        }
    }
    pub fn depth(&self) -> usize {
        match self {
            Val::Tup(_, f) if !f.is_empty() => 1 + f.iter().map(|(_, v)| v.depth()).max().unwrap_or(0),
            Val::Fun(_, c) => c.iter().map(|v| v.depth()).max().unwrap_or(0),
            _ => 0,
        }
    }
    pub fn size(&self) -> usize {
        match self {
            Val::Tup(n, f) => {
                let name = match n.as_deref() {
                    None => 0,
                    Some("A") => 1,
                    Some(_) => 2,
                };
                2 + name + f.iter().map(|(l, v)| l.is_some() as usize + v.size()).sum::<usize>()
            }
            Val::Fun(_, c) => 2 + c.iter().map(|v| v.size()).sum::<usize>(),
            Val::Int(s) => 1 + (s != "0") as usize,
            Val::Bin(b) => 2 + b.len(),
            _ => 2,
        }
    }
    /// Collect fun defs / refs / procs mentioned (for the prelude).
    pub fn needs(&self, out: &mut Needs) {
        match self {
            Val::Tup(_, f) => f.iter().for_each(|(_, v)| v.needs(out)),
            Val::Fun(d, c) => {
                out.funs.insert(*d);
                c.iter().for_each(|v| v.needs(out));
            }
            Val::Ref(k) => {
                out.refs.insert(*k);
            }
            Val::Proc(k) => {
                out.procs.insert(*k);
            }
            _ => {}
        }
    }
}

#[derive(Default, Clone, Debug)]
pub struct Needs {
    pub funs: std::collections::BTreeSet<u8>,
    pub refs: std::collections::BTreeSet<u8>,
    pub procs: std::collections::BTreeSet<u8>,
    pub gid: bool,
}

/// THE ORACLE: host-side structural equality. Ints by numeric value, binaries by bytes, tuples by
/// name + labels + pairwise fields, functions by same definition and equal captures, refs by same
/// minting, processes by same process.
pub fn host_eq(a: &Val, b: &Val) -> bool {
    match (a, b) {
        (Val::Int(x), Val::Int(y)) => {
            let x: BigInt = x.parse().expect("int literal");
            let y: BigInt = y.parse().expect("int literal");
            x == y
        }
        (Val::Bin(x), Val::Bin(y)) => x.len() == y.len() && x.iter().zip(y).all(|(p, q)| p == q),
        (Val::Tup(n1, f1), Val::Tup(n2, f2)) => {
            n1 == n2
                && f1.len() == f2.len()
                && f1.iter().zip(f2).all(|((l1, v1), (l2, v2))| l1 == l2 && host_eq(v1, v2))
        }
        (Val::Fun(d1, c1), Val::Fun(d2, c2)) => {
            d1 == d2 && c1.len() == c2.len() && c1.iter().zip(c2).all(|(x, y)| host_eq(x, y))
        }
        (Val::Ref(x), Val::Ref(y)) => x == y,
        (Val::Proc(x), Val::Proc(y)) => x == y,
        _ => false,
    }
}

fn hex(b: &[u8]) -> String {
    format!("0x{}", b.iter().map(|x| format!("{:02x}", x)).collect::<String>())
}

fn tuple_text(name: &Option<String>, fields: Vec<(Option<String>, String)>) -> String {
    if fields.is_empty() {
        return name.clone().unwrap_or_else(|| "[]".to_string());
    }
    let inner: Vec<String> = fields
        .into_iter()
        .map(|(l, t)| match l {
            Some(l) => format!("{}: {}", l, t),
            None => t,
        })
        .collect();
    format!("{}[{}]", name.clone().unwrap_or_default(), inner.join(", "))
}

/// The value written as an expression ("literal" construction path).
pub fn lit(v: &Val) -> String {
    match v {
        Val::Int(s) => s.clone(),
        Val::Bin(b) => hex(b),
        Val::Tup(n, f) => tuple_text(n, f.iter().map(|(l, v)| (l.clone(), lit(v))).collect()),
        Val::Fun(d, c) => {
            let def = &FUN_DEFS[*d as usize];
            if def.captures == 0 {
                format!("&{}", def.var)
            } else {
                format!("{} {}", lit(&c[0]), def.var)
            }
        }
        Val::Ref(k) => format!("r{}", k),
        Val::Proc(k) => format!("&p{}", k),
    }
}

/// Expression computing an int / binary with a builtin (binaries become heap binaries).
fn comp_leaf(v: &Val) -> Option<String> {
    match v {
        Val::Int(s) => Some(match s.as_str() {
            "0" => "[1, 1] __integer_subtract__".to_string(),
            "1" => "[0, 1] __integer_add__".to_string(),
            "2" => "[1, 1] __integer_add__".to_string(),
            BIG => format!("[{}, 1] __integer_add__", BIG_MINUS_1),
            other => format!("[{}, 0] __integer_add__", other),
        }),
        Val::Bin(b) => Some(if b.len() >= 2 {
            format!("[{}, {}] __binary_concat__", hex(&b[..1]), hex(&b[1..]))
        } else {
            format!("[{}, 0x] __binary_concat__", hex(b))
        }),
        _ => None,
    }
}

fn comp_inner(v: &Val) -> Option<String> {
    match v {
        Val::Int(_) | Val::Bin(_) => comp_leaf(v),
        Val::Tup(n, f) => {
            let parts: Vec<(Option<String>, Option<String>, String)> =
                f.iter().map(|(l, v)| (l.clone(), comp_inner(v), lit(v))).collect();
            if parts.iter().all(|(_, c, _)| c.is_none()) {
                return None;
            }
            Some(tuple_text(
                n,
                parts.into_iter().map(|(l, c, t)| (l, c.unwrap_or(t))).collect(),
            ))
        }
        Val::Fun(d, c) => {
            let def = &FUN_DEFS[*d as usize];
            if def.captures == 1 {
                comp_inner(&c[0]).map(|e| format!("{} {}", e, def.var))
            } else {
                None
            }
        }
        _ => None,
    }
}

/// The value built by builtins: every int / binary leaf is computed (`__integer_add__`,
/// `__binary_concat__`); nil is the result of a failed match, `Ok` of a successful one.
pub fn comp(v: &Val) -> Option<String> {
    match v {
        Val::Tup(None, f) if f.is_empty() => Some("0 =1".to_string()),
        Val::Tup(Some(n), f) if f.is_empty() && n == "Ok" => Some("1 =1".to_string()),
        _ => comp_inner(v),
    }
}

/// The value as a literal pattern (data values only).
pub fn pat(v: &Val) -> Option<String> {
    if v.is_data() { Some(lit(v)) } else { None }
}

/// A type expression that the value inhabits (for typed receives). None = no type can be written.
pub fn ty(v: &Val) -> Option<String> {
    Some(match v {
        Val::Int(_) => "'int".to_string(),
        Val::Bin(_) => "'bin".to_string(),
        Val::Tup(n, f) => {
            let mut parts = vec![];
            for (l, v) in f {
                parts.push((l.clone(), ty(v)?));
            }
            tuple_text(n, parts)
        }
        Val::Fun(d, c) => match d {
            0 | 1 | 3 | 6 => "(#[] -> 'int)".to_string(),
            2 => "(#'int -> 'int)".to_string(),
            4 => "(#[] -> 'bin)".to_string(),
            _ => format!("(#[] -> [{}])", ty(&c[0])?),
        },
        Val::Ref(_) => "'ref".to_string(),
        Val::Proc(k) => match k {
            0 | 1 => "(@'int)".to_string(),
            2 => "(@'bin)".to_string(),
            _ => return None,
        },
    })
}

/// Canonical rendering as produced by `crate::render::Renderer` after [`mask`]ing.
pub fn rendered(v: &Val) -> String {
    match v {
        Val::Int(s) => s.clone(),
        Val::Bin(b) => hex(b),
        Val::Tup(n, f) => tuple_text(n, f.iter().map(|(l, v)| (l.clone(), rendered(v))).collect()),
        Val::Fun(_, c) => {
            if c.is_empty() {
                "#".to_string()
            } else {
                format!("#{{{}}}", c.iter().map(rendered).collect::<Vec<_>>().join(", "))
            }
        }
        Val::Ref(_) => "&ref".to_string(),
        Val::Proc(_) => "@".to_string(),
    }
}

/// Remove function indices, ref numbers and pids from a canonical rendering.
pub fn mask(s: &str) -> String {
    let b = s.as_bytes();
    let mut out = String::with_capacity(s.len());
    let mut i = 0;
    while i < b.len() {
        let c = b[i] as char;
        if c == '#' || c == '@' {
            out.push(c);
            i += 1;
            while i < b.len() && b[i].is_ascii_digit() {
                i += 1;
            }
        } else if s[i..].starts_with("&ref") {
            out.push_str("&ref");
            i += 4;
            while i < b.len() && b[i].is_ascii_digit() {
                i += 1;
            }
        } else {
            out.push(c);
            i += 1;
        }
    }
    out
}

// ---------------------------------------------------------------------------------------------
// JSON (replay artefacts)

pub fn to_json(v: &Val) -> J {
    match v {
        Val::Int(s) => json!({"i": s}),
        Val::Bin(b) => json!({"b": b.iter().map(|x| format!("{:02x}", x)).collect::<String>()}),
        Val::Tup(n, f) => json!({"t": [n, f.iter().map(|(l, v)| json!([l, to_json(v)])).collect::<Vec<_>>()]}),
        Val::Fun(d, c) => json!({"f": [d, c.iter().map(to_json).collect::<Vec<_>>()]}),
        Val::Ref(k) => json!({"r": k}),
        Val::Proc(k) => json!({"p": k}),
    }
}

pub fn from_json(j: &J) -> Result<Val, String> {
    let bad = || format!("bad value json: {}", j);
    if let Some(s) = j.get("i") {
        return Ok(Val::Int(s.as_str().ok_or_else(bad)?.to_string()));
    }
    if let Some(s) = j.get("b") {
        let s = s.as_str().ok_or_else(bad)?;
        let mut out = vec![];
        let mut i = 0;
        while i + 2 <= s.len() {
            out.push(u8::from_str_radix(&s[i..i + 2], 16).map_err(|_| bad())?);
            i += 2;
        }
        return Ok(Val::Bin(out));
    }
    if let Some(t) = j.get("t") {
        let name = t[0].as_str().map(|s| s.to_string());
        let mut fields = vec![];
        for f in t[1].as_array().ok_or_else(bad)? {
            fields.push((f[0].as_str().map(|s| s.to_string()), from_json(&f[1])?));
        }
        return Ok(Val::Tup(name, fields));
    }
    if let Some(f) = j.get("f") {
        let d = f[0].as_u64().ok_or_else(bad)? as u8;
        let mut caps = vec![];
        for c in f[1].as_array().ok_or_else(bad)? {
            caps.push(from_json(c)?);
        }
        return Ok(Val::Fun(d, caps));
    }
    if let Some(k) = j.get("r") {
        return Ok(Val::Ref(k.as_u64().ok_or_else(bad)? as u8));
    }
    if let Some(k) = j.get("p") {
        return Ok(Val::Proc(k.as_u64().ok_or_else(bad)? as u8));
    }
    Err(bad())
}

/// Human text of a value for signatures: the literal form; refs / procs by token.
pub fn show(v: &Val) -> String {
    match v {
        Val::Proc(PROC_REPL) => "<repl process>".to_string(),
        Val::Tup(n, f) => tuple_text(n, f.iter().map(|(l, v)| (l.clone(), show(v))).collect()),
        _ => lit(v),
    }
}

// ---------------------------------------------------------------------------------------------
// The universe

pub struct UniverseParams {
    pub ints: Vec<&'static str>,
    pub bins: Vec<Vec<u8>>,
    pub names: Vec<Option<&'static str>>,
    pub labels: Vec<Option<&'static str>>,
    /// field values of depth-1 arity-1 tuples
    pub f1: Vec<Val>,
    /// names of arity-2 tuples / label pairs / field pairs of depth-1 arity-2 tuples
    pub names2: Vec<Option<&'static str>>,
    pub label_pairs: Vec<(Option<&'static str>, Option<&'static str>)>,
    pub f2: Vec<(Val, Val)>,
    /// depth-2: outer names / outer labels / inner depth-1 tuples
    pub names_d2: Vec<Option<&'static str>>,
    pub labels_d2: Vec<Option<&'static str>>,
    pub inner: Vec<Val>,
    /// depth-2 arity-2: (name, field, field) triples are names_d2a2 x inner2 x inner2
    pub names_d2a2: Vec<Option<&'static str>>,
    pub inner2: Vec<Val>,
}

pub fn params(thorough: bool) -> UniverseParams {
    let a = Some("A");
    let b = Some("B");
    let x = Some("x");
    let y = Some("y");
    let one = || int("1");
    let z = || bin(&[0]);
    if !thorough {
        UniverseParams {
            ints: vec!["0", "1", "2", BIG],
            bins: vec![vec![], vec![0], vec![1], vec![0, 1], vec![0, 1, 2]],
            names: vec![None, a, b],
            labels: vec![None, x, y],
            f1: vec![one(), z(), nil()],
            names2: vec![None, a],
            label_pairs: vec![(None, None), (x, y), (y, x)],
            f2: vec![(one(), one()), (one(), z()), (z(), one()), (nil(), one())],
            names_d2: vec![None, a],
            labels_d2: vec![None, x],
            inner: vec![
                tup(None, vec![(None, one())]),
                tup(a, vec![(None, one())]),
                tup(None, vec![(x, one())]),
                tup(a, vec![(x, one())]),
                tup(None, vec![(None, z())]),
                tup(None, vec![(None, nil())]),
            ],
            names_d2a2: vec![None],
            inner2: vec![tup(None, vec![(None, one())]), tup(a, vec![(None, one())])],
        }
    } else {
        UniverseParams {
            ints: vec!["0", "1", "2", BIG],
            bins: vec![vec![], vec![0], vec![1], vec![0, 1], vec![0, 1, 2]],
            names: vec![None, a, b],
            labels: vec![None, x, y],
            f1: vec![int("0"), one(), int(BIG), bin(&[]), z(), nil(), named0("Ok")],
            names2: vec![None, a, b],
            label_pairs: vec![(None, None), (x, None), (None, y), (x, y), (y, x)],
            f2: vec![
                (one(), one()),
                (one(), z()),
                (z(), one()),
                (z(), z()),
                (nil(), one()),
                (one(), nil()),
                (nil(), nil()),
            ],
            names_d2: vec![None, a, b],
            labels_d2: vec![None, x],
            inner: vec![
                tup(None, vec![(None, one())]),
                tup(a, vec![(None, one())]),
                tup(b, vec![(None, one())]),
                tup(None, vec![(x, one())]),
                tup(a, vec![(x, one())]),
                tup(a, vec![(y, one())]),
                tup(None, vec![(None, z())]),
                tup(None, vec![(None, nil())]),
                tup(None, vec![(None, named0("Ok"))]),
                tup(a, vec![(None, int(BIG))]),
                tup(None, vec![(None, one()), (None, z())]),
                tup(a, vec![(x, one()), (y, z())]),
            ],
            names_d2a2: vec![None, a],
            inner2: vec![
                one(),
                tup(None, vec![(None, one())]),
                tup(a, vec![(None, one())]),
                tup(None, vec![(x, one())]),
            ],
        }
    }
}

/// All data values (ints, binaries, tuples to depth 2) of the universe, simplest first, no duplicates.
pub fn data_values(p: &UniverseParams) -> Vec<Val> {
    let mut out: Vec<Val> = vec![];
    let mut push = |v: Val, out: &mut Vec<Val>| {
        if !out.contains(&v) {
            out.push(v);
        }
    };
    for i in &p.ints {
        push(int(i), &mut out);
    }
    for b in &p.bins {
        push(bin(b), &mut out);
    }
    push(nil(), &mut out);
    push(named0("Ok"), &mut out);
    for n in p.names.iter().flatten() {
        push(named0(n), &mut out);
    }
    // depth 1, arity 1
    for n in &p.names {
        for l in &p.labels {
            for f in &p.f1 {
                push(tup(*n, vec![(*l, f.clone())]), &mut out);
            }
        }
    }
    // depth 1, arity 2
    for n in &p.names2 {
        for (l1, l2) in &p.label_pairs {
            for (f1, f2) in &p.f2 {
                push(tup(*n, vec![(*l1, f1.clone()), (*l2, f2.clone())]), &mut out);
            }
        }
    }
    // depth 2, arity 1
    for n in &p.names_d2 {
        for l in &p.labels_d2 {
            for i in &p.inner {
                push(tup(*n, vec![(*l, i.clone())]), &mut out);
            }
        }
    }
    // depth 2, arity 2
    for n in &p.names_d2a2 {
        for i1 in &p.inner2 {
            for i2 in &p.inner2 {
                let v = tup(*n, vec![(None, i1.clone()), (None, i2.clone())]);
                if v.depth() == 2 {
                    push(v, &mut out);
                }
            }
        }
    }
    out
}

/// Function values: three capture-less definitions, and closures over an int / a binary / a
/// generic capture.
pub fn fun_values() -> Vec<Val> {
    vec![
        Val::Fun(0, vec![]),
        Val::Fun(1, vec![]),
        Val::Fun(2, vec![]),
        Val::Fun(3, vec![int("1")]),
        Val::Fun(3, vec![int("2")]),
        Val::Fun(4, vec![bin(&[0])]),
        Val::Fun(4, vec![bin(&[0, 1])]),
        Val::Fun(5, vec![int("1")]),
        Val::Fun(5, vec![tup(Some("A"), vec![(None, int("1"))])]),
        Val::Fun(FUN_FROM_MODULE, vec![int("1")]),
        Val::Fun(FUN_FROM_MODULE, vec![int("2")]),
    ]
}

/// Values that contain a ref / function inside a tuple, and the bare refs.
pub fn opaque_values(refs: &[u8]) -> Vec<Val> {
    let mut out = vec![];
    for r in refs {
        out.push(Val::Ref(*r));
    }
    out.push(tup(None, vec![(None, Val::Ref(refs[0]))]));
    out.push(tup(Some("A"), vec![(Some("x"), Val::Ref(refs[0]))]));
    if refs.len() > 1 {
        out.push(tup(None, vec![(None, Val::Ref(refs[1]))]));
    }
    out.push(tup(None, vec![(None, Val::Fun(0, vec![]))]));
    out.push(tup(None, vec![(None, Val::Fun(1, vec![]))]));
    out.push(tup(None, vec![(None, Val::Fun(3, vec![int("1")]))]));
    out
}

/// The small data universe of Engine 2's quick tier: every leaf, and tuples that vary name, label,
/// label order, arity, field value and nesting one step at a time around `A[x: 1, y: 0x00]`.
pub fn e2_quick_data() -> Vec<Val> {
    let a = Some("A");
    let b = Some("B");
    let x = Some("x");
    let y = Some("y");
    let one = || int("1");
    let z = || bin(&[0]);
    vec![
        int("0"),
        one(),
        int(BIG),
        bin(&[]),
        z(),
        bin(&[1]),
        bin(&[0, 1]),
        nil(),
        named0("Ok"),
        named0("A"),
        tup(None, vec![(None, one())]),
        tup(a, vec![(None, one())]),
        tup(b, vec![(None, one())]),
        tup(a, vec![(x, one())]),
        tup(None, vec![(None, nil())]),
        tup(None, vec![(None, one()), (None, z())]),
        tup(a, vec![(x, one()), (y, z())]),
        tup(a, vec![(y, one()), (x, z())]),
        tup(a, vec![(x, one()), (y, bin(&[0, 1]))]),
        tup(None, vec![(None, tup(None, vec![(None, one())]))]),
        tup(a, vec![(None, tup(a, vec![(x, one())]))]),
    ]
}

/// Engine 2 quick tier: a subset of the function values / opaque values.
pub fn e2_quick_opaque() -> Vec<Val> {
    vec![
        Val::Fun(0, vec![]),
        Val::Fun(1, vec![]),
        Val::Fun(3, vec![int("1")]),
        Val::Fun(3, vec![int("2")]),
        Val::Fun(4, vec![bin(&[0])]),
        Val::Fun(FUN_FROM_MODULE, vec![int("1")]),
        Val::Ref(0),
        Val::Ref(1),
        Val::Ref(2),
        tup(None, vec![(None, Val::Ref(0))]),
        tup(None, vec![(None, Val::Ref(2))]),
        tup(None, vec![(None, Val::Fun(0, vec![]))]),
    ]
}
