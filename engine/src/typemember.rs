//! Structural membership of a runtime value in a `quiver_core::types::Type` graph (data part
//! exact; callable/process/resource/variable types are three-valued and never feed an alarm).

use quiver_core::bytecode::Constant;
use quiver_core::types::{Type, TypeLookup};
use quiver_core::value::Value;

#[derive(Clone, Copy, PartialEq, Eq, Debug)]
pub enum Tri {
    Yes,
    No,
    Unknown,
}

impl Tri {
    fn and(self, o: Tri) -> Tri {
        match (self, o) {
            (Tri::No, _) | (_, Tri::No) => Tri::No,
            (Tri::Yes, Tri::Yes) => Tri::Yes,
            _ => Tri::Unknown,
        }
    }
    fn or(self, o: Tri) -> Tri {
        match (self, o) {
            (Tri::Yes, _) | (_, Tri::Yes) => Tri::Yes,
            (Tri::No, Tri::No) => Tri::No,
            _ => Tri::Unknown,
        }
    }
}

/// `ctx` is the stack of enclosing boundary types (unions and callables); `Cycle(k)` re-enters
/// the k-th boundary upward with the stack truncated to that point.
pub fn member<L: TypeLookup>(v: &Value, type_id: usize, lookup: &L, ctx: &mut Vec<usize>, fuel: &mut usize) -> Tri {
    if *fuel == 0 {
        return Tri::Unknown;
    }
    *fuel -= 1;
    let Some(t) = lookup.lookup_type(type_id) else {
        return Tri::Unknown;
    };
    match t {
        Type::Integer => yn(matches!(v, Value::Integer(_))),
        Type::Binary => yn(matches!(v, Value::Binary(_))),
        Type::Reference => yn(matches!(v, Value::Reference(_))),
        Type::Tuple(id) => {
            let Value::Tuple(vid, fields) = v else {
                return Tri::No;
            };
            let (Some(ti), Some(vi)) = (lookup.lookup_tuple(*id), lookup.lookup_tuple(*vid)) else {
                return Tri::Unknown;
            };
            if ti.name != vi.name || ti.fields.len() != fields.len() || vi.fields.len() != fields.len() {
                return Tri::No;
            }
            let mut r = Tri::Yes;
            for (i, f) in fields.iter().enumerate() {
                if ti.fields[i].0 != vi.fields[i].0 {
                    return Tri::No;
                }
                r = r.and(member(f, ti.fields[i].1, lookup, ctx, fuel));
                if r == Tri::No {
                    return Tri::No;
                }
            }
            r
        }
        Type::Partial { name, fields: pf } => {
            let Value::Tuple(vid, fields) = v else {
                return Tri::No;
            };
            let Some(vi) = lookup.lookup_tuple(*vid) else {
                return Tri::Unknown;
            };
            if name.is_some() && *name != vi.name {
                return Tri::No;
            }
            let mut r = Tri::Yes;
            for (label, ft) in pf {
                let mut any = Tri::No;
                for (i, f) in fields.iter().enumerate() {
                    if vi.fields.get(i).and_then(|x| x.0.as_ref()) == Some(label) {
                        any = any.or(member(f, *ft, lookup, ctx, fuel));
                    }
                }
                r = r.and(any);
                if r == Tri::No {
                    return Tri::No;
                }
            }
            r
        }
        Type::Union(vs) => {
            ctx.push(type_id);
            let mut r = Tri::No;
            for x in vs {
                r = r.or(member(v, *x, lookup, ctx, fuel));
                if r == Tri::Yes {
                    break;
                }
            }
            ctx.pop();
            r
        }
        Type::Cycle(k) => {
            if *k == 0 || *k > ctx.len() {
                return Tri::Unknown;
            }
            let idx = ctx.len() - *k;
            let target = ctx[idx];
            let saved: Vec<usize> = ctx.split_off(idx);
            let r = member(v, target, lookup, ctx, fuel);
            ctx.extend(saved);
            r
        }
        Type::Callable { .. } => match v {
            Value::Function(..) | Value::Builtin(_) => Tri::Unknown,
            _ => Tri::No,
        },
        Type::Process { .. } => match v {
            Value::Process(..) => Tri::Unknown,
            _ => Tri::No,
        },
        Type::Resource(_) => match v {
            Value::Resource(..) => Tri::Unknown,
            _ => Tri::No,
        },
        Type::Variable(_) => Tri::Unknown,
    }
}

fn yn(b: bool) -> Tri {
    if b { Tri::Yes } else { Tri::No }
}

pub fn is_member<L: TypeLookup>(v: &Value, type_id: usize, lookup: &L) -> Tri {
    let mut fuel = 20_000;
    member(v, type_id, lookup, &mut vec![], &mut fuel)
}

#[allow(dead_code)]
pub fn unused(_c: &Constant) {}
