//! Grammar enumeration of core-language programs, simplest first (by node count), over a
//! deliberately tiny vocabulary. Deterministic; nothing is sampled. Many enumerated programs are
//! rejected by the compiler (unbound variable, type error) — they are counted, never judged.

use std::collections::HashMap;

#[derive(Default)]
pub struct Gen {
    terms: HashMap<usize, Vec<String>>,
    chains: HashMap<usize, Vec<String>>,
    seqs: HashMap<usize, Vec<String>>,
    exprs: HashMap<usize, Vec<String>>,
    pats: HashMap<usize, Vec<String>>,
}

const VALUE_ATOMS: &[&str] = &["0", "1", "2", "0x01", "[]", "Ok", "~", "a", "b", "$", "A", "\"s\""];
const OP_ATOMS: &[&str] = &[".0", ".x", "=a", "=b", "=0", "=1", "=_", "='int", "=&a", "=A", "=[]", "f", "&f", "^", "=\"s\""];
const PAT_ATOMS: &[&str] = &["a", "b", "_", "0", "1", "'int", "&a", "A", "*", "[]", "('int)b"];
const BUILTINS: &[&str] = &["__integer_add__", "__integer_subtract__", "__integer_divide__"];

impl Gen {
    pub fn pat(&mut self, n: usize) -> Vec<String> {
        if let Some(v) = self.pats.get(&n) {
            return v.clone();
        }
        let mut out = vec![];
        if n == 1 {
            out.extend(PAT_ATOMS.iter().map(|s| s.to_string()));
        } else if n >= 2 {
            // one-field forms
            for p in self.pat(n - 1) {
                out.push(format!("[{}]", p));
                out.push(format!("A[{}]", p));
                out.push(format!("[x: {}]", p));
                out.push(format!("(x: {})", p));
            }
            // two-field forms
            for i in 1..n - 1 {
                let j = n - 1 - i;
                if j == 0 {
                    continue;
                }
                for p in self.pat(i) {
                    for q in self.pat(j) {
                        out.push(format!("[{}, {}]", p, q));
                        out.push(format!("A[{}, {}]", p, q));
                        out.push(format!("({} | {})", p, q));
                    }
                }
            }
            if n == 2 {
                out.push("(x)".to_string());
                out.push("A(x)".to_string());
                out.push("A*".to_string());
            }
        }
        self.pats.insert(n, out.clone());
        out
    }

    pub fn term(&mut self, n: usize) -> Vec<String> {
        if let Some(v) = self.terms.get(&n) {
            return v.clone();
        }
        let mut out = vec![];
        if n == 1 {
            out.extend(VALUE_ATOMS.iter().map(|s| s.to_string()));
            out.extend(OP_ATOMS.iter().map(|s| s.to_string()));
        } else {
            // tuple constructions with one field
            for c in self.chain(n - 1) {
                out.push(format!("[{}]", c));
                out.push(format!("A[{}]", c));
                out.push(format!("[x: {}]", c));
                out.push(format!("~[..., x: {}]", c));
            }
            // two fields / builtin application
            for i in 1..n - 1 {
                let j = n - 1 - i;
                if j == 0 {
                    continue;
                }
                let (ci, cj) = (self.chain(i), self.chain(j));
                for a in &ci {
                    for b in &cj {
                        out.push(format!("[{}, {}]", a, b));
                        out.push(format!("B[x: {}, y: {}]", a, b));
                    }
                }
                if i + j + 1 <= n {
                    // builtin applied to a pair costs one extra node
                }
            }
            if n >= 3 {
                for i in 1..n - 2 {
                    let j = n - 2 - i;
                    if j == 0 {
                        continue;
                    }
                    let (ci, cj) = (self.chain(i), self.chain(j));
                    for a in &ci {
                        for b in &cj {
                            for bi in BUILTINS {
                                out.push(format!("[{}, {}] {}", a, b, bi));
                            }
                        }
                    }
                }
            }
            // blocks
            for e in self.expr(n - 1) {
                out.push(format!("{{ {} }}", e));
            }
            // structured match terms
            for p in self.pat(n - 1) {
                if n - 1 >= 2 {
                    out.push(format!("={}", p));
                }
            }
            // string with a hole
            if n == 2 {
                out.push("\"s{ ~ }\"".to_string());
            }
        }
        self.terms.insert(n, out.clone());
        out
    }

    pub fn chain(&mut self, n: usize) -> Vec<String> {
        if let Some(v) = self.chains.get(&n) {
            return v.clone();
        }
        let mut out = self.term(n);
        for i in 1..n {
            let j = n - i;
            let (ti, cj) = (self.term(i), self.chain(j));
            for t in &ti {
                for c in &cj {
                    out.push(format!("{} {}", t, c));
                }
            }
        }
        self.chains.insert(n, out.clone());
        out
    }

    /// A step is a chain or a binding `p = chain` (one extra node + the pattern's size).
    fn step(&mut self, n: usize) -> Vec<String> {
        let mut out = self.chain(n);
        for ps in 1..n {
            let cs = n - ps;
            if cs == 0 || ps > 2 {
                continue;
            }
            let (pp, cc) = (self.pat(ps), self.chain(cs));
            for p in &pp {
                // bindings through the atoms that are variables or destructurings
                if p == "_" || p == "0" || p == "1" || p == "'int" || p == "&a" || p == "A" || p == "[]" || p == "*" {
                    continue;
                }
                for c in &cc {
                    out.push(format!("{} = {}", p, c));
                }
            }
        }
        out
    }

    pub fn seq(&mut self, n: usize) -> Vec<String> {
        if let Some(v) = self.seqs.get(&n) {
            return v.clone();
        }
        let mut out = self.step(n);
        for i in 1..n {
            let j = n - i;
            let (si, sj) = (self.step(i), self.seq(j));
            for a in &si {
                for b in &sj {
                    out.push(format!("{}, {}", a, b));
                }
            }
        }
        self.seqs.insert(n, out.clone());
        out
    }

    /// Block contents: branches with optional consequences.
    pub fn expr(&mut self, n: usize) -> Vec<String> {
        if let Some(v) = self.exprs.get(&n) {
            return v.clone();
        }
        let mut out = self.seq(n);
        // condition => consequence (one branch)
        for i in 1..n {
            let j = n - i;
            let (si, sj) = (self.seq(i), self.seq(j));
            for a in &si {
                for b in &sj {
                    out.push(format!("{} => {}", a, b));
                    out.push(format!("{} | {}", a, b));
                }
            }
        }
        // cond => cons | fallback
        if n >= 3 {
            for i in 1..n - 1 {
                for j in 1..n - i {
                    let k = n - i - j;
                    if k == 0 {
                        continue;
                    }
                    let (si, sj, sk) = (self.seq(i), self.seq(j), self.seq(k));
                    for a in &si {
                        for b in &sj {
                            for c in &sk {
                                out.push(format!("{} => {} | {}", a, b, c));
                            }
                        }
                    }
                }
            }
        }
        self.exprs.insert(n, out.clone());
        out
    }
}

/// Contexts a core is embedded in (DESIGN.md 5.2). `{}` marks the hole.
pub const CONTEXTS: &[&str] = &[
    "{}",
    "a = 1, {}",
    "a = [1, 2], {}",
    "a = A[1], {}",
    "a = [x: 1, y: 0x01], {}",
    "a = 1, b = 2, {}",
    "f = #'int { [~, 1] __integer_add__ }, a = 1, {}",
    "f = #'int { {} }, 1 f",
    "f = #['int, 'int] { {} }, [1, 2] f",
    "f = #(A['int] | B['int]) { {} }, A[1] f",
    "f = #'int { =0 => 5 | {} }, 0 f",
    "a = 1, [0, { {} }, 2]",
    "a = 1, 7 [~, {}]",
    "1 { {} }",
    "[1, 2] { {} }",
    "A[1] { {} }",
    "[x: 1, y: 2] { {} }",
    "[] { {} }",
    "a = 1, 2 { =9 => 8 | {} }",
    "a = 1, 2 { {} | 8 }",
    "a = 1, 2 { {} => 8 | 9 }",
    "a = 2, { {} }, a",
    "a = 1, c = { {} }, [a, c]",
    "a = 1, \"p{ {} \"s\" }q\"",
    "f = #'int { =0 => 0 | [~, 1] __integer_subtract__ { {} } }, 2 f",
    // variables bound after the core (a core that leaves a local behind shifts them)
    "x = 1, r = { {} }, y = 2, [x, y, r]",
    "x = 1, r = 5 { {} }, y = 2, [x, y, r]",
    "f = #'int { r = { {} }, y = 2, [~, y, r] }, 3 f",
    // an earlier branch that stored bindings before it failed (statically / at run time)
    "a = 1, 7 { 3 =x [] => 8 | {} }",
    "a = 1, [7, 8] { =[x, 9] => x | {} }",
    // ... without `=>`: the pattern fails (binders nil-filled) / matches and a later term is nil
    "f = #(A['int] | B['int]) { =A[x], x | {} }, B[7] f",
    "a = 1, [3, 2] { =[x, _], x =9 | {} }",
    // the flowing value inside a spread tuple, after a spread and plain fields
    "A[x: 1] [..., y: 2, z: {}]",
    "a = [x: 5], 9 [...a, y: 2, z: {}]",
];

/// All programs of the core grammar with at most `max_nodes` nodes, simplest first, at most `cap`.
pub fn programs(max_nodes: usize, cap: usize) -> Vec<String> {
    let mut g = Gen::default();
    let mut out = vec![];
    for n in 1..=max_nodes {
        for p in g.seq(n) {
            if out.len() >= cap {
                return out;
            }
            out.push(p);
        }
    }
    out
}

/// Core × context products: every core of at most `core_nodes` nodes in every context.
pub fn in_contexts(core_nodes: usize, cap: usize) -> (Vec<String>, bool) {
    let mut g = Gen::default();
    let mut out = vec![];
    for n in 1..=core_nodes {
        for core in g.expr(n) {
            for ctx in CONTEXTS {
                if out.len() >= cap {
                    return (out, true);
                }
                // contexts that place the core in a sequence position cannot take `|`/`=>`
                let needs_block = core.contains(" | ") || core.contains(" => ");
                let hole_in_block = ctx.contains("{ {} }") || ctx.contains("{ {} |") || ctx.contains("| {} }") || ctx.contains("{ {} =>");
                if needs_block && !hole_in_block {
                    continue;
                }
                out.push(ctx.replacen("{}", &core, 1));
            }
        }
    }
    (out, false)
}

pub fn counts(max_nodes: usize) -> Vec<(usize, usize)> {
    let mut g = Gen::default();
    (1..=max_nodes).map(|n| (n, g.seq(n).len())).collect()
}
