//! Corpus sources: `std/*.qv`, the plain string literals passed to `evaluate(` / `then_evaluate(` in
//! `quiver-tests/tests/*.rs` (a small Rust-literal scanner; `format!` templates and other non-literal
//! arguments are skipped and counted), the fenced ```quiver blocks of `docs/spec.md`, `examples/**`.

use std::collections::BTreeMap;
use std::path::{Path, PathBuf};

#[derive(Default, Debug, Clone)]
pub struct CorpusStats {
    pub std_files: usize,
    pub std_chunks: usize,
    pub test_files: usize,
    pub test_call_sites: usize,
    pub test_literals: usize,
    pub test_format_templates_skipped: usize,
    pub test_other_nonliteral_skipped: usize,
    pub spec_blocks: usize,
    pub spec_paragraphs: usize,
    pub example_files: usize,
    pub distinct_sources: usize,
}

pub struct Corpus {
    /// distinct sources, each with the label of its first origin; deterministic order
    pub sources: Vec<(String, String)>,
    pub stats: CorpusStats,
}

fn sorted_files(dir: &Path, ext: &str, recursive: bool, out: &mut Vec<PathBuf>) {
    let Ok(rd) = std::fs::read_dir(dir) else { return };
    let mut entries: Vec<PathBuf> = rd.filter_map(|e| e.ok().map(|e| e.path())).collect();
    entries.sort();
    for p in entries {
        if p.is_dir() {
            if recursive {
                sorted_files(&p, ext, recursive, out);
            }
        } else if p.extension().is_some_and(|e| e == ext) {
            out.push(p);
        }
    }
}

pub enum RustArg {
    Literal(String),
    FormatTemplate,
    Other,
}

/// Decode the Rust expression starting at `b[pos..]` if it is a plain string literal followed by `)`.
fn scan_rust_argument(text: &str, mut pos: usize) -> RustArg {
    let b = text.as_bytes();
    let n = b.len();
    while pos < n && (b[pos] as char).is_whitespace() {
        pos += 1;
    }
    if pos >= n {
        return RustArg::Other;
    }
    let rest = &text[pos..];
    if rest.starts_with("&format!") || rest.starts_with("format!") {
        return RustArg::FormatTemplate;
    }
    let (value, after) = if b[pos] == b'"' {
        // ordinary literal
        let mut out = String::new();
        let mut i = pos + 1;
        loop {
            if i >= n {
                return RustArg::Other;
            }
            let c = text[i..].chars().next().unwrap();
            if c == '"' {
                i += 1;
                break;
            }
            if c == '\\' {
                let e = b.get(i + 1).copied().unwrap_or(0);
                match e {
                    b'n' => {
                        out.push('\n');
                        i += 2;
                    }
                    b'r' => {
                        out.push('\r');
                        i += 2;
                    }
                    b't' => {
                        out.push('\t');
                        i += 2;
                    }
                    b'0' => {
                        out.push('\0');
                        i += 2;
                    }
                    b'\\' => {
                        out.push('\\');
                        i += 2;
                    }
                    b'"' => {
                        out.push('"');
                        i += 2;
                    }
                    b'\'' => {
                        out.push('\'');
                        i += 2;
                    }
                    b'x' => {
                        let Some(h) = text.get(i + 2..i + 4) else { return RustArg::Other };
                        let Ok(v) = u8::from_str_radix(h, 16) else { return RustArg::Other };
                        out.push(v as char);
                        i += 4;
                    }
                    b'u' => {
                        let Some(close) = text[i..].find('}') else { return RustArg::Other };
                        let Some(h) = text.get(i + 3..i + close) else { return RustArg::Other };
                        let Ok(v) = u32::from_str_radix(h, 16) else { return RustArg::Other };
                        let Some(ch) = char::from_u32(v) else { return RustArg::Other };
                        out.push(ch);
                        i += close + 1;
                    }
                    b'\n' => {
                        // line continuation: skip the newline and following whitespace
                        i += 2;
                        while i < n && (b[i] as char).is_whitespace() {
                            i += 1;
                        }
                    }
                    _ => return RustArg::Other,
                }
                continue;
            }
            out.push(c);
            i += c.len_utf8();
        }
        (out, i)
    } else if b[pos] == b'r' && (b.get(pos + 1) == Some(&b'"') || b.get(pos + 1) == Some(&b'#')) {
        let mut i = pos + 1;
        let mut hashes = 0;
        while i < n && b[i] == b'#' {
            hashes += 1;
            i += 1;
        }
        if i >= n || b[i] != b'"' {
            return RustArg::Other;
        }
        i += 1;
        let closer = format!("\"{}", "#".repeat(hashes));
        let Some(end) = text[i..].find(&closer) else { return RustArg::Other };
        (text[i..i + end].to_string(), i + end + closer.len())
    } else {
        return RustArg::Other;
    };
    let mut j = after;
    while j < n && (b[j] as char).is_whitespace() {
        j += 1;
    }
    // rustfmt puts a trailing comma after a multi-line argument
    if j < n && b[j] == b',' {
        j += 1;
        while j < n && (b[j] as char).is_whitespace() {
            j += 1;
        }
    }
    if j < n && b[j] == b')' { RustArg::Literal(value) } else { RustArg::Other }
}

/// Split a source into its top-level items (maximal runs of lines that parse on their own), using
/// only line structure: a new chunk starts at a line that begins in column 0 with something other
/// than a closer / continuation, after a line at bracket depth 0.
pub fn top_level_chunks(src: &str) -> Vec<String> {
    let lx = super::lexer::lex(src);
    if !lx.ok {
        return vec![];
    }
    // cut points: Nl tokens at depth 0 outside multi-line strings
    let mut cuts = vec![0usize];
    for (i, t) in lx.toks.iter().enumerate() {
        if t.k == super::lexer::K::Nl && t.depth == 0 && !t.in_multi {
            // not when the next code token is `~>`
            let mut j = i + 1;
            while j < lx.toks.len() && matches!(lx.toks[j].k, super::lexer::K::Ws | super::lexer::K::Nl) {
                j += 1;
            }
            if j < lx.toks.len() && &src[lx.toks[j].s..lx.toks[j].e] == "~>" {
                continue;
            }
            cuts.push(t.e);
        }
    }
    cuts.push(src.len());
    cuts.dedup();
    let mut out: Vec<String> = Vec::new();
    let mut pending = String::new();
    for w in cuts.windows(2) {
        let piece = &src[w[0]..w[1]];
        pending.push_str(piece);
        // comment-only or blank pieces stay attached to the following item
        let has_code = super::lexer::lex(&pending).toks.iter().any(|t| !matches!(t.k, super::lexer::K::Ws | super::lexer::K::Nl | super::lexer::K::Comment));
        if has_code {
            out.push(std::mem::take(&mut pending));
        }
    }
    if !pending.trim().is_empty() {
        match out.last_mut() {
            Some(l) => l.push_str(&pending),
            None => out.push(pending),
        }
    }
    out
}

pub fn load(repo: &Path) -> Result<Corpus, String> {
    let mut stats = CorpusStats::default();
    let mut map: BTreeMap<String, String> = BTreeMap::new();
    let mut order: Vec<String> = Vec::new();
    let add = |src: String, label: String, map: &mut BTreeMap<String, String>, order: &mut Vec<String>| {
        if src.trim().is_empty() {
            return;
        }
        if !map.contains_key(&src) {
            map.insert(src.clone(), label);
            order.push(src);
        }
    };

    // std
    let mut files = Vec::new();
    sorted_files(&repo.join("std"), "qv", false, &mut files);
    if files.is_empty() {
        return Err(format!("no std/*.qv under {}", repo.display()));
    }
    for p in &files {
        let text = std::fs::read_to_string(p).map_err(|e| format!("{}: {}", p.display(), e))?;
        stats.std_files += 1;
        let name = p.file_name().unwrap().to_string_lossy().to_string();
        add(text.clone(), format!("std/{}", name), &mut map, &mut order);
        for (i, c) in top_level_chunks(&text).into_iter().enumerate() {
            stats.std_chunks += 1;
            add(c, format!("std/{}#item{}", name, i), &mut map, &mut order);
        }
    }
    // examples
    let mut files = Vec::new();
    sorted_files(&repo.join("examples"), "qv", true, &mut files);
    for p in &files {
        let text = std::fs::read_to_string(p).map_err(|e| format!("{}: {}", p.display(), e))?;
        stats.example_files += 1;
        let name = p.strip_prefix(repo).unwrap_or(p).to_string_lossy().to_string();
        add(text.clone(), name.clone(), &mut map, &mut order);
        for (i, c) in top_level_chunks(&text).into_iter().enumerate() {
            add(c, format!("{}#item{}", name, i), &mut map, &mut order);
        }
    }
    // spec
    let spec = std::fs::read_to_string(repo.join("docs/spec.md")).map_err(|e| format!("docs/spec.md: {}", e))?;
    {
        let mut in_block = false;
        let mut cur = String::new();
        let mut idx = 0;
        for line in spec.lines() {
            if !in_block {
                if line.trim_start().starts_with("```quiver") {
                    in_block = true;
                    cur.clear();
                }
            } else if line.trim_start().starts_with("```") {
                in_block = false;
                stats.spec_blocks += 1;
                add(cur.clone(), format!("spec.md#block{}", idx), &mut map, &mut order);
                // paragraphs (separated by blank lines) as separate sources too
                for (k, para) in cur.split("\n\n").enumerate() {
                    if para.trim().is_empty() {
                        continue;
                    }
                    stats.spec_paragraphs += 1;
                    add(format!("{}\n", para.trim_end()), format!("spec.md#block{}.p{}", idx, k), &mut map, &mut order);
                }
                idx += 1;
            } else {
                cur.push_str(line);
                cur.push('\n');
            }
        }
    }
    // tests
    let mut files = Vec::new();
    sorted_files(&repo.join("quiver-tests/tests"), "rs", false, &mut files);
    for p in &files {
        let text = std::fs::read_to_string(p).map_err(|e| format!("{}: {}", p.display(), e))?;
        stats.test_files += 1;
        let name = p.file_name().unwrap().to_string_lossy().to_string();
        let mut from = 0;
        let mut k = 0;
        while let Some(off) = text[from..].find("evaluate(") {
            let at = from + off;
            from = at + "evaluate(".len();
            // skip definitions `fn evaluate(`
            if text[..at].ends_with("fn ") || text[..at].ends_with("fn then_") {
                continue;
            }
            stats.test_call_sites += 1;
            match scan_rust_argument(&text, from) {
                RustArg::Literal(s) => {
                    stats.test_literals += 1;
                    add(s, format!("tests/{}#{}", name, k), &mut map, &mut order);
                    k += 1;
                }
                RustArg::FormatTemplate => stats.test_format_templates_skipped += 1,
                RustArg::Other => stats.test_other_nonliteral_skipped += 1,
            }
        }
    }
    stats.distinct_sources = order.len();
    let sources = order
        .into_iter()
        .map(|s| {
            let l = map.get(&s).cloned().unwrap_or_default();
            (s, l)
        })
        .collect();
    Ok(Corpus { sources, stats })
}
