//! Class (ii): all programs of a small grammar up to `n` nodes, and an independent minimal renderer
//! with three spacing styles. Nothing here uses the repository's printer.
//!
//! Node count: every term, pattern leaf, spread field, string text segment and type alias counts 1;
//! chains, sequences, branches, fields and `=P` wrappers are free. Two vocabularies: FULL (every leaf
//! form the printer distinguishes) and REDUCED (one representative per layout class: atom, call-ender,
//! string, tuple name, ripple, tail call, select, reference).

use std::rc::Rc;

#[derive(Clone, Debug)]
pub enum T {
    Leaf(&'static str),
    Tuple(&'static str, Vec<F>),
    Block(Vec<Br>),
    Fn(&'static str, Vec<Br>),
    Spawn(&'static str, Vec<Br>),
    Select(Vec<Chain>),
    Str(bool, Vec<Seg>),
    Match(P),
}

#[derive(Clone, Debug)]
pub enum F {
    Pos(Chain),
    Named(&'static str, Chain),
    Spread(&'static str),
}

#[derive(Clone, Debug)]
pub struct Br {
    pub cond: Vec<Chain>,
    pub cons: Option<Vec<Chain>>,
}

#[derive(Clone, Debug)]
pub struct Chain {
    pub pat: Option<P>,
    pub terms: Vec<T>,
}

#[derive(Clone, Debug)]
pub enum P {
    Leaf(&'static str),
    Tuple(&'static str, Vec<(Option<&'static str>, P)>),
    Partial(&'static str, Vec<(&'static str, Option<P>)>),
    Or(Vec<P>),
}

#[derive(Clone, Debug)]
pub enum Seg {
    Text(&'static str),
    Hole(Vec<Br>),
}

#[derive(Clone, Debug)]
pub enum Stmt {
    Alias(&'static str),
    Seq(Vec<Chain>),
}

pub const FULL_LEAVES: &[&str] = &[
    "0", "-1", "1.5", "1/3", "0x", "0x01", "\"s\"", "A", "[]", "a", "a.x", "a.0", "$", "$0", "$x", "$.x.y", "~", "~.x", ".", "&f", "&.", "&__integer_add__", "^", "^f", "^~",
    "@f", "@~", "@3", "!", "!p", "!'int", "!#'int", "!('int | A)", "!1000", "! []", "%m", "%m/n.f", "__integer_add__", "#'int", "#", "is_ok?", "go!",
];
pub const REDUCED_LEAVES: &[&str] = &["0", "a", "\"s\"", "A", "~", "^", "!p", "&f"];

pub const FULL_FN_HEADS: &[&str] = &["#", "#'int", "#'int -> 'bin", "#<'t>'t", "#('int | A)", "#(x: 'int)", "#['int, 'bin]"];
pub const REDUCED_FN_HEADS: &[&str] = &["#", "#'int"];
pub const FULL_SPAWN_HEADS: &[&str] = &["@", "@'int", "@('int | A)", "@['int]", "@#'int"];
pub const REDUCED_SPAWN_HEADS: &[&str] = &["@"];

pub const FULL_PAT_LEAVES: &[&str] = &[
    "a", "0", "-1", "1.5", "0x01", "\"s\"", "A", "_", "*", "A*", "&a", "'int", "'t<'int>", "[]", "(x)", "('int)a", "('int | 'bin)", "(x: 'int)", "A(x: 'int)", "'%m.t", "'",
];
pub const REDUCED_PAT_LEAVES: &[&str] = &["a", "A", "0"];

pub const ALIASES: &[&str] = &[
    "'t = A",
    "'t = A | B",
    "'t<'a> = Nil | Cons['a, ^]",
    "'t = A[x: 'int, y: ('int | 'bin)]",
    "'t = 'a & 'b | 'c",
    "'t = #'int -> 'bin",
    "'t = (x: (#'bin -> Ok))",
    "'t = (@'int -> 'bin)",
    "'t = \\File",
    "'t = A[...'e, x: 'int]",
    "' = Str['bin]",
    "'<'a> = A['a]",
    "'t = '%m.t<'int>",
    "'t = [f: (#'int -> 'bin) | Nil]",
];

pub struct G {
    pub reduced: bool,
    terms: Vec<Option<Rc<Vec<T>>>>,
    chains: Vec<Option<Rc<Vec<Chain>>>>,
    seqs: Vec<Option<Rc<Vec<Vec<Chain>>>>>,
    brs: Vec<Option<Rc<Vec<Vec<Br>>>>>,
    pats: Vec<Option<Rc<Vec<P>>>>,
}

/// All ways to write `k` as an ordered sum of 1..=max_parts positive parts.
fn compositions(k: usize, max_parts: usize) -> Vec<Vec<usize>> {
    fn rec(k: usize, parts_left: usize, cur: &mut Vec<usize>, out: &mut Vec<Vec<usize>>) {
        if k == 0 {
            if !cur.is_empty() {
                out.push(cur.clone());
            }
            return;
        }
        if parts_left == 0 {
            return;
        }
        for first in 1..=k {
            cur.push(first);
            rec(k - first, parts_left - 1, cur, out);
            cur.pop();
        }
    }
    let mut out = Vec::new();
    rec(k, max_parts, &mut Vec::new(), &mut out);
    out
}

/// Cartesian product of the lists selected by `sizes`.
fn product<X: Clone>(lists: &[Rc<Vec<X>>]) -> Vec<Vec<X>> {
    let mut out: Vec<Vec<X>> = vec![vec![]];
    for l in lists {
        let mut next = Vec::with_capacity(out.len() * l.len());
        for prefix in &out {
            for x in l.iter() {
                let mut p = prefix.clone();
                p.push(x.clone());
                next.push(p);
            }
        }
        out = next;
    }
    out
}

/// Call `f` on every element of the cartesian product of `lists` (first list varies slowest).
fn odometer<X: Clone>(lists: &[Rc<Vec<X>>], f: &mut dyn FnMut(Vec<X>)) {
    if lists.iter().any(|l| l.is_empty()) {
        return;
    }
    let mut idx = vec![0usize; lists.len()];
    loop {
        f(idx.iter().enumerate().map(|(i, &j)| lists[i][j].clone()).collect());
        let mut d = lists.len();
        loop {
            if d == 0 {
                return;
            }
            d -= 1;
            idx[d] += 1;
            if idx[d] < lists[d].len() {
                break;
            }
            idx[d] = 0;
        }
    }
}

impl G {
    pub fn new(reduced: bool, max: usize) -> G {
        G {
            reduced,
            terms: vec![None; max + 2],
            chains: vec![None; max + 2],
            seqs: vec![None; max + 2],
            brs: vec![None; max + 2],
            pats: vec![None; max + 2],
        }
    }

    fn leaves(&self) -> &'static [&'static str] {
        if self.reduced { REDUCED_LEAVES } else { FULL_LEAVES }
    }

    pub fn pats(&mut self, k: usize) -> Rc<Vec<P>> {
        if let Some(v) = &self.pats[k] {
            return v.clone();
        }
        let mut out: Vec<P> = Vec::new();
        if k == 1 {
            let l = if self.reduced { REDUCED_PAT_LEAVES } else { FULL_PAT_LEAVES };
            out.extend(l.iter().map(|s| P::Leaf(s)));
        } else if k >= 2 {
            // composites are free wrappers around sub-patterns totalling k-1 ... count the wrapper as 1
            for comp in compositions(k - 1, 2) {
                let lists: Vec<Rc<Vec<P>>> = comp.iter().map(|&m| self.pats(m)).collect();
                for subs in product(&lists) {
                    // positional tuple, named tuple
                    out.push(P::Tuple("", subs.iter().cloned().map(|p| (None, p)).collect()));
                    out.push(P::Tuple("A", subs.iter().cloned().map(|p| (None, p)).collect()));
                    if !self.reduced || subs.len() == 1 {
                        // labelled first field
                        let mut f: Vec<(Option<&'static str>, P)> = subs.iter().cloned().map(|p| (None, p)).collect();
                        f[0].0 = Some("x");
                        out.push(P::Tuple("", f));
                    }
                    if subs.len() == 1 {
                        out.push(P::Partial("", vec![("x", Some(subs[0].clone()))]));
                        if !self.reduced {
                            out.push(P::Partial("A", vec![("y", None), ("x", Some(subs[0].clone()))]));
                        }
                    }
                    if subs.len() == 2 {
                        out.push(P::Or(subs.clone()));
                    }
                }
            }
        }
        let rc = Rc::new(out);
        self.pats[k] = Some(rc.clone());
        rc
    }

    pub fn terms(&mut self, k: usize) -> Rc<Vec<T>> {
        if let Some(v) = &self.terms[k] {
            return v.clone();
        }
        let mut out: Vec<T> = Vec::new();
        self.gen_terms(k, &mut |t| out.push(t));
        let rc = Rc::new(out);
        self.terms[k] = Some(rc.clone());
        rc
    }

    /// Emit every term of exactly k nodes (only tables of smaller sizes are materialised).
    pub fn gen_terms(&mut self, k: usize, f: &mut dyn FnMut(T)) {
        if k == 1 {
            for s in self.leaves().iter() {
                f(T::Leaf(s));
            }
        }
        // `=P` costs what P costs
        if k >= 1 {
            for p in self.pats(k).iter() {
                f(T::Match(p.clone()));
            }
        }
        if k >= 2 {
            let inner = k - 1;
            // blocks, functions, spawns over branch lists
            let brs = self.brs(inner);
            let (fh, sh) = if self.reduced { (REDUCED_FN_HEADS, REDUCED_SPAWN_HEADS) } else { (FULL_FN_HEADS, FULL_SPAWN_HEADS) };
            for b in brs.iter() {
                f(T::Block(b.clone()));
                for h in fh {
                    f(T::Fn(h, b.clone()));
                }
                for h in sh {
                    f(T::Spawn(h, b.clone()));
                }
                // string with a hole
                f(T::Str(false, vec![Seg::Hole(b.clone())]));
            }
            if inner >= 2 {
                for b in self.brs(inner - 1).iter() {
                    f(T::Str(false, vec![Seg::Text("t "), Seg::Hole(b.clone())]));
                    if !self.reduced {
                        f(T::Str(true, vec![Seg::Text("t "), Seg::Hole(b.clone())]));
                    }
                }
            }
            // tuples: fields totalling `inner`
            for comp in compositions(inner, 3) {
                let lists: Vec<Rc<Vec<Chain>>> = comp.iter().map(|&m| self.chains(m)).collect();
                let reduced = self.reduced;
                odometer(&lists, &mut |cs: Vec<Chain>| {
                    let pos: Vec<F> = cs.iter().cloned().map(F::Pos).collect();
                    f(T::Tuple("", pos.clone()));
                    f(T::Tuple("A", pos.clone()));
                    // first field labelled
                    let mut named = pos.clone();
                    if let F::Pos(c) = &pos[0] {
                        named[0] = F::Named("x", c.clone());
                    }
                    f(T::Tuple("", named));
                    if !reduced && cs.len() > 1 {
                        // all fields labelled
                        let all: Vec<F> = cs.iter().cloned().enumerate().map(|(i, c)| F::Named(if i == 0 { "x" } else { "y" }, c)).collect();
                        f(T::Tuple("A", all));
                    }
                });
            }
            // spreads (a spread field costs 1)
            let rest = inner - 1;
            if rest == 0 {
                f(T::Tuple("", vec![F::Spread("...")]));
                f(T::Tuple("A", vec![F::Spread("...a")]));
                f(T::Tuple("~", vec![F::Spread("...")]));
            } else {
                for c in self.chains(rest).iter() {
                    f(T::Tuple("~", vec![F::Spread("..."), F::Named("y", c.clone())]));
                    f(T::Tuple("a", vec![F::Spread("..."), F::Pos(c.clone())]));
                    f(T::Tuple("", vec![F::Named("w", c.clone()), F::Spread("...a")]));
                    if !self.reduced {
                        f(T::Tuple("A", vec![F::Spread("...a"), F::Pos(c.clone())]));
                    }
                }
            }
            // select with a source list
            for comp in compositions(inner, 2) {
                let lists: Vec<Rc<Vec<Chain>>> = comp.iter().map(|&m| self.chains(m)).collect();
                odometer(&lists, &mut |cs: Vec<Chain>| f(T::Select(cs)));
            }
        }
    }

    pub fn chains(&mut self, k: usize) -> Rc<Vec<Chain>> {
        if let Some(v) = &self.chains[k] {
            return v.clone();
        }
        let mut out: Vec<Chain> = Vec::new();
        self.gen_chains(k, &mut |c| out.push(c));
        let rc = Rc::new(out);
        self.chains[k] = Some(rc.clone());
        rc
    }

    pub fn gen_chains(&mut self, k: usize, f: &mut dyn FnMut(Chain)) {
        for comp in compositions(k, 4) {
            if comp.len() == 1 {
                self.gen_terms(k, &mut |t| f(Chain { pat: None, terms: vec![t] }));
            } else {
                let lists: Vec<Rc<Vec<T>>> = comp.iter().map(|&m| self.terms(m)).collect();
                odometer(&lists, &mut |ts: Vec<T>| f(Chain { pat: None, terms: ts }));
            }
        }
        // bindings: pattern of size i, terms of size k-i
        for i in 1..k {
            let ps = self.pats(i);
            for comp in compositions(k - i, 3) {
                let lists: Vec<Rc<Vec<T>>> = comp.iter().map(|&m| self.terms(m)).collect();
                odometer(&lists, &mut |ts: Vec<T>| {
                    for p in ps.iter() {
                        f(Chain { pat: Some(p.clone()), terms: ts.clone() });
                    }
                });
            }
        }
    }

    pub fn seqs(&mut self, k: usize) -> Rc<Vec<Vec<Chain>>> {
        if let Some(v) = &self.seqs[k] {
            return v.clone();
        }
        let mut out = Vec::new();
        self.gen_seqs(k, &mut |s| out.push(s));
        let rc = Rc::new(out);
        self.seqs[k] = Some(rc.clone());
        rc
    }

    pub fn gen_seqs(&mut self, k: usize, f: &mut dyn FnMut(Vec<Chain>)) {
        for comp in compositions(k, 3) {
            if comp.len() == 1 {
                self.gen_chains(k, &mut |c| f(vec![c]));
            } else {
                let lists: Vec<Rc<Vec<Chain>>> = comp.iter().map(|&m| self.chains(m)).collect();
                odometer(&lists, f);
            }
        }
    }

    /// branch lists (1..=3 branches) totalling k nodes
    pub fn brs(&mut self, k: usize) -> Rc<Vec<Vec<Br>>> {
        if let Some(v) = &self.brs[k] {
            return v.clone();
        }
        // single branches of size m
        let mut single: Vec<Rc<Vec<Br>>> = vec![Rc::new(vec![])];
        for m in 1..=k {
            let mut v: Vec<Br> = Vec::new();
            for s in self.seqs(m).iter() {
                v.push(Br { cond: s.clone(), cons: None });
            }
            for i in 1..m {
                let conds = self.seqs(i);
                let conss = self.seqs(m - i);
                for c in conds.iter() {
                    for d in conss.iter() {
                        v.push(Br { cond: c.clone(), cons: Some(d.clone()) });
                    }
                }
            }
            single.push(Rc::new(v));
        }
        let mut out = Vec::new();
        for comp in compositions(k, 3) {
            let lists: Vec<Rc<Vec<Br>>> = comp.iter().map(|&m| single[m].clone()).collect();
            out.extend(product(&lists));
        }
        let rc = Rc::new(out);
        self.brs[k] = Some(rc.clone());
        rc
    }

    /// programs of exactly k nodes: one or two statements
    pub fn programs(&mut self, k: usize) -> Vec<Vec<Stmt>> {
        let mut out = Vec::new();
        self.gen_programs(k, &mut |p| out.push(p));
        out
    }

    /// Emit every program of exactly k nodes; only tables of sizes < k are materialised.
    pub fn gen_programs(&mut self, k: usize, f: &mut dyn FnMut(Vec<Stmt>)) {
        self.gen_seqs(k, &mut |s| f(vec![Stmt::Seq(s)]));
        if k == 1 {
            for a in ALIASES {
                f(vec![Stmt::Alias(a)]);
            }
        }
        let stmts = |g: &mut G, m: usize| -> Vec<Stmt> {
            let mut v: Vec<Stmt> = g.seqs(m).iter().map(|s| Stmt::Seq(s.clone())).collect();
            if m == 1 {
                v.extend(ALIASES.iter().map(|a| Stmt::Alias(a)));
            }
            v
        };
        for i in 1..k {
            let a = stmts(self, i);
            let b = stmts(self, k - i);
            for x in &a {
                // two statements only when the first is an alias or a single chain (keeps the count
                // down: `a, b` vs `a⏎b` is already covered by the sequence separator styles)
                let first_ok = match x {
                    Stmt::Alias(_) => true,
                    Stmt::Seq(s) => s.len() == 1,
                };
                if !first_ok {
                    continue;
                }
                for y in &b {
                    let second_ok = match (x, y) {
                        (Stmt::Alias(_), _) => true,
                        (_, Stmt::Alias(_)) => true,
                        (Stmt::Seq(_), Stmt::Seq(s)) => s.len() == 1,
                    };
                    if second_ok {
                        f(vec![x.clone(), y.clone()]);
                    }
                }
            }
        }
    }
}

// -------------------------------------------------------------------------------------------------
// Rendering
// -------------------------------------------------------------------------------------------------

#[derive(Clone, Copy, PartialEq, Eq, Debug)]
pub enum Style {
    /// one line, single spaces, `, ` separators
    Inline,
    /// everything vertical: one step / branch / field / term per line, `~>` continuations, indent 4
    Vertical,
    /// no optional whitespace, explicit ` ~> ` between terms, trailing separators
    Tight,
}

pub const STYLES: [Style; 3] = [Style::Inline, Style::Vertical, Style::Tight];

fn ind(n: usize) -> String {
    " ".repeat(n)
}

pub fn render_program(p: &[Stmt], st: Style) -> String {
    let parts: Vec<String> = p
        .iter()
        .map(|s| match s {
            Stmt::Alias(a) => a.to_string(),
            Stmt::Seq(s) => render_seq(s, st, 0),
        })
        .collect();
    match st {
        Style::Inline | Style::Tight => parts.join("\n"),
        Style::Vertical => parts.join("\n\n"),
    }
}

pub fn render_seq(s: &[Chain], st: Style, i: usize) -> String {
    let parts: Vec<String> = s.iter().map(|c| render_chain(c, st, i)).collect();
    match st {
        Style::Inline => parts.join(", "),
        Style::Vertical => parts.join(&format!("\n{}", ind(i))),
        Style::Tight => {
            let mut o = parts.join(",");
            if parts.len() > 1 {
                o.push(',');
            }
            o
        }
    }
}

pub fn render_chain(c: &Chain, st: Style, i: usize) -> String {
    let terms: Vec<String> = c.terms.iter().map(|t| render_term(t, st, i)).collect();
    let body = match st {
        Style::Inline => terms.join(" "),
        Style::Vertical => terms.join(&format!("\n{}~> ", ind(i))),
        Style::Tight => terms.join(" ~> "),
    };
    match &c.pat {
        Some(p) => format!("{} = {}", render_pat(p, st), body),
        None => body,
    }
}

fn render_branches(b: &[Br], st: Style, i: usize) -> String {
    // `i` is the indent of the line carrying the opening brace
    match st {
        Style::Inline => {
            let parts: Vec<String> = b.iter().map(|br| render_br(br, st, i)).collect();
            format!("{{ {} }}", parts.join(" | "))
        }
        Style::Tight => {
            let parts: Vec<String> = b.iter().map(|br| render_br(br, st, i)).collect();
            format!("{{{}}}", parts.join("|"))
        }
        Style::Vertical => {
            let mut o = String::from("{\n");
            for br in b {
                o.push_str(&ind(i + 4));
                if b.len() > 1 {
                    o.push_str("| ");
                    o.push_str(&render_br(br, st, i + 6));
                } else {
                    o.push_str(&render_br(br, st, i + 4));
                }
                o.push('\n');
            }
            o.push_str(&ind(i));
            o.push('}');
            o
        }
    }
}

fn render_br(b: &Br, st: Style, i: usize) -> String {
    let cond = render_seq(&b.cond, st, i);
    match &b.cons {
        None => cond,
        Some(c) => match st {
            Style::Inline => format!("{} => {}", cond, render_seq(c, st, i)),
            Style::Tight => format!("{}=>{}", cond, render_seq(c, st, i)),
            Style::Vertical => format!("{}\n{}=> {}", cond, ind(i), render_seq(c, st, i + 3)),
        },
    }
}

fn render_field(f: &F, st: Style, i: usize) -> String {
    match f {
        F::Pos(c) => render_chain(c, st, i),
        F::Named(n, c) => format!("{}: {}", n, render_chain(c, st, i)),
        F::Spread(s) => s.to_string(),
    }
}

pub fn render_term(t: &T, st: Style, i: usize) -> String {
    match t {
        T::Leaf(s) => s.to_string(),
        T::Match(p) => format!("={}", render_pat(p, st)),
        T::Tuple(prefix, fields) => match st {
            Style::Inline => format!("{}[{}]", prefix, fields.iter().map(|f| render_field(f, st, i)).collect::<Vec<_>>().join(", ")),
            Style::Tight => format!("{}[{}]", prefix, fields.iter().map(|f| render_field(f, st, i)).collect::<Vec<_>>().join(",")),
            Style::Vertical => {
                let mut o = format!("{}[\n", prefix);
                for f in fields {
                    o.push_str(&ind(i + 4));
                    o.push_str(&render_field(f, st, i + 4));
                    o.push_str(",\n");
                }
                o.push_str(&ind(i));
                o.push(']');
                o
            }
        },
        T::Block(b) => render_branches(b, st, i),
        T::Fn(h, b) => {
            let sep = if *h == "#" || st == Style::Tight { "" } else { " " };
            format!("{}{}{}", h, sep, render_branches(b, st, i))
        }
        T::Spawn(h, b) => {
            let sep = if *h == "@" || *h == "@#" || st == Style::Tight { "" } else { " " };
            format!("{}{}{}", h, sep, render_branches(b, st, i))
        }
        T::Select(cs) => match st {
            Style::Inline => format!("! [{}]", cs.iter().map(|c| render_chain(c, st, i)).collect::<Vec<_>>().join(", ")),
            Style::Tight => format!("! [{}]", cs.iter().map(|c| render_chain(c, st, i)).collect::<Vec<_>>().join(",")),
            Style::Vertical => {
                let parts: Vec<String> = cs.iter().map(|c| format!("{}{}", ind(i + 4), render_chain(c, st, i + 4))).collect();
                format!("! [\n{}\n{}]", parts.join(",\n"), ind(i))
            }
        },
        T::Str(multi, segs) => {
            // holes are always rendered inline (a hole may not span lines in every position)
            let mut body = String::new();
            for s in segs {
                match s {
                    Seg::Text(t) => body.push_str(t),
                    Seg::Hole(b) => {
                        let parts: Vec<String> = b.iter().map(|br| render_br(br, Style::Inline, 0)).collect();
                        match st {
                            Style::Tight => body.push_str(&format!("{{{}}}", parts.join("|"))),
                            _ => body.push_str(&format!("{{ {} }}", parts.join(" | "))),
                        }
                    }
                }
            }
            if *multi {
                let margin = ind(i + 2);
                format!("\"\"\"\n{}{}\n{}\"\"\"", margin, body, margin)
            } else {
                format!("\"{}\"", body)
            }
        }
    }
}

pub fn render_pat(p: &P, st: Style) -> String {
    let sep = if st == Style::Tight { "," } else { ", " };
    match p {
        P::Leaf(s) => s.to_string(),
        P::Tuple(name, fields) => {
            let fs: Vec<String> = fields
                .iter()
                .map(|(l, p)| match l {
                    Some(l) => format!("{}: {}", l, render_pat(p, st)),
                    None => render_pat(p, st),
                })
                .collect();
            format!("{}[{}]", name, fs.join(sep))
        }
        P::Partial(name, fields) => {
            let fs: Vec<String> = fields
                .iter()
                .map(|(l, p)| match p {
                    Some(p) => format!("{}: {}", l, render_pat(p, st)),
                    None => l.to_string(),
                })
                .collect();
            // the partial-pattern field separator requires a space after the comma
            format!("{}({})", name, fs.join(", "))
        }
        P::Or(alts) => {
            let a: Vec<String> = alts.iter().map(|p| render_pat(p, st)).collect();
            format!("({})", a.join(if st == Style::Tight { "|" } else { " | " }))
        }
    }
}

// -------------------------------------------------------------------------------------------------
// Type expressions (class ii-b)
// -------------------------------------------------------------------------------------------------

#[derive(Clone, Debug)]
pub enum Ty {
    Atom(&'static str),
    /// `A[T, …]`, `[T]`, `[x: T]`, `(x: T)`, `A(x: T)` … : (open text, labels?, close text)
    Wrap(&'static str, Vec<(Option<&'static str>, Ty)>, &'static str),
    Union(Vec<Ty>),
    Inter(Vec<Ty>),
    Func(Box<Ty>, Box<Ty>),
    Proc(Option<Box<Ty>>, Option<Box<Ty>>),
    Generic(&'static str, Vec<Ty>),
}

pub const TY_ATOMS: &[&str] = &["'int", "A", "'t", "^", "^1", "\\File", "'%m", "'%m.t", "'", "[]", "()", "A()", "@"];

fn ty_loose(t: &Ty) -> bool {
    matches!(t, Ty::Union(_) | Ty::Inter(_) | Ty::Func(..))
}

pub fn render_ty(t: &Ty, parens_if_loose: bool) -> String {
    let s = match t {
        Ty::Atom(s) => s.to_string(),
        Ty::Wrap(open, fields, close) => {
            let fs: Vec<String> = fields
                .iter()
                .map(|(l, t)| match l {
                    Some(l) => format!("{}: {}", l, render_ty(t, false)),
                    None => render_ty(t, false),
                })
                .collect();
            format!("{}{}{}", open, fs.join(", "), close)
        }
        Ty::Union(ts) => ts.iter().map(|t| render_ty(t, matches!(t, Ty::Union(_) | Ty::Func(..)))).collect::<Vec<_>>().join(" | "),
        Ty::Inter(ts) => ts.iter().map(|t| render_ty(t, true)).collect::<Vec<_>>().join(" & "),
        Ty::Func(a, b) => format!("#{} -> {}", render_ty(a, true), render_ty(b, true)),
        Ty::Proc(r, o) => match (r, o) {
            (None, None) => "@".to_string(),
            (Some(r), None) => format!("@{}", render_ty(r, true)),
            (None, Some(o)) => format!("(@-> {})", render_ty(o, true)),
            (Some(r), Some(o)) => format!("(@{} -> {})", render_ty(r, true), render_ty(o, true)),
        },
        Ty::Generic(head, args) => format!("{}<{}>", head, args.iter().map(|t| render_ty(t, false)).collect::<Vec<_>>().join(", ")),
    };
    if parens_if_loose && ty_loose(t) { format!("({})", s) } else { s }
}

/// All types of exactly k nodes.
pub fn types(k: usize, memo: &mut Vec<Option<Rc<Vec<Ty>>>>) -> Rc<Vec<Ty>> {
    if let Some(v) = &memo[k] {
        return v.clone();
    }
    let mut out: Vec<Ty> = Vec::new();
    if k == 1 {
        out.extend(TY_ATOMS.iter().map(|a| Ty::Atom(a)));
    } else {
        // unary wrappers
        for t in types(k - 1, memo).iter() {
            out.push(Ty::Wrap("A[", vec![(None, t.clone())], "]"));
            out.push(Ty::Wrap("[", vec![(Some("x"), t.clone())], "]"));
            out.push(Ty::Wrap("(", vec![(Some("x"), t.clone())], ")"));
            out.push(Ty::Wrap("A(", vec![(Some("x"), t.clone())], ")"));
            out.push(Ty::Wrap("A[...'e, ", vec![(Some("x"), t.clone())], "]"));
            out.push(Ty::Proc(Some(Box::new(t.clone())), None));
            out.push(Ty::Proc(None, Some(Box::new(t.clone()))));
            out.push(Ty::Generic("'list", vec![t.clone()]));
            out.push(Ty::Generic("'%m.t", vec![t.clone()]));
            out.push(Ty::Generic("'", vec![t.clone()]));
        }
        // binary
        if k >= 3 {
            for i in 1..(k - 1) {
                let a = types(i, memo);
                let b = types(k - 1 - i, memo);
                for x in a.iter() {
                    for y in b.iter() {
                        out.push(Ty::Union(vec![x.clone(), y.clone()]));
                        out.push(Ty::Inter(vec![x.clone(), y.clone()]));
                        out.push(Ty::Func(Box::new(x.clone()), Box::new(y.clone())));
                        out.push(Ty::Proc(Some(Box::new(x.clone())), Some(Box::new(y.clone()))));
                        out.push(Ty::Wrap("[", vec![(None, x.clone()), (Some("y"), y.clone())], "]"));
                        out.push(Ty::Generic("'pair", vec![x.clone(), y.clone()]));
                    }
                }
            }
        }
    }
    let rc = Rc::new(out);
    memo[k] = Some(rc.clone());
    rc
}

/// The contexts a type expression is embedded in.
pub fn type_contexts(t: &Ty) -> Vec<String> {
    let bare = render_ty(t, false);
    let atom = render_ty(t, true);
    vec![
        format!("'t = {}", bare),
        format!("'t<'a> =\n  | {}", bare),
        format!("#{} {{ $ }}", atom),
        format!("f = #'int -> {} {{ $ }}", atom),
        format!("a =({})", bare),
        format!("a =({})x", bare),
        format!("!({})", bare),
        format!("@({}) {{ $ }}", bare),
        format!("[#{}, !#{}]", atom, atom),
    ]
}

/// Constructs excluded from the bulk generators because every program containing them fails for one
/// already-recorded reason (they would drown the enumeration in copies of the same finding); this
/// fixed probe set carries them instead.
pub const EXCLUDED_CONSTRUCTS: &[&str] = &[
    "`@#…` spawn of an explicit function literal without a body / with type parameters / with a return type (only `@#'int { … }` is kept in the bulk grammar)",
    "`'alias[..., field: T]` type-level spread-update nested inside other type expressions",
];

pub const PROBES: &[&str] = &[
    "@#",
    "@#'int",
    "x @#'int",
    "@#'int -> 'bin { $ }",
    "@#<'t>'t { $ }",
    "@#(x: 'int)",
    "p = @#'int, 1 p",
    "'t = 'e[..., x: 'int]",
    "'t = 'e[x: 'int, ...]",
    "'t = A['e[..., x: 'int]]",
    "'t = 'e[..., x: 'int] | B",
    "#'e[..., x: 'int] { $ }",
    "a =('e[..., x: 'int])",
    "!('e[..., x: 'int])",
    "@'e[..., x: 'int] { $ }",
    "'t = 'e<'int>[..., x: 'int]",
    // forms the bulk generators only reach through shrinking (kept as direct witnesses)
    "(') = A",
    "=(<'int>)",
    "'int = { [] }",
    // spawn of a term that is neither a function nor an atom
    "@[0]",
    "@\"s\"",
    "@!p",
    "x @@f",
];

// -------------------------------------------------------------------------------------------------
// Core x context products (depth by embedding rather than by node count)
// -------------------------------------------------------------------------------------------------

pub const CORE_TERMS: &[&str] = &["0", "a", "\"s\"", "A", "~", "^", "!p", "&f", "=a", "=A", "[a, 0]", "{ a }", "#{ a }"];

pub const CONTEXTS: &[&str] = &[
    "{ § | a }",
    "{ a => § | a }",
    "{ § => a | a }",
    "{ a | a => § }",
    "{ § }",
    "#{ § }",
    "f = #'int { § }",
    "[§, a]",
    "A[x: §]",
    "x = §",
    "a, §, a",
    "\"s {§} t\"",
    "! [§, a]",
    "@{ § }",
    "{ a | b { § | a } }",
    "{ a => §, a | a }",
    "a { =A => § | =B => a | c }",
];

/// Every chain of 1..=max_terms core terms embedded in every context.
pub fn context_products(max_terms: usize) -> Vec<String> {
    let mut cores: Vec<String> = Vec::new();
    let mut layer: Vec<String> = vec![String::new()];
    for _ in 0..max_terms {
        let mut next = Vec::new();
        for p in &layer {
            for t in CORE_TERMS {
                next.push(if p.is_empty() { t.to_string() } else { format!("{} {}", p, t) });
            }
        }
        cores.extend(next.iter().cloned());
        layer = next;
    }
    let mut out = Vec::new();
    for c in &cores {
        for ctx in CONTEXTS {
            out.push(ctx.replace('§', c));
        }
    }
    out
}
