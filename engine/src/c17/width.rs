//! Class (iii): width interaction. Identifiers and literals of a base program are stretched so that
//! the formatter's groups cross its 40 / 50 / 100 column thresholds from both sides.

use super::lexer::{self, K};

pub const LENGTHS: [usize; 4] = [1, 9, 17, 33];

/// Indices (into the token list) of the stretchable tokens of `src`.
pub fn stretchable(src: &str, lx: &lexer::Lexed) -> Vec<usize> {
    let b = src.as_bytes();
    let mut out = Vec::new();
    for (i, t) in lx.toks.iter().enumerate() {
        let ok = match t.k {
            K::Ident => {
                // not a type name (`'int`), an import path (`%m`, `%m/n`) or a keyword-like primitive
                let prev = if t.s > 0 { b[t.s - 1] } else { b' ' };
                prev != b'\'' && prev != b'%' && prev != b'/'
            }
            K::Upper | K::Int | K::Bin => true,
            K::StrText => src[t.s..t.e].bytes().all(|c| c.is_ascii_lowercase() || c == b' ') && !t.in_multi,
            _ => false,
        };
        if ok {
            out.push(i);
        }
    }
    out
}

fn resize(kind: K, text: &str, len: usize) -> String {
    match kind {
        K::Ident => {
            let (stem, suffix) = match text.find(|c| c == '?' || c == '!') {
                Some(p) => (&text[..p], &text[p..]),
                None => (text, ""),
            };
            if len <= 1 {
                format!("{}{}", &stem[..1], suffix)
            } else if stem.len() >= len {
                text.to_string()
            } else {
                format!("{}{}{}", stem, "a".repeat(len - stem.len()), suffix)
            }
        }
        K::Upper => {
            if len <= 1 {
                text[..1].to_string()
            } else if text.len() >= len {
                text.to_string()
            } else {
                format!("{}{}", text, "a".repeat(len - text.len()))
            }
        }
        K::Int => {
            let neg = text.starts_with('-');
            let digits = if neg { &text[1..] } else { text };
            let d = if len <= 1 {
                digits[..1].to_string()
            } else if digits.len() >= len {
                digits.to_string()
            } else {
                format!("{}{}", digits, "0".repeat(len - digits.len()))
            };
            if neg { format!("-{}", d) } else { d }
        }
        K::Bin => {
            if len <= 1 {
                "0x".to_string()
            } else {
                let mut s = text.to_string();
                while s.len() < len {
                    s.push_str("01");
                }
                s
            }
        }
        K::StrText => {
            if len <= 1 {
                text[..1].to_string()
            } else if text.len() >= len {
                text.to_string()
            } else {
                format!("{}{}", text, "a".repeat(len - text.len()))
            }
        }
        _ => text.to_string(),
    }
}

/// `src` with the tokens selected by `which` (None = all stretchable) resized to `len`.
pub fn stretch(src: &str, lx: &lexer::Lexed, idx: &[usize], which: Option<usize>, len: usize) -> String {
    let mut out = String::with_capacity(src.len() + 64);
    let mut last = 0;
    for &i in idx {
        if let Some(w) = which {
            if w != i {
                continue;
            }
        }
        let t = lx.toks[i];
        out.push_str(&src[last..t.s]);
        out.push_str(&resize(t.k, &src[t.s..t.e], len));
        last = t.e;
    }
    out.push_str(&src[last..]);
    out
}

/// The {1,9,17,33} variants of a base: all tokens at once, and each token alone.
pub fn variants(src: &str) -> Vec<String> {
    let lx = lexer::lex(src);
    if !lx.ok {
        return vec![];
    }
    let idx = stretchable(src, &lx);
    let mut out = Vec::new();
    if idx.is_empty() {
        return out;
    }
    for &l in &LENGTHS {
        out.push(stretch(src, &lx, &idx, None, l));
    }
    if idx.len() > 1 {
        for &i in &idx {
            for &l in &LENGTHS[1..] {
                out.push(stretch(src, &lx, &idx, Some(i), l));
            }
        }
    }
    out.retain(|s| s != src);
    out.sort();
    out.dedup();
    out
}

/// One token at a time swept over every length 2..=max.
pub fn sweep(src: &str, max: usize) -> Vec<String> {
    let lx = lexer::lex(src);
    if !lx.ok {
        return vec![];
    }
    let idx = stretchable(src, &lx);
    let mut out = Vec::new();
    for &i in &idx {
        let cur = lx.toks[i].e - lx.toks[i].s;
        for l in (cur + 1)..=max {
            let v = stretch(src, &lx, &idx, Some(i), l);
            if v != src {
                out.push(v);
            }
        }
    }
    out
}
