//! Class (v): string escape and multi-line string shapes up to 3 segments, in several contexts.

/// Single-line pieces: literal-text shapes (as written in source) and interpolation holes.
pub const SINGLE_PIECES: &[&str] = &[
    "a", " ", "\\n", "\\r", "\\t", "\\\\", "\\\"", "\\{", "}", "//", "é", "'", "{x}", "{ x }", "{\"s\"}", "{a | b}", "{x { =A => \"y\" | \"n\" }}", "{[p, q] f}",
    "{\"{x}\"}", "{\"//\"}",
];

/// Multi-line pieces; "\n" is a line break inside the literal.
pub const MULTI_PIECES: &[&str] = &[
    "a", " ", "\\s", "\\t", "\t", "\\\"", "\"", "\"\"", "\\{", "}", "\\\\", "\\n", "//", "\\\n", "\n", "é", "{x}", "{ x }", "{\"s\"}", "{a | b}", "\\r", "  a",
];

fn sequences(pieces: &[&'static str], max: usize) -> Vec<Vec<&'static str>> {
    let mut out: Vec<Vec<&'static str>> = Vec::new();
    let mut layer: Vec<Vec<&'static str>> = vec![vec![]];
    for _ in 0..max {
        let mut next = Vec::new();
        for p in &layer {
            for q in pieces {
                let mut v = p.clone();
                v.push(*q);
                next.push(v);
            }
        }
        out.extend(next.iter().cloned());
        layer = next;
    }
    out
}

pub fn single_contexts(lit: &str) -> Vec<String> {
    vec![
        format!("s = {}", lit),
        lit.to_string(),
        format!("[x: {}, 1]", lit),
        format!("f = #{{ v {{ =A => {} | \"z\" }} }}", lit),
        format!("\"pre {{{}}} post\"", lit),
        format!("v ={}", lit),
        format!("{} = v", lit),
        // comments after the literal (a scanner that loses track of where the string ends
        // swallows them)
        format!("s = {} // c\nt = 1 // d", lit),
        format!("// b\n[{}, // c\n 1]", lit),
    ]
}

/// All single-line string cases with up to `max` pieces (plus the empty string).
pub fn single_cases(max: usize) -> Vec<String> {
    let mut out = Vec::new();
    out.extend(single_contexts("\"\""));
    for seq in sequences(SINGLE_PIECES, max) {
        let lit = format!("\"{}\"", seq.concat());
        out.extend(single_contexts(&lit));
    }
    out
}

/// Render a multi-line literal whose closing delimiter sits at `margin` spaces and whose content
/// lines carry `extra` more spaces.
fn multi_literal(content: &str, margin: usize, extra: usize) -> String {
    let m = " ".repeat(margin);
    let e = " ".repeat(extra);
    let mut o = String::from("\"\"\"\n");
    for line in content.split('\n') {
        if !line.is_empty() {
            o.push_str(&m);
            o.push_str(&e);
            o.push_str(line);
        }
        o.push('\n');
    }
    o.push_str(&m);
    o.push_str("\"\"\"");
    o
}

pub fn multi_contexts(lit: &str) -> Vec<String> {
    vec![
        format!("s = {}", lit),
        format!("[x: {}]", lit),
        format!("f = #{{ {} }}", lit),
        format!("v ={}", lit),
        format!("s = {} // c\nt = 1 // d", lit),
    ]
}

pub fn multi_cases(max: usize) -> Vec<String> {
    let mut out = Vec::new();
    let mut contents: Vec<String> = vec![String::new()];
    contents.extend(sequences(MULTI_PIECES, max).into_iter().map(|s| s.concat()));
    for c in contents {
        for (margin, extra) in [(0usize, 0usize), (4, 0), (0, 2), (4, 2)] {
            let lit = multi_literal(&c, margin, extra);
            out.extend(multi_contexts(&lit));
        }
        // the empty form without any content line
    }
    out.extend(multi_contexts("\"\"\"\n\"\"\""));
    out.extend(multi_contexts("\"\"\"\n    \"\"\""));
    out
}
