//! Class (iv): trivia insertion at every token boundary.

use super::lexer::{self, K};

pub const FORMS: [&str; 3] = [" // cK⏎ (trailing line comment)", "⏎⏎ (blank line)", "⏎// cK⏎ (own-line comment)"];

pub struct Variant {
    pub text: String,
    pub pos: usize,
    pub form: u8,
    /// index of the top-level statement (separated by depth-0 line breaks) the position lies in
    pub stmt: usize,
    pub k: usize,
}

fn insertion(form: u8, k: usize) -> String {
    match form {
        0 => format!(" // c{}\n", k),
        1 => "\n\n".to_string(),
        _ => format!("\n// c{}\n", k),
    }
}

pub fn token_count(src: &str) -> usize {
    lexer::lex(src).toks.iter().filter(|t| !matches!(t.k, K::Ws | K::Nl)).count()
}

/// (position, statement index) of every insertion point.
fn points(src: &str) -> Vec<(usize, usize)> {
    let lx = lexer::lex(src);
    if !lx.ok {
        return vec![];
    }
    let bounds = lexer::boundaries(src, &lx);
    // statement index of an offset = number of depth-0 line breaks (outside """ strings) before it
    let breaks: Vec<usize> = lx.toks.iter().filter(|t| t.k == K::Nl && t.depth == 0 && !t.in_multi).map(|t| t.e).collect();
    bounds
        .into_iter()
        .map(|p| {
            let stmt = breaks.iter().filter(|&&b| b <= p).count();
            (p, stmt)
        })
        .collect()
}

pub fn singles(src: &str) -> Vec<Variant> {
    let mut out = Vec::new();
    for (k, (p, stmt)) in points(src).into_iter().enumerate() {
        for form in 0..3u8 {
            let ins = insertion(form, k);
            let mut text = String::with_capacity(src.len() + ins.len());
            text.push_str(&src[..p]);
            text.push_str(&ins);
            text.push_str(&src[p..]);
            out.push(Variant { text, pos: p, form, stmt, k });
        }
    }
    out
}

/// All pairs of insertions at two different points of one statement whose members each passed alone
/// (`ok[i]`); calls `f` on each pair's text. Returns (pairs run, pairs skipped).
pub fn pairs(src: &str, singles: &[Variant], ok: &[bool], mut f: impl FnMut(&str)) -> (usize, usize) {
    let mut run = 0;
    let mut skipped = 0;
    for i in 0..singles.len() {
        for j in (i + 1)..singles.len() {
            let (a, b) = (&singles[i], &singles[j]);
            if a.pos >= b.pos || a.stmt != b.stmt {
                continue;
            }
            if !ok[i] || !ok[j] {
                skipped += 1;
                continue;
            }
            let ia = insertion(a.form, a.k);
            let ib = insertion(b.form, b.k);
            let mut text = String::with_capacity(src.len() + ia.len() + ib.len());
            text.push_str(&src[..a.pos]);
            text.push_str(&ia);
            text.push_str(&src[a.pos..b.pos]);
            text.push_str(&ib);
            text.push_str(&src[b.pos..]);
            f(&text);
            run += 1;
        }
    }
    (run, skipped)
}
