//! The C17 oracle: for a source `s` the parser accepts, with `f = format(parse(s), s)`:
//!   (1) `parse(f)` succeeds; (2) `format(parse(f), f) == f`; (3) `canon(parse(f)) == canon(parse(s))`
//!   where `canon` = `normalize_blocks(keep: never, lift: true, group_consequences: false)` (what the
//!   compiler applies before code generation; AST equality ignores spans by construction);
//!   (4) the comment sequence of `s` (independent lexer) is a subsequence of that of `f`
//!   ("every comment of the input appears in the output in the same relative order");
//!   (5) on request: both compile to identical bytecode.
//! Every call into the repository runs under `catch_unwind`; a panic is a failure of its own kind.

use super::lexer;
use quiver_compiler::ast::Program;
use std::panic::{AssertUnwindSafe, catch_unwind};

#[derive(Clone, Copy, PartialEq, Eq, Debug, PartialOrd, Ord, Hash)]
pub enum Kind {
    ParsePanic,
    FormatPanic,
    OutputUnparseable,
    NotFixpoint,
    AstChanged,
    CommentLost,
    BytecodeChanged,
}

impl Kind {
    pub fn name(self) -> &'static str {
        match self {
            Kind::ParsePanic => "parse-panic",
            Kind::FormatPanic => "format-panic",
            Kind::OutputUnparseable => "output-unparseable",
            Kind::NotFixpoint => "not-fixpoint",
            Kind::AstChanged => "program-changed",
            Kind::CommentLost => "comment-lost",
            Kind::BytecodeChanged => "bytecode-changed",
        }
    }
    pub fn from_name(s: &str) -> Option<Kind> {
        Some(match s {
            "parse-panic" => Kind::ParsePanic,
            "format-panic" => Kind::FormatPanic,
            "output-unparseable" => Kind::OutputUnparseable,
            "not-fixpoint" => Kind::NotFixpoint,
            "program-changed" => Kind::AstChanged,
            "comment-lost" => Kind::CommentLost,
            "bytecode-changed" => Kind::BytecodeChanged,
            _ => return None,
        })
    }
}

#[derive(Clone, Debug)]
pub struct Failure {
    pub kind: Kind,
    /// observed vs expected, human readable
    pub detail: String,
    pub formatted: Option<String>,
}

#[derive(Clone, Debug, Default)]
pub struct PassInfo {
    /// the formatter changed the text
    pub changed: bool,
    /// the ASTs differ only in the string delimiter style (a `"""` pattern re-rendered as `"…"`)
    pub style_only_diff: bool,
    /// the formatter's output has more than one line of code
    pub multiline: bool,
    /// number of comments in the input
    pub comments: usize,
    /// the output carries comments the input does not (abstained, counted)
    pub extra_comments: bool,
    /// the independent lexer could not lex input or output cleanly (comment clause abstained)
    pub lexer_unsure: bool,
    /// bytecode clause: None = not requested, Some(false) = input does not compile (abstained)
    pub bytecode_compared: Option<bool>,
}

#[derive(Clone, Debug)]
pub enum Outcome {
    /// the parser rejects the input: outside the property's quantifier
    Rejected,
    Pass(PassInfo),
    Fail(Vec<Failure>),
}

impl Outcome {
    pub fn fail_kinds(&self) -> Vec<Kind> {
        match self {
            Outcome::Fail(f) => f.iter().map(|x| x.kind).collect(),
            _ => vec![],
        }
    }
}

fn panic_text(e: Box<dyn std::any::Any + Send>) -> String {
    if let Some(s) = e.downcast_ref::<&str>() {
        s.to_string()
    } else if let Some(s) = e.downcast_ref::<String>() {
        s.clone()
    } else {
        "panic".to_string()
    }
}

pub fn canon(p: Program) -> Program {
    quiver_compiler::simplify::normalize_blocks(
        p,
        &quiver_compiler::simplify::Options {
            keep: &|_| false,
            lift: true,
            group_consequences: false,
        },
    )
}

/// `{:?}` of an AST with every span removed and the (purely presentational) string delimiter style
/// erased. Used only when plain `==` says "different": a `"""…"""` *pattern* is documented to be
/// re-rendered as `"…"` (format.rs, `render_match`), which changes `StringStyle` and nothing else —
/// the style is not part of what the program denotes (it compiles to the same bytes).
fn style_free_debug(p: &Program) -> String {
    let d = format!("{:?}", p);
    let b = d.as_bytes();
    let mut out = String::with_capacity(d.len());
    let mut i = 0;
    while i < b.len() {
        if d[i..].starts_with("Spanned(") {
            let mut depth = 0i32;
            let mut j = i + "Spanned".len();
            loop {
                match b[j] {
                    b'(' => depth += 1,
                    b')' => {
                        depth -= 1;
                        if depth == 0 {
                            j += 1;
                            break;
                        }
                    }
                    _ => {}
                }
                j += 1;
            }
            out.push_str("Spanned");
            i = j;
        } else if d[i..].starts_with("String(Multi,") {
            out.push_str("String(Single,");
            i += "String(Multi,".len();
        } else {
            let ch = d[i..].chars().next().unwrap();
            out.push(ch);
            i += ch.len_utf8();
        }
    }
    out
}

/// Same program? `==` on the canonical ASTs (spans are ignored by the AST's own `PartialEq`), falling
/// back to a comparison that also ignores the string delimiter style.
pub fn same_program(a: &Program, b: &Program) -> (bool, bool) {
    let (ca, cb) = (canon(a.clone()), canon(b.clone()));
    if ca == cb {
        return (true, false);
    }
    if style_free_debug(&ca) == style_free_debug(&cb) {
        return (true, true);
    }
    (false, false)
}

fn parse_guarded(src: &str) -> Result<Result<Program, String>, String> {
    catch_unwind(AssertUnwindSafe(|| quiver_compiler::parse(src).map_err(|e| format!("{}", e)))).map_err(panic_text)
}

fn format_guarded(ast: &Program, src: &str) -> Result<String, String> {
    catch_unwind(AssertUnwindSafe(|| quiver_compiler::format_program(ast, src))).map_err(panic_text)
}

/// Do the input's comments appear in the output in the same relative order? Lenient on purpose (the
/// property demands no more): the output's comments are concatenated into one stream and each input
/// comment must occur in it, one after the other — so two comments merged onto one line
/// (`a // c1 // c2`) still count as preserved.
fn is_subsequence(a: &[String], b: &[String]) -> bool {
    let stream = b.join("\n");
    let mut pos = 0usize;
    for c in a {
        match stream[pos..].find(c.as_str()) {
            Some(i) => pos += i + c.len(),
            None => return false,
        }
    }
    true
}

/// How the comment clause failed — an observable fact about input and output, used to keep the
/// shrinker on the same failure: `dropped` (an input comment's text no longer occurs in the output's
/// comments), `moved-to-end` (all are present but reordered, and the output now ends with a
/// comment-only line), `reordered` (present, reordered, otherwise).
pub fn comment_displacement(cs: &[String], cf: &[String], f: &str) -> &'static str {
    let stream = cf.join("\n");
    for c in cs {
        let need = cs.iter().filter(|x| *x == c).count();
        let have = stream.matches(c.as_str()).count();
        if have < need {
            return "dropped";
        }
    }
    let last_line = f.lines().rev().find(|l| !l.trim().is_empty()).unwrap_or("");
    if last_line.trim_start().starts_with("//") { "moved-to-end" } else { "reordered" }
}

fn show(s: &str) -> String {
    let mut o = String::new();
    for c in s.chars() {
        match c {
            '\n' => o.push('⏎'),
            c => o.push(c),
        }
    }
    o
}

fn compile_json(src: &str, builtins: &quiver_core::builtins::BuiltinRegistry<crate::qcompile::E>) -> Result<Result<String, String>, String> {
    catch_unwind(AssertUnwindSafe(|| match crate::qcompile::compile(src, builtins) {
        Ok(unit) => Ok(serde_json::to_string(&unit.bytecode()).unwrap_or_default()),
        Err(e) => Err(format!("{:?}", e)),
    }))
    .map_err(panic_text)
}

/// Evaluate the oracle on `src`; every violated clause is reported (an input can violate several).
/// `builtins` = Some(..) additionally compares compiled bytecode. `only` restricts the evaluation to
/// one clause (used by the shrinker; the parse/format steps always run).
pub fn check_with(
    src: &str,
    builtins: Option<&quiver_core::builtins::BuiltinRegistry<crate::qcompile::E>>,
    only: Option<Kind>,
) -> Outcome {
    let want = |k: Kind| only.is_none() || only == Some(k);
    let ast = match parse_guarded(src) {
        Err(p) => {
            return Outcome::Fail(vec![Failure {
                kind: Kind::ParsePanic,
                detail: format!("parser panicked on the input: {}", p),
                formatted: None,
            }]);
        }
        Ok(Err(_)) => return Outcome::Rejected,
        Ok(Ok(a)) => a,
    };
    let f = match format_guarded(&ast, src) {
        Err(p) => {
            return Outcome::Fail(vec![Failure {
                kind: Kind::FormatPanic,
                detail: format!("format_program panicked: {}", p),
                formatted: None,
            }]);
        }
        Ok(f) => f,
    };
    let ast_f = match parse_guarded(&f) {
        Err(p) => {
            return Outcome::Fail(vec![Failure {
                kind: Kind::ParsePanic,
                detail: format!("parser panicked on the formatter's output `{}`: {}", show(&f), p),
                formatted: Some(f),
            }]);
        }
        Ok(Err(e)) => {
            // nothing else can be evaluated, but the comment clause still can
            let mut fails = vec![Failure {
                kind: Kind::OutputUnparseable,
                detail: format!("expected: parse(format(s)) succeeds; observed: output `{}` rejected: {}", show(&f), e),
                formatted: Some(f.clone()),
            }];
            if only.is_some() && !want(Kind::OutputUnparseable) {
                fails.clear();
            }
            if fails.is_empty() {
                return Outcome::Pass(PassInfo::default());
            }
            return Outcome::Fail(fails);
        }
        Ok(Ok(a)) => a,
    };
    let mut fails: Vec<Failure> = Vec::new();
    let mut style_only_diff = false;
    if want(Kind::AstChanged) {
        let same = catch_unwind(AssertUnwindSafe(|| same_program(&ast, &ast_f)));
        let same = match same {
            Ok((eq, style_only)) => {
                style_only_diff = style_only;
                Ok(eq)
            }
            Err(e) => Err(e),
        };
        match same {
            Err(p) => fails.push(Failure {
                kind: Kind::FormatPanic,
                detail: format!("normalize_blocks panicked: {}", panic_text(p)),
                formatted: Some(f.clone()),
            }),
            Ok(false) => fails.push(Failure {
                kind: Kind::AstChanged,
                detail: format!(
                    "expected: normalize_blocks(parse(format(s))) == normalize_blocks(parse(s)) (lift=true); observed: they differ; format(s) = `{}`",
                    show(&f)
                ),
                formatted: Some(f.clone()),
            }),
            Ok(true) => {}
        }
    }
    let mut info = PassInfo {
        changed: f.trim_end() != src.trim_end(),
        multiline: f.trim_end().contains('\n'),
        style_only_diff,
        ..Default::default()
    };
    if want(Kind::CommentLost) {
        match (lexer::comments(src), lexer::comments(&f)) {
            (Some(cs), Some(cf)) => {
                info.comments = cs.len();
                if !is_subsequence(&cs, &cf) {
                    fails.push(Failure {
                        kind: Kind::CommentLost,
                        detail: format!(
                            "expected: comments of the input {:?} appear in the output in order; observed ({}): output comments {:?}; format(s) = `{}`",
                            cs,
                            comment_displacement(&cs, &cf, &f),
                            cf,
                            show(&f)
                        ),
                        formatted: Some(f.clone()),
                    });
                } else if cs.len() != cf.len() {
                    info.extra_comments = true;
                }
            }
            _ => info.lexer_unsure = true,
        }
    }
    if want(Kind::NotFixpoint) || want(Kind::FormatPanic) {
        match format_guarded(&ast_f, &f) {
            Err(p) => fails.push(Failure {
                kind: Kind::FormatPanic,
                detail: format!("format_program panicked on its own output `{}`: {}", show(&f), p),
                formatted: Some(f.clone()),
            }),
            Ok(f2) => {
                if f2 != f && want(Kind::NotFixpoint) {
                    fails.push(Failure {
                        kind: Kind::NotFixpoint,
                        detail: format!(
                            "expected: format(format(s)) == format(s); observed: format(s) = `{}` but format(format(s)) = `{}`",
                            show(&f),
                            show(&f2)
                        ),
                        formatted: Some(f.clone()),
                    });
                }
            }
        }
    }
    if let (Some(b), true) = (builtins, want(Kind::BytecodeChanged)) {
        match compile_json(src, b) {
            Err(_) | Ok(Err(_)) => info.bytecode_compared = Some(false),
            Ok(Ok(js)) => match compile_json(&f, b) {
                Ok(Ok(jf)) if jf == js => info.bytecode_compared = Some(true),
                Ok(Ok(_)) => fails.push(Failure {
                    kind: Kind::BytecodeChanged,
                    detail: format!("expected: identical bytecode for s and format(s); observed: they differ; format(s) = `{}`", show(&f)),
                    formatted: Some(f.clone()),
                }),
                Ok(Err(e)) => fails.push(Failure {
                    kind: Kind::BytecodeChanged,
                    detail: format!("expected: format(s) compiles like s; observed: s compiles but format(s) = `{}` fails: {}", show(&f), e),
                    formatted: Some(f.clone()),
                }),
                Err(p) => fails.push(Failure {
                    kind: Kind::BytecodeChanged,
                    detail: format!("compiler panicked on format(s) = `{}` (not on s): {}", show(&f), p),
                    formatted: Some(f.clone()),
                }),
            },
        }
    }
    if let Some(k) = only {
        fails.retain(|x| x.kind == k);
    }
    if fails.is_empty() { Outcome::Pass(info) } else { Outcome::Fail(fails) }
}

pub fn check(src: &str, builtins: Option<&quiver_core::builtins::BuiltinRegistry<crate::qcompile::E>>) -> Outcome {
    check_with(src, builtins, None)
}

/// Does clause `kind` fail on `src`? (the shrinker's predicate)
pub fn fails_with(src: &str, kind: Kind, builtins: Option<&quiver_core::builtins::BuiltinRegistry<crate::qcompile::E>>) -> bool {
    sub_class(src, kind, builtins).is_some()
}

/// `Some(sub-class)` when clause `kind` fails on `src` (the sub-class is "" except for the comment
/// clause, where it is the displacement class); `None` when it holds or the input is rejected.
pub fn sub_class(src: &str, kind: Kind, builtins: Option<&quiver_core::builtins::BuiltinRegistry<crate::qcompile::E>>) -> Option<&'static str> {
    match check_with(src, if kind == Kind::BytecodeChanged { builtins } else { None }, Some(kind)) {
        Outcome::Fail(fs) => {
            let f = fs.iter().find(|f| f.kind == kind)?;
            if kind == Kind::CommentLost {
                let out = f.formatted.as_deref().unwrap_or("");
                match (lexer::comments(src), lexer::comments(out)) {
                    (Some(cs), Some(cf)) => Some(comment_displacement(&cs, &cf, out)),
                    _ => Some(""),
                }
            } else {
                Some("")
            }
        }
        _ => None,
    }
}

/// Self-check of the independent lexer on a parseable source: removing what it calls comments must
/// leave a source that parses to the same AST. Returns false when the lexer is demonstrably wrong
/// for this text (callers count it; the comment clause is then not trustworthy for it).
pub fn lexer_selfcheck(src: &str) -> bool {
    let lx = lexer::lex(src);
    if !lx.ok {
        return false;
    }
    let stripped = lexer::strip_comments(src, &lx);
    match (parse_guarded(src), parse_guarded(&stripped)) {
        (Ok(Ok(a)), Ok(Ok(b))) => a == b,
        _ => false,
    }
}
