//! Deterministic shrinker: reduce a failing source to a minimal core that still violates the same
//! oracle clause. Works on the independent lexer's token stream: drop line ranges, drop token windows,
//! drop or unwrap balanced groups, replace a token by the simplest token of its sort; a change is kept
//! only if the clause still fails; repeated to a fixpoint. The result (with the clause name) is the
//! violation's signature, so that the many failing variants of one root cause collapse.

use super::lexer::{self, K};
use super::oracle::{self, Kind};
use std::collections::HashMap;

pub struct Shrinker<'a> {
    kind: Kind,
    /// the sub-class of the failure being preserved (comment clause: the displacement class)
    class: Option<&'static str>,
    builtins: Option<&'a quiver_core::builtins::BuiltinRegistry<crate::qcompile::E>>,
    memo: HashMap<String, bool>,
    pub checks: usize,
}

impl<'a> Shrinker<'a> {
    pub fn new(kind: Kind, builtins: Option<&'a quiver_core::builtins::BuiltinRegistry<crate::qcompile::E>>) -> Self {
        Shrinker {
            kind,
            class: None,
            builtins,
            memo: HashMap::new(),
            checks: 0,
        }
    }

    fn fails(&mut self, cand: &str) -> bool {
        if let Some(&r) = self.memo.get(cand) {
            return r;
        }
        self.checks += 1;
        let r = {
            let _guard = super::InFlight::new(cand);
            match (oracle::sub_class(cand, self.kind, self.builtins), self.class) {
                (None, _) => false,
                (Some(_), None) => true,
                (Some(c), Some(want)) => c == want,
            }
        };
        self.memo.insert(cand.to_string(), r);
        r
    }

    /// Try removing contiguous ranges of `pieces` (ddmin-style, halving window sizes). Windows slide by
    /// one piece when the input is small (so no removable range is missed), by the window size when it
    /// is large (fast coarse reduction first).
    fn remove_ranges(&mut self, pieces: Vec<String>) -> Vec<String> {
        let mut cur = pieces;
        let mut win = cur.len().max(1).next_power_of_two() / 2;
        if win == 0 {
            win = 1;
        }
        loop {
            let mut i = 0;
            let mut changed = false;
            while i < cur.len() {
                let end = (i + win).min(cur.len());
                if end - i == cur.len() {
                    break;
                }
                let cand: String = cur[..i].iter().chain(cur[end..].iter()).map(|s| s.as_str()).collect();
                if self.fails(&cand) {
                    cur.drain(i..end);
                    changed = true;
                } else if cur.len() <= 120 {
                    i += 1;
                } else {
                    i += win;
                }
            }
            if win == 1 {
                if !changed {
                    break;
                }
            } else if !changed || win > cur.len() {
                win /= 2;
            }
        }
        cur
    }

    pub fn shrink(&mut self, src: &str) -> String {
        let mut cur = src.to_string();
        self.class = oracle::sub_class(&cur, self.kind, self.builtins);
        if self.class.is_none() {
            return cur;
        }
        loop {
            let before = cur.clone();
            // 1. lines
            if cur.contains('\n') {
                let lines: Vec<String> = cur.split_inclusive('\n').map(|s| s.to_string()).collect();
                if lines.len() > 1 {
                    cur = self.remove_ranges(lines).concat();
                }
            }
            // 2. balanced groups: drop the group, or unwrap it
            cur = self.groups(&cur);
            // 3. token windows
            {
                let lx = lexer::lex(&cur);
                let toks: Vec<String> = pieces(&cur, &lx);
                if toks.len() > 1 {
                    cur = self.remove_ranges(toks).concat();
                }
            }
            // 4. replace a span of 2..=5 adjacent tokens by the simplest term
            cur = self.replace_spans(&cur);
            // 5. simplest token of each sort
            cur = self.simplify_tokens(&cur);
            // 6. characters inside string text / long literals
            cur = self.shrink_chars(&cur);
            // 9. canonical trivia placement: the last comment as a trailing comment at the very end;
            //    a construct that merely surrounds trivia replaced by `[ trivia ]`
            cur = self.relocate_last_comment(&cur);
            cur = self.simplest_trivia_context(&cur);
            // 8. canonical order of `|`- and `,`-separated neighbours
            cur = self.sort_neighbours(&cur);
            // 7. concentrate the remaining width in the leftmost long token (canonical distribution)
            cur = self.concentrate(&cur);
            if cur == before {
                break;
            }
        }
        cur
    }

    fn groups(&mut self, src: &str) -> String {
        let mut cur = src.to_string();
        let mut start_at = 0usize;
        'outer: loop {
            let lx = lexer::lex(&cur);
            let toks = &lx.toks;
            // find matching closers
            let mut stack: Vec<usize> = Vec::new();
            let mut pairs: Vec<(usize, usize)> = Vec::new();
            for (i, t) in toks.iter().enumerate() {
                let txt = &cur[t.s..t.e];
                match t.k {
                    K::Punct if txt == "[" || txt == "(" || txt == "{" => stack.push(i),
                    K::Punct if txt == "]" || txt == ")" || txt == "}" => {
                        if let Some(o) = stack.pop() {
                            pairs.push((o, i));
                        }
                    }
                    K::HoleOpen | K::StrOpen => stack.push(i),
                    K::HoleClose | K::StrClose => {
                        if let Some(o) = stack.pop() {
                            pairs.push((o, i));
                        }
                    }
                    _ => {}
                }
            }
            pairs.sort();
            for (idx, &(o, c)) in pairs.iter().enumerate() {
                if idx < start_at {
                    continue;
                }
                let (os, oe) = (toks[o].s, toks[o].e);
                let (cs, ce) = (toks[c].s, toks[c].e);
                // a. drop the whole group
                let cand = format!("{}{}", &cur[..os], &cur[ce..]);
                if cand.len() < cur.len() && self.fails(&cand) {
                    cur = cand;
                    continue 'outer;
                }
                // b. replace the whole group by the simplest term
                for simple in ["0", "a"] {
                    let cand = format!("{}{}{}", &cur[..os], simple, &cur[ce..]);
                    if cand.len() < cur.len() && self.fails(&cand) {
                        cur = cand;
                        continue 'outer;
                    }
                }
                // c. unwrap: keep the content, drop the delimiters
                if toks[o].k == K::Punct {
                    let cand = format!("{}{}{}", &cur[..os], &cur[oe..cs], &cur[ce..]);
                    if self.fails(&cand) {
                        cur = cand;
                        continue 'outer;
                    }
                }
                start_at = idx + 1;
            }
            break;
        }
        cur
    }

    fn replace_spans(&mut self, src: &str) -> String {
        let mut cur = src.to_string();
        let mut i = 0usize;
        loop {
            let lx = lexer::lex(&cur);
            let code: Vec<usize> = (0..lx.toks.len()).filter(|&j| !matches!(lx.toks[j].k, K::Ws | K::Nl | K::Comment)).collect();
            if i >= code.len() {
                break;
            }
            let mut done = false;
            'w: for w in (2..=5usize).rev() {
                if i + w > code.len() {
                    continue;
                }
                let s0 = lx.toks[code[i]].s;
                let e0 = lx.toks[code[i + w - 1]].e;
                for simple in ["a", "0"] {
                    if e0 - s0 <= simple.len() {
                        continue;
                    }
                    let cand = format!("{}{}{}", &cur[..s0], simple, &cur[e0..]);
                    if self.fails(&cand) {
                        cur = cand;
                        done = true;
                        break 'w;
                    }
                }
            }
            if !done {
                i += 1;
            }
        }
        cur
    }

    /// Delete single characters (an escape pair counts as one) inside string text and inside long
    /// identifiers / literals.
    fn shrink_chars(&mut self, src: &str) -> String {
        let mut cur = src.to_string();
        let mut ti = 0usize;
        loop {
            let lx = lexer::lex(&cur);
            if ti >= lx.toks.len() {
                break;
            }
            let t = lx.toks[ti];
            let eligible = match t.k {
                K::StrText => true,
                K::Int | K::Ident | K::Upper | K::Bin | K::Under | K::Comment => t.e - t.s > 2,
                _ => false,
            };
            if !eligible {
                ti += 1;
                continue;
            }
            // units: chars, with `\x` as one unit in string text
            let text = cur[t.s..t.e].to_string();
            let mut units: Vec<String> = Vec::new();
            let mut it = text.chars().peekable();
            while let Some(c) = it.next() {
                if c == '\\' && t.k == K::StrText {
                    let mut u = String::from(c);
                    if let Some(n) = it.next() {
                        u.push(n);
                    }
                    units.push(u);
                } else {
                    units.push(c.to_string());
                }
            }
            let mut k = 0usize;
            let mut changed_here = false;
            while k < units.len() {
                if units.len() == 1 && t.k != K::StrText {
                    break;
                }
                let mut trial = units.clone();
                trial.remove(k);
                let cand = format!("{}{}{}", &cur[..t.s], trial.concat(), &cur[t.s + units.concat().len()..]);
                if self.fails(&cand) {
                    units = trial;
                    cur = cand;
                    changed_here = true;
                } else {
                    k += 1;
                }
            }
            // token boundaries may have moved; re-lex and continue with the next token index
            let _ = changed_here;
            ti += 1;
        }
        cur
    }

    /// Where several tokens are longer than one character (a width-dependent failure), move the
    /// excess of a later token into an earlier one when the clause still fails, so that inputs which
    /// differ only in how the width is distributed reach the same core.
    fn concentrate(&mut self, src: &str) -> String {
        let mut cur = src.to_string();
        loop {
            let lx = lexer::lex(&cur);
            let long: Vec<usize> = (0..lx.toks.len())
                .filter(|&i| {
                    let t = lx.toks[i];
                    let plain_text = t.k == K::StrText && !t.in_multi && cur[t.s..t.e].bytes().all(|c| c.is_ascii_lowercase());
                    (matches!(t.k, K::Ident | K::Upper | K::Int) || plain_text) && t.e - t.s > 1
                })
                .collect();
            let mut moved = false;
            'search: for (a, &i) in long.iter().enumerate() {
                for &j in long[a + 1..].iter().rev() {
                    let (ti, tj) = (lx.toks[i], lx.toks[j]);
                    let ti_txt = &cur[ti.s..ti.e];
                    let tj_txt = &cur[tj.s..tj.e];
                    if ti_txt.ends_with('?') || ti_txt.ends_with('!') || tj_txt.ends_with('?') || tj_txt.ends_with('!') || tj_txt.starts_with('-') {
                        continue;
                    }
                    let excess = tj_txt.len() - 1;
                    let pad_char = if ti.k == K::Int { "0" } else { "a" };
                    let new_i = format!("{}{}", ti_txt, pad_char.repeat(excess));
                    let new_j = &tj_txt[..1];
                    let cand = format!("{}{}{}{}{}", &cur[..ti.s], new_i, &cur[ti.e..tj.s], new_j, &cur[tj.e..]);
                    if self.fails(&cand) {
                        cur = cand;
                        moved = true;
                        break 'search;
                    }
                }
            }
            if !moved {
                break;
            }
        }
        cur
    }

    /// Move the last comment (with the line break that ends it) to the very end of the source, as a
    /// trailing comment, when the clause still fails the same way.
    fn relocate_last_comment(&mut self, src: &str) -> String {
        let lx = lexer::lex(src);
        let Some(ci) = lx.toks.iter().rposition(|t| t.k == K::Comment) else {
            return src.to_string();
        };
        let t = lx.toks[ci];
        if t.e == src.len() {
            return src.to_string();
        }
        let text = &src[t.s..t.e];
        // drop the comment and the line break after it
        let mut after = t.e;
        if let Some(n) = lx.toks.get(ci + 1) {
            if n.k == K::Nl {
                after = n.e;
            }
        }
        let rest = format!("{}{}", &src[..t.s], &src[after..]);
        let cand = format!("{}{}", rest.trim_end(), text);
        if cand != src && self.fails(&cand) { cand } else { src.to_string() }
    }

    /// Replace a window of tokens that contains trivia (comments / blank lines) by `[` trivia `]` —
    /// the simplest construct that can surround trivia — when the clause still fails the same way and
    /// the text gets smaller (shorter, or equally long and lexicographically smaller).
    fn simplest_trivia_context(&mut self, src: &str) -> String {
        let mut cur = src.to_string();
        'again: loop {
            let lx = lexer::lex(&cur);
            let toks = &lx.toks;
            let n = toks.len();
            if n > 60 {
                return cur;
            }
            // trivia items: (token index, rendered)
            let is_blank_nl = |i: usize| -> bool {
                // an Nl that directly follows another Nl (ignoring spaces) is a blank line
                if toks[i].k != K::Nl {
                    return false;
                }
                let mut j = i;
                while j > 0 {
                    j -= 1;
                    match toks[j].k {
                        K::Ws => continue,
                        K::Nl => return true,
                        _ => return false,
                    }
                }
                false
            };
            for len in (2..=n).rev() {
                for a in 0..=(n - len) {
                    let b = a + len - 1;
                    if matches!(toks[a].k, K::Ws | K::Nl) || matches!(toks[b].k, K::Ws | K::Nl | K::Comment) {
                        continue;
                    }
                    let mut trivia = String::new();
                    // second form: inside a pattern `=[…]`, with a placeholder before a same-line comment
                    let mut trivia2 = String::new();
                    let mut any = false;
                    for i in a..=b {
                        if toks[i].k == K::Comment {
                            // keep an own-line comment on its own line
                            let mut j = i;
                            let mut own_line = true;
                            while j > 0 {
                                j -= 1;
                                match toks[j].k {
                                    K::Ws => continue,
                                    K::Nl => break,
                                    _ => {
                                        own_line = false;
                                        break;
                                    }
                                }
                            }
                            if own_line && !trivia.ends_with('\n') {
                                trivia.push('\n');
                            }
                            if own_line && !trivia2.ends_with('\n') {
                                trivia2.push('\n');
                            }
                            if !own_line && trivia2.ends_with('\n') {
                                trivia2.push('a');
                            }
                            trivia.push_str(&cur[toks[i].s..toks[i].e]);
                            trivia.push('\n');
                            trivia2.push_str(&cur[toks[i].s..toks[i].e]);
                            trivia2.push('\n');
                            any = true;
                        } else if is_blank_nl(i) {
                            if !trivia.is_empty() && !trivia.ends_with('\n') {
                                trivia.push('\n');
                            }
                            if trivia.is_empty() {
                                trivia.push('\n');
                            }
                            trivia.push('\n');
                            if !trivia2.is_empty() && !trivia2.ends_with('\n') {
                                trivia2.push('\n');
                            }
                            if trivia2.is_empty() {
                                trivia2.push('\n');
                            }
                            trivia2.push('\n');
                            any = true;
                        }
                    }
                    if !any {
                        continue;
                    }
                    let old = cur[toks[a].s..toks[b].e].to_string();
                    for replacement in [format!("[{}]", trivia), format!("=[{}]", trivia2)] {
                        // smaller, or equally long but canonical where the old text is not
                        if replacement.len() > old.len() || replacement == old {
                            continue;
                        }
                        let cand = format!("{}{}{}", &cur[..toks[a].s], replacement, &cur[toks[b].e..]);
                        if self.fails(&cand) {
                            cur = cand;
                            continue 'again;
                        }
                    }
                }
            }
            break;
        }
        cur
    }

    /// Swap two neighbouring `|`- or `,`-separated segments when the result is lexicographically
    /// smaller and the clause still fails (so `{a|X}` and `{X|a}` reach one core).
    fn sort_neighbours(&mut self, src: &str) -> String {
        let mut cur = src.to_string();
        'again: loop {
            let lx = lexer::lex(&cur);
            let toks = &lx.toks;
            // `bar`: the separator being sorted is a `|` (segments are whole branches)
            let is_boundary = |i: usize, d: u32, bar: bool| -> bool {
                let t = toks[i];
                if t.depth < d {
                    return true;
                }
                if t.depth == d && matches!(t.k, K::Punct | K::Nl) {
                    let x = &cur[t.s..t.e];
                    if bar {
                        return x == "|";
                    }
                    // a line break that ends a comment belongs to the comment's segment
                    let nl = t.k == K::Nl && !(i > 0 && toks[i - 1].k == K::Comment);
                    return x == "|" || x == "," || x == "=>" || nl;
                }
                false
            };
            for (k, t) in toks.iter().enumerate() {
                if t.k != K::Punct {
                    continue;
                }
                let x = &cur[t.s..t.e];
                if x != "|" && x != "," {
                    continue;
                }
                let d = t.depth;
                let bar = x == "|";
                // left segment
                let mut l = k;
                while l > 0 && !is_boundary(l - 1, d, bar) {
                    l -= 1;
                }
                let mut r = k + 1;
                while r < toks.len() && !is_boundary(r, d, bar) {
                    r += 1;
                }
                if l == k || r == k + 1 {
                    continue;
                }
                let (ls, le) = (toks[l].s, toks[k - 1].e);
                let (rs, re) = (toks[k + 1].s, toks[r - 1].e);
                let cand = format!("{}{}{}{}{}", &cur[..ls], &cur[rs..re], &cur[le..rs], &cur[ls..le], &cur[re..]);
                if cand < cur && self.fails(&cand) {
                    cur = cand;
                    continue 'again;
                }
            }
            break;
        }
        cur
    }

    fn simplify_tokens(&mut self, src: &str) -> String {
        let mut cur = src.to_string();
        let mut i = 0usize;
        loop {
            let lx = lexer::lex(&cur);
            if i >= lx.toks.len() {
                break;
            }
            let t = lx.toks[i];
            let txt = cur[t.s..t.e].to_string();
            let is_atom_punct = t.k == K::Punct && matches!(txt.as_str(), "~" | "$" | "." | "^" | "!" | "*" | "#" | "@");
            let cands: Vec<&str> = match t.k {
                K::Ident => vec!["a", "b"],
                K::Upper => vec!["a", "0", "A", "B"],
                K::Int => vec!["a", "0", "1"],
                K::Bin => vec!["a", "0", "0x"],
                K::Comment => vec!["//", "//c", "//d"],
                K::Ws => vec![" "],
                K::StrText => vec!["a"],
                K::Under => vec!["a", "0", "_"],
                _ if is_atom_punct => vec!["a", "0"],
                _ => vec![],
            };
            fn rank(s: &str) -> (usize, usize, &str) {
                let r = match s {
                    "a" => 0,
                    "0" => 1,
                    "b" => 2,
                    "1" => 3,
                    "A" => 4,
                    "B" => 5,
                    _ => 9,
                };
                (s.len(), r, s)
            }
            // same-length canonical spellings (for width-dependent failures, where shortening passes)
            let n = txt.chars().count();
            let same_len: Vec<String> = match t.k {
                K::Ident if n > 1 => vec!["a".repeat(n)],
                K::Upper if n > 1 => vec!["a".repeat(n), format!("A{}", "a".repeat(n - 1))],
                K::Int if n > 1 && !txt.starts_with('-') => vec!["a".repeat(n), "1".repeat(n)],
                K::StrText if n > 1 => vec!["a".repeat(n)],
                _ => vec![],
            };
            let mut replaced = false;
            for c in &same_len {
                if *c != txt && (t.k != K::Ident || c.as_str() < txt.as_str() || !txt.chars().all(|ch| ch == 'a')) {
                    // accept only if it moves toward the canonical all-'a' form
                    let already_canonical = same_len.iter().position(|x| *x == txt);
                    let this = same_len.iter().position(|x| x == c).unwrap();
                    if already_canonical.is_some_and(|p| p <= this) {
                        continue;
                    }
                    let cand = format!("{}{}{}", &cur[..t.s], c, &cur[t.e..]);
                    if self.fails(&cand) {
                        cur = cand;
                        replaced = true;
                        break;
                    }
                }
            }
            if replaced {
                i += 1;
                continue;
            }
            let canonical_comments = ["//", "//c", "//d"];
            for c in cands {
                let better = if t.k == K::Comment {
                    c != txt && (c.len() < txt.len() || (c.len() == txt.len() && !canonical_comments.contains(&txt.as_str())))
                } else {
                    rank(c) < rank(&txt)
                };
                if better {
                    let cand = format!("{}{}{}", &cur[..t.s], c, &cur[t.e..]);
                    if self.fails(&cand) {
                        cur = cand;
                        break;
                    }
                }
            }
            i += 1;
        }
        cur
    }
}

/// The token texts of `src` (every byte belongs to exactly one piece).
fn pieces(src: &str, lx: &lexer::Lexed) -> Vec<String> {
    let mut out = Vec::new();
    let mut last = 0;
    for t in &lx.toks {
        if t.s > last {
            out.push(src[last..t.s].to_string());
        }
        if t.e > t.s {
            out.push(src[t.s..t.e].to_string());
        }
        last = t.e.max(last);
    }
    if last < src.len() {
        out.push(src[last..].to_string());
    }
    out
}

/// Canonical one-line text of a source for signatures and reports.
pub fn visible(s: &str) -> String {
    let mut o = String::new();
    for c in s.chars() {
        match c {
            '\n' => o.push('⏎'),
            '\t' => o.push('⇥'),
            '\r' => o.push('␍'),
            c => o.push(c),
        }
    }
    o
}
