//! An independent, string- and hole-aware lexer for Quiver source text.
//!
//! It shares no code with `quiver-compiler`. It is used for three things: (1) extracting the
//! sequence of line comments of a source (the comment oracle), (2) finding every token boundary of a
//! source (where the trivia enumerator inserts a comment or a blank line), and (3) finding the
//! stretchable tokens (identifiers / literals) for the width enumerator and the shrinker.
//!
//! Lexical facts it encodes (from docs/spec.md and the grammar): a line comment runs from `//` to the
//! end of the line and may appear wherever whitespace may; `"…"` and `"""…"""` are string literals in
//! which a backslash escapes the next character; in *term* position an unescaped `{` inside a string
//! opens an interpolation hole whose content is ordinary code (which may itself contain strings and
//! comments) up to the matching `}`; in *pattern* position (`="…"`, or nested in a `=`-pattern) a
//! `{` is literal text.

#[derive(Clone, Copy, PartialEq, Eq, Debug)]
pub enum K {
    Ws,
    Nl,
    Comment,
    Ident,
    Upper,
    Int,
    Bin,
    Under, // `_` or `__builtin__`
    Punct,
    StrOpen,
    StrText,
    StrClose,
    HoleOpen,
    HoleClose,
}

#[derive(Clone, Copy, Debug)]
pub struct Tok {
    pub k: K,
    pub s: usize,
    pub e: usize,
    /// bracket depth (`[ ( {` and string holes) at the token's start
    pub depth: u32,
    /// the token lies inside a multi-line (`"""`) string (hole code or text)
    pub in_multi: bool,
}

pub struct Lexed {
    pub toks: Vec<Tok>,
    /// false when the text did not lex cleanly (unterminated string/hole): callers abstain.
    pub ok: bool,
}

struct Lx<'a> {
    b: &'a [u8],
    src: &'a str,
    toks: Vec<Tok>,
    ok: bool,
    depth: u32,
    multi: u32,
}

pub fn lex(src: &str) -> Lexed {
    let mut lx = Lx {
        b: src.as_bytes(),
        src,
        toks: Vec::new(),
        ok: true,
        depth: 0,
        multi: 0,
    };
    let end = lx.code(0, false);
    if end < src.len() {
        lx.ok = false;
    }
    Lexed {
        toks: lx.toks,
        ok: lx.ok,
    }
}

fn is_ident_char(c: u8) -> bool {
    c.is_ascii_alphanumeric() || c == b'_'
}

impl<'a> Lx<'a> {
    fn push(&mut self, k: K, s: usize, e: usize) {
        self.toks.push(Tok {
            k,
            s,
            e,
            depth: self.depth,
            in_multi: self.multi > 0,
        });
    }

    fn at(&self, i: usize) -> u8 {
        if i < self.b.len() { self.b[i] } else { 0 }
    }

    /// Lex code from `pos`. In a hole, stop after the `}` that closes it (emitted as HoleClose).
    fn code(&mut self, mut pos: usize, in_hole: bool) -> usize {
        let n = self.b.len();
        let mut brace: i32 = 0;
        // pattern mode: Some(nesting) while inside a `=pattern`
        let mut pat: Option<i32> = None;
        while pos < n {
            let c = self.b[pos];
            // leaving pattern mode
            if let Some(d) = pat {
                if d == 0 && (c == b' ' || c == b'\t' || c == b'\n' || c == b'\r' || c == b',' || c == b'}' || c == b'|' || c == b']' || c == b')') {
                    pat = None;
                }
            }
            match c {
                b' ' | b'\t' => {
                    let s = pos;
                    while pos < n && (self.b[pos] == b' ' || self.b[pos] == b'\t') {
                        pos += 1;
                    }
                    self.push(K::Ws, s, pos);
                }
                b'\r' if self.at(pos + 1) == b'\n' => {
                    self.push(K::Nl, pos, pos + 2);
                    pos += 2;
                }
                b'\n' | b'\r' => {
                    self.push(K::Nl, pos, pos + 1);
                    pos += 1;
                }
                b'/' if self.at(pos + 1) == b'/' => {
                    let s = pos;
                    while pos < n && self.b[pos] != b'\n' && self.b[pos] != b'\r' {
                        pos += 1;
                    }
                    self.push(K::Comment, s, pos);
                }
                b'"' => {
                    pos = self.string(pos, pat.is_some());
                }
                b'a'..=b'z' => {
                    let s = pos;
                    while pos < n && is_ident_char(self.b[pos]) {
                        pos += 1;
                    }
                    if self.at(pos) == b'?' {
                        pos += 1;
                    }
                    if self.at(pos) == b'!' {
                        pos += 1;
                    }
                    self.push(K::Ident, s, pos);
                }
                b'A'..=b'Z' => {
                    let s = pos;
                    while pos < n && is_ident_char(self.b[pos]) {
                        pos += 1;
                    }
                    self.push(K::Upper, s, pos);
                }
                b'_' => {
                    let s = pos;
                    while pos < n && is_ident_char(self.b[pos]) {
                        pos += 1;
                    }
                    self.push(K::Under, s, pos);
                }
                b'0' if self.at(pos + 1) == b'x' => {
                    let s = pos;
                    pos += 2;
                    while pos < n && self.b[pos].is_ascii_hexdigit() {
                        pos += 1;
                    }
                    self.push(K::Bin, s, pos);
                }
                b'0'..=b'9' => {
                    let s = pos;
                    while pos < n && self.b[pos].is_ascii_digit() {
                        pos += 1;
                    }
                    self.push(K::Int, s, pos);
                }
                b'-' if self.at(pos + 1).is_ascii_digit() => {
                    let s = pos;
                    pos += 1;
                    while pos < n && self.b[pos].is_ascii_digit() {
                        pos += 1;
                    }
                    self.push(K::Int, s, pos);
                }
                b'-' if self.at(pos + 1) == b'>' => {
                    self.push(K::Punct, pos, pos + 2);
                    pos += 2;
                }
                b'=' if self.at(pos + 1) == b'>' => {
                    self.push(K::Punct, pos, pos + 2);
                    pos += 2;
                }
                b'~' if self.at(pos + 1) == b'>' => {
                    self.push(K::Punct, pos, pos + 2);
                    pos += 2;
                }
                b'.' if self.at(pos + 1) == b'.' && self.at(pos + 2) == b'.' => {
                    self.push(K::Punct, pos, pos + 3);
                    pos += 3;
                }
                b'=' => {
                    self.push(K::Punct, pos, pos + 1);
                    pos += 1;
                    let nx = self.at(pos);
                    // `=` directly followed by a pattern: a bind-match term
                    if pat.is_none() && nx != 0 && nx != b' ' && nx != b'\t' && nx != b'\n' && nx != b'\r' {
                        pat = Some(0);
                    }
                }
                b'[' | b'(' => {
                    self.push(K::Punct, pos, pos + 1);
                    self.depth += 1;
                    if let Some(d) = pat.as_mut() {
                        *d += 1;
                    }
                    pos += 1;
                }
                b']' | b')' => {
                    self.depth = self.depth.saturating_sub(1);
                    self.push(K::Punct, pos, pos + 1);
                    if let Some(d) = pat.as_mut() {
                        *d -= 1;
                    }
                    pos += 1;
                }
                b'{' => {
                    self.push(K::Punct, pos, pos + 1);
                    self.depth += 1;
                    brace += 1;
                    pos += 1;
                }
                b'}' => {
                    if in_hole && brace == 0 {
                        self.depth = self.depth.saturating_sub(1);
                        self.push(K::HoleClose, pos, pos + 1);
                        return pos + 1;
                    }
                    self.depth = self.depth.saturating_sub(1);
                    brace -= 1;
                    self.push(K::Punct, pos, pos + 1);
                    pos += 1;
                }
                _ => {
                    // any other character (punctuation or non-ASCII): one char
                    let ch_len = self.src[pos..].chars().next().map(|c| c.len_utf8()).unwrap_or(1);
                    self.push(K::Punct, pos, pos + ch_len);
                    pos += ch_len;
                }
            }
        }
        if in_hole {
            self.ok = false; // hole never closed
        }
        pos
    }

    /// Lex a string literal starting at the `"` at `pos`; returns the position after it.
    fn string(&mut self, pos: usize, pattern: bool) -> usize {
        let n = self.b.len();
        let multi = self.at(pos + 1) == b'"' && self.at(pos + 2) == b'"';
        let open_len = if multi { 3 } else { 1 };
        self.push(K::StrOpen, pos, pos + open_len);
        if multi {
            self.multi += 1;
        }
        let mut p = pos + open_len;
        let mut text_start = p;
        loop {
            if p >= n {
                self.ok = false;
                if p > text_start {
                    self.push(K::StrText, text_start, p);
                }
                if multi {
                    self.multi -= 1;
                }
                return p;
            }
            let c = self.b[p];
            if c == b'\\' {
                // escape: skip the next character (whatever its width)
                p += 1;
                if p < n {
                    let l = self.src[p..].chars().next().map(|c| c.len_utf8()).unwrap_or(1);
                    p += l;
                }
                continue;
            }
            let closes = if multi {
                c == b'"' && self.at(p + 1) == b'"' && self.at(p + 2) == b'"'
            } else {
                c == b'"'
            };
            if closes {
                if p > text_start {
                    self.push(K::StrText, text_start, p);
                }
                if multi {
                    self.multi -= 1;
                }
                // the closing delimiter belongs to the enclosing (non-multi) context
                self.toks.push(Tok {
                    k: K::StrClose,
                    s: p,
                    e: p + open_len,
                    depth: self.depth,
                    in_multi: self.multi > 0 || multi,
                });
                return p + open_len;
            }
            if c == b'{' && !pattern {
                if p > text_start {
                    self.push(K::StrText, text_start, p);
                }
                self.push(K::HoleOpen, p, p + 1);
                self.depth += 1;
                p = self.code(p + 1, true);
                text_start = p;
                continue;
            }
            p += 1;
        }
    }
}

/// The comment texts of `src` in order (from `//` to the end of the line, trailing whitespace
/// removed). `None` when the source does not lex cleanly.
pub fn comments(src: &str) -> Option<Vec<String>> {
    let lx = lex(src);
    if !lx.ok {
        return None;
    }
    Some(
        lx.toks
            .iter()
            .filter(|t| t.k == K::Comment)
            .map(|t| src[t.s..t.e].trim_end().to_string())
            .collect(),
    )
}

/// `src` with every comment removed (the line break that ends it is kept).
pub fn strip_comments(src: &str, lx: &Lexed) -> String {
    let mut out = String::with_capacity(src.len());
    let mut last = 0;
    for t in &lx.toks {
        if t.k == K::Comment {
            out.push_str(&src[last..t.s]);
            last = t.e;
        }
    }
    out.push_str(&src[last..]);
    out
}

/// Every offset at which trivia may be inserted: each start and each end of a token that is not
/// string text (so never inside literal text), de-duplicated, ascending. Includes 0 and `len`.
pub fn boundaries(src: &str, lx: &Lexed) -> Vec<usize> {
    let mut v = vec![0usize, src.len()];
    for (i, t) in lx.toks.iter().enumerate() {
        match t.k {
            K::Ws | K::Nl => {}
            K::StrText => {}
            // a string's opening delimiter: only its start; closing: only its end; a hole's `{`: its
            // end (inside the hole); a hole's `}`: its start.
            K::StrOpen => v.push(t.s),
            K::StrClose => v.push(t.e),
            K::HoleOpen => v.push(t.e),
            K::HoleClose => v.push(t.s),
            K::Comment => {
                v.push(t.s);
            }
            _ => {
                v.push(t.s);
                v.push(t.e);
            }
        }
        let _ = i;
    }
    v.sort_unstable();
    v.dedup();
    v
}
