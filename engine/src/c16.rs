//! C16 — "Tail calls run in constant space" (evidence level: exploration, exhaustive over a
//! template grammar).
//!
//! Universe: every tail-recursive program shape `target x payload x position`, where a position is
//! a composition (outermost first) of wrappers around the core `ARG <tail call>` — up to 2 (quick) /
//! 3 (thorough) wrappers for the `int` payload, 1 / 2 for the other payloads.
//! Each program counts down from N to 0. Every shape the real parser+compiler accept is executed
//! with `quiver_core::execute_bytecode_sync(bytecode, &builtins, true)` at N and at 50*N.
//!
//! Oracles (each has its own id, used in signatures):
//!   * `frames` / `locals` / `stack`: `stats.peak_frame_count` / `peak_locals_size` /
//!     `peak_stack_size` at 50*N equal those at N (no growth at all).
//!   * `heap.q1`: `heap_stats().slots` at 50*N equals that at N when the executor's reclamation point
//!     (`process_pending_free`, start of every `step`) is reached before every instruction
//!     (time-slice 1 through the `verif` quantum override).
//!   * `heap.q1000`: with the default 1000-instruction time-slice the slot count may differ by the
//!     phase of the slice boundary relative to the loop, so only bounded growth is demanded:
//!     slots(50N) <= slots(N) + HEAP_SLACK.
//!   * `static.height`: abstract interpretation over (pc, operand height) of every compiled function;
//!     every reachable `TailCall(true)` has height 1, every `TailCall(false)` height 2.
//!   * `completes`: the countdown reaches its base case (no hang / crash); `panic`: no panic inside
//!     repository code.
//!
//! `^` written outside tail position is not part of the universe; a small fixed probe set records
//! what the implementation does with it (rejected: counted; accepted: judged under `nontail.*`,
//! see `NONTAIL_REASON`).
//!
//! All repository code that executes programs runs in child processes (`QV_C16_SERVE=1`), one
//! request per line on stdin, one JSON answer per line on stdout, watched by CPU time.
//! Developer aids: `QV_C16_SHOW=<canonical shape>` / `QV_C16_SRC=<program with {N}>` evaluate one
//! program and print everything; `VERIF_C16_BUDGET_S` moves the time cap (loaded machines).

use crate::infra::{Budget, Report, Tier, Violation};
use crate::qcompile;
use quiver_core::bytecode::{Bytecode, Instruction};
use quiver_core::executor::InstructionType;
use rayon::prelude::*;
use serde_json::{Value as J, json};
use std::collections::{BTreeMap, BTreeSet, HashMap};
use std::io::{BufRead, BufReader, Write};
use std::process::{Child, ChildStdin, Command, Stdio};
use std::sync::Mutex;
use std::sync::atomic::{AtomicUsize, Ordering};
use std::sync::mpsc;
use std::time::{Duration, Instant};

const N_SMALL: u64 = 200;
const N_FACTOR: u64 = 50;
/// Tolerated slot-count difference under the default 1000-instruction time-slice (see module doc).
const HEAP_SLACK: u64 = 16;
/// CPU seconds one evaluation may consume in its child before it is declared hung (a normal
/// evaluation needs well under one second).
const CPU_LIMIT_S: f64 = 30.0;
/// Wall-clock backstop for one evaluation (only reached if the child is starved of CPU).
const WALL_LIMIT_S: f64 = 600.0;
/// After this many hangs/crashes the enumeration stops issuing work (reported as a cap).
const MAX_ABNORMAL: usize = 6;
const EXPECTED_VALUE: &str = "Integer(9)";

// ---------------------------------------------------------------------------------------------
// The template grammar

macro_rules! small_enum {
    ($name:ident { $($variant:ident => $text:expr),+ $(,)? }) => {
        #[derive(Clone, Copy, PartialEq, Eq, PartialOrd, Ord, Hash, Debug)]
        enum $name { $($variant),+ }
        impl $name {
            const ALL: &'static [$name] = &[$($name::$variant),+];
            fn name(self) -> &'static str { match self { $($name::$variant => $text),+ } }
            fn parse(s: &str) -> Option<$name> { Self::ALL.iter().copied().find(|v| v.name() == s) }
        }
    };
}

// Declaration order is the simplicity order used by the shrinker (earlier = simpler).
small_enum!(Target {
    SelfCall => "self",          // `^`
    SelfCapture => "self+capture", // `^` in a function that has a captured variable
    NamedSelf => "named",        // `^k`, k a function-valued variable (the function itself, passed along)
    NamedField => "named-field", // `^r.k`, the function taken from a record field (member-access form)
    Mutual => "mutual",          // f `^b` <-> g `^a`
    Ripple => "ripple",          // `^~` on a freshly built nilary closure (the std/iter.qv idiom)
});

small_enum!(Payload {
    Int => "int",                 // the counter only
    Tuple3 => "tuple3",           // [counter, a, b] — fixed-size accumulator
    BinDropStack => "bin-drop-stack", // fresh binary per iteration, result of a dropped sequence step
    BinDropLocal => "bin-drop-local", // fresh binary per iteration, bound to a local, dropped by the tail call
    BinKeep => "bin-keep",        // [counter, bin]: fresh binary per iteration kept in a fixed-size slot
});

small_enum!(Wrap {
    Blk => "blk",                 // { X }                      nested block (redundant: simplify splices/lifts it)
    Cons => "cons",               // 1 => X                     consequence after `=>`
    Bind1 => "bind1",             // v = 7, X                   after 1 local binding
    Bind2 => "bind2",             // v = 7, w = 8, X            after 2 local bindings
    MatchLit => "match-lit",      // D =1, X                    after a succeeding (run-time) match, no binder
    MatchBind => "match-bind",    // [1, 2] =[v, w], X          after a succeeding destructuring match
    ConsBind => "cons-bind",      // 7 =v => X                  consequence of a condition that bound a local
    BlkVal => "blk-val",          // 7 { X }                    nested block fed by a flowing value
    BlkBind => "blk-bind",        // { v = 7, X }               nested block with its own binding
    BlkFail => "blk-fail",        // { | D =0 => 0 | X }        nested block, after a failing (run-time) match
    BlkFailTuple => "blk-fail-tuple", // { | [7, D] =[v, 0] => 0 | X } ... one pattern that meets a binder, then fails
    FailBranch => "fail-branch",  // 7 =v, D =0 => 0 | X        an earlier branch that binds, then fails (cleanup block path)
});

/// A run-time-only integer 1 (the compiler does not fold builtin calls), used so that the
/// "failing" / "succeeding" matches are decided by executed code, not pruned statically.
const DYN_ONE: &str = "[2, 1] __integer_subtract__";
const FRESH_BIN: &str = "[0x01, 0x02] __binary_concat__";

impl Wrap {
    fn render(self, depth: usize, x: &str) -> String {
        let (v, w) = (format!("v{}", depth), format!("w{}", depth));
        match self {
            Wrap::Blk => format!("{{ {} }}", x),
            Wrap::Cons => format!("1 => {}", x),
            Wrap::Bind1 => format!("{} = 7, {}", v, x),
            Wrap::Bind2 => format!("{} = 7, {} = 8, {}", v, w, x),
            Wrap::MatchLit => format!("{} =1, {}", DYN_ONE, x),
            Wrap::MatchBind => format!("[1, 2] =[{}, {}], {}", v, w, x),
            Wrap::ConsBind => format!("7 ={} => {}", v, x),
            Wrap::BlkVal => format!("7 {{ {} }}", x),
            Wrap::BlkBind => format!("{{ {} = 7, {} }}", v, x),
            Wrap::BlkFail => format!("{{ | {} =0 => 0 | {} }}", DYN_ONE, x),
            Wrap::BlkFailTuple => format!("{{ | [7, {}] =[{}, 0] => 0 | {} }}", DYN_ONE, v, x),
            Wrap::FailBranch => format!("7 ={}, {} =0 => 0 | {}", v, DYN_ONE, x),
        }
    }
}

#[derive(Clone, PartialEq, Eq, PartialOrd, Ord, Hash, Debug)]
struct Shape {
    target: Target,
    payload: Payload,
    /// Outermost first.
    wraps: Vec<Wrap>,
}

impl Shape {
    fn canon(&self) -> String {
        let w: Vec<&str> = self.wraps.iter().map(|w| w.name()).collect();
        format!("{}|{}|{}", self.target.name(), self.payload.name(), w.join("/"))
    }

    fn parse(s: &str) -> Option<Shape> {
        let mut it = s.split('|');
        let target = Target::parse(it.next()?)?;
        let payload = Payload::parse(it.next()?)?;
        let w = it.next()?;
        let mut wraps = vec![];
        for part in w.split('/').filter(|p| !p.is_empty()) {
            wraps.push(Wrap::parse(part)?);
        }
        Some(Shape { target, payload, wraps })
    }

    fn wrap(&self, core: &str) -> String {
        let mut x = core.to_string();
        for (i, w) in self.wraps.iter().enumerate().rev() {
            x = w.render(i, &x);
        }
        x
    }

    /// The program text, with `{N}` standing for the iteration count.
    fn render(&self) -> String {
        let dec = if self.target == Target::SelfCapture { "d" } else { "1" };
        let sub = |x: &str| format!("[{}, {}] __integer_subtract__", x, dec);
        let (types, init): (Vec<&str>, Vec<&str>) = match self.payload {
            Payload::Int | Payload::BinDropStack | Payload::BinDropLocal => (vec!["'int"], vec!["{N}"]),
            Payload::Tuple3 => (vec!["'int", "'int", "'int"], vec!["{N}", "3", "4"]),
            Payload::BinKeep => (vec!["'int", "'bin"], vec!["{N}", "0x00"]),
        };
        let k = types.len();
        let next = |acc: &[String]| -> Vec<String> {
            match self.payload {
                Payload::Int | Payload::BinDropStack | Payload::BinDropLocal => vec![sub(&acc[0])],
                Payload::Tuple3 => vec![sub(&acc[0]), acc[2].clone(), acc[1].clone()],
                Payload::BinKeep => vec![sub(&acc[0]), FRESH_BIN.to_string()],
            }
        };
        let prefix = match self.payload {
            Payload::BinDropStack => format!("{}, ", FRESH_BIN),
            Payload::BinDropLocal => format!("z = {}, ", FRESH_BIN),
            _ => String::new(),
        };
        let dollar = |n: usize| -> Vec<String> { (0..n).map(|i| format!("${}", i)).collect() };
        let zero_pattern = |extra: usize| -> String {
            let mut p = vec!["0".to_string()];
            p.extend(std::iter::repeat_n("_".to_string(), k - 1 + extra));
            format!("=[{}]", p.join(", "))
        };
        match self.target {
            Target::SelfCall | Target::SelfCapture => {
                let (ptype, acc, zp, initv) = if k == 1 {
                    (types[0].to_string(), vec!["$".to_string()], "=0".to_string(), init[0].to_string())
                } else {
                    (format!("[{}]", types.join(", ")), dollar(k), zero_pattern(0), format!("[{}]", init.join(", ")))
                };
                let n = next(&acc);
                let arg = if k == 1 { n[0].clone() } else { format!("[{}]", n.join(", ")) };
                let core = format!("{}{} ^", prefix, arg);
                let cap = if self.target == Target::SelfCapture { "d = 1, " } else { "" };
                format!("{}f = #{} {{ | {} => 9 | {} }}, {} f", cap, ptype, zp, self.wrap(&core), initv)
            }
            Target::NamedSelf => {
                let ptype = format!("[{}, #^ -> ('int | [])]", types.join(", "));
                let n = next(&dollar(k));
                let core = format!("kk = &${}, {}[{}, &kk] ^kk", k, prefix, n.join(", "));
                format!(
                    "f = #{} {{ | {} => 9 | {} }}, [{}, &f] f",
                    ptype,
                    zero_pattern(1),
                    self.wrap(&core),
                    init.join(", ")
                )
            }
            Target::NamedField => {
                let ptype = format!("[{}, #^ -> ('int | [])]", types.join(", "));
                let n = next(&dollar(k));
                let core = format!("r = [k: &${}], {}[{}, &r.k] ^r.k", k, prefix, n.join(", "));
                format!(
                    "f = #{} {{ | {} => 9 | {} }}, [{}, &f] f",
                    ptype,
                    zero_pattern(1),
                    self.wrap(&core),
                    init.join(", ")
                )
            }
            Target::Mutual => {
                let ptype = format!("[{}, #^ -> ('int | []), #^ -> ('int | [])]", types.join(", "));
                let n = next(&dollar(k));
                let core = |callee: &str| {
                    format!(
                        "ka = &${}, kb = &${}, {}[{}, &ka, &kb] ^{}",
                        k,
                        k + 1,
                        prefix,
                        n.join(", "),
                        callee
                    )
                };
                format!(
                    "f = #{p} {{ | {z} => 9 | {bf} }}, g = #{p} {{ | {z} => 8 | {bg} }}, [{i}, &f, &g] f",
                    p = ptype,
                    z = zero_pattern(2),
                    bf = self.wrap(&core("kb")),
                    bg = self.wrap(&core("ka")),
                    i = init.join(", ")
                )
            }
            Target::Ripple => {
                let names: Vec<String> = (0..k).map(|i| format!("s{}", i)).collect();
                let n = next(&names);
                // The closure only keeps what it captures: mention the kept binary so it is captured.
                let keep = if self.payload == Payload::BinKeep { "s1, " } else { "" };
                let core = format!("{}{}[&self, {}] self ^~", prefix, keep, n.join(", "));
                format!(
                    "mk = #[#^ -> (#[] -> ('int | [])), {t}] {{ =[self, {s}] #{{ | s0 =0 => 9 | {b} }} }}, [&mk, {i}] mk =t, t",
                    t = types.join(", "),
                    s = names.join(", "),
                    b = self.wrap(&core),
                    i = init.join(", ")
                )
            }
        }
    }
}

/// All wrapper sequences of length <= max_depth, shortest first, then lexicographic in `Wrap::ALL`.
fn positions(max_depth: usize) -> Vec<Vec<Wrap>> {
    let mut out = vec![vec![]];
    let mut level: Vec<Vec<Wrap>> = vec![vec![]];
    for _ in 0..max_depth {
        let mut next = vec![];
        for p in &level {
            for w in Wrap::ALL {
                let mut q = p.clone();
                q.push(*w);
                next.push(q);
            }
        }
        out.extend(next.iter().cloned());
        level = next;
    }
    out
}

/// The universe, simplest first: by position (shorter first), then target, then payload. Positions
/// go to `depth_int` wrappers for the `int` payload and to `depth_other` for the other payloads
/// (position and payload are nearly independent: the position decides frames/locals/stack
/// bookkeeping, the payload decides what sits in those cells and on the heap).
fn universe(depth_int: usize, depth_other: usize) -> Vec<Shape> {
    let mut out = vec![];
    for wraps in positions(depth_int.max(depth_other)) {
        for target in Target::ALL {
            for payload in Payload::ALL {
                let limit = if *payload == Payload::Int { depth_int } else { depth_other };
                if wraps.len() <= limit {
                    out.push(Shape { target: *target, payload: *payload, wraps: wraps.clone() });
                }
            }
        }
    }
    out
}

/// `^` written where it is NOT in tail position (or not obviously so): see `NONTAIL_REASON`.
const NONTAIL_PROBES: &[(&str, &str)] = &[
    ("tuple-field", "f = #'int { =0 => 9 | [7, [~, 1] __integer_subtract__ ^] }, {N} f"),
    ("tuple-field-first", "f = #'int { =0 => 9 | [[~, 1] __integer_subtract__ ^, 7] }, {N} f"),
    ("tuple-field-nested", "f = #'int { =0 => 9 | [7, [8, [$, 1] __integer_subtract__ ^]] }, {N} f"),
    ("tuple-field-block", "f = #'int { =0 => 9 | [7, { [$, 1] __integer_subtract__ ^ }] }, {N} f"),
    ("call-argument", "g = #['int, 'int] { $0 }, f = #'int { =0 => 9 | [7, [$, 1] __integer_subtract__ ^] g }, {N} f"),
    ("string-hole", "f = #'int { =0 => 9 | \"a{ [$, 1] __integer_subtract__ ^ }\" }, {N} f"),
    ("spread-field", "f = #'int { =0 => 9 | t = [1, 2], [...t, [$, 1] __integer_subtract__ ^] }, {N} f"),
    ("condition", "f = #'int { | =0 => 9 | [$, 1] __integer_subtract__ ^ => 1 }, {N} f"),
    ("bound-result", "f = #'int { =0 => 9 | x = [$, 1] __integer_subtract__ ^, x }, {N} f"),
    ("matched-result", "f = #'int { =0 => 9 | [$, 1] __integer_subtract__ ^ =x, x }, {N} f"),
    ("mid-chain-block", "g = #'int { 5 }, f = #'int { =0 => 9 | { [$, 1] __integer_subtract__ ^ } g }, {N} f"),
    ("leak-outlives-call", "f = #'int { =0 => 9 | [7, [$, 1] __integer_subtract__ ^] }, h = #'int { | =0 => 9 | 3 f, [$, 1] __integer_subtract__ ^ }, {N} h"),
    (
        "named-in-tuple",
        "'r = 'int | ['int, ^]\nf = #['int, #^ -> 'r] { | =[0, _] => 9 | kk = &$1, [7, [[$0, 1] __integer_subtract__, &kk] ^kk] }, [{N}, &f] f",
    ),
    (
        "ripple-in-tuple",
        "'r = 'int | ['int, ^]\nmk = #[#^ -> (#[] -> 'r), 'int] { =[self, s0] #{ | s0 =0 => 9 | [7, [&self, [s0, 1] __integer_subtract__] self ^~] } }, [&mk, {N}] mk =t, t",
    ),
];

/// Whether an ACCEPTED probe that grows is a violation (oracle ids `nontail.<oracle>`). A rejected
/// probe is only counted.
const JUDGE_NONTAIL: bool = true;

const NONTAIL_REASON: &str = "docs/spec.md ('Tail recursion': \"Use `^` for tail-recursive calls\") introduces `^` only as a tail call and does not say what `^` means inside a tuple field / string hole / call argument / condition, so a program that writes it there is not one of the tail-recursive shapes the property quantifies over and is NOT part of the enumerated universe. The probes record what the implementation does with such programs. A probe the compiler REJECTS is counted and nothing more (since /repo commit eebb344 the compiler refuses `^` while operands of an enclosing tuple literal or string are pending: 'not in tail position'). A probe the compiler ACCEPTS is a function that repeats itself through `^` and runs, so the property's wording applies to it as to any other accepted program: it is judged by the same oracles, under the ids `nontail.*`. Before eebb344 the tuple-field probes were accepted and stranded k operand cells per iteration (peak stack 403 at N=200, 20003 at N=10000; static height 1+k at the TailCall), cells that even survived the function's return.";

// ---------------------------------------------------------------------------------------------
// Static oracle: abstract interpretation over (pc, operand height)

fn analyze(bc: &Bytecode) -> J {
    let mut sites = vec![];
    let mut problems: Vec<String> = vec![];
    let mut unsupported = vec![];
    let mut ends = vec![];
    for (fi, f) in bc.functions.iter().enumerate() {
        let code = &f.instructions;
        let n = code.len();
        if n == 0 {
            continue; // body-less (type-only) function
        }
        // Height is relative to the frame: a frame starts with its argument on the stack. Every
        // (pc, height) pair reachable in the control-flow graph is visited (both outcomes of every
        // JumpIf are taken as possible), so a TailCall is judged on EVERY path reaching it.
        let mut seen: BTreeSet<(usize, i64)> = BTreeSet::new();
        let mut first: Vec<Option<i64>> = vec![None; n + 1];
        let mut work: Vec<(usize, i64)> = vec![(0, 1)];
        let mut fn_problems = vec![];
        let mut fn_sites = vec![];
        let mut fn_ends = vec![];
        let mut bad = false;
        'walk: while let Some((pc, h)) = work.pop() {
            if pc > n {
                fn_problems.push(format!("fn {}: jump target {} out of range", fi, pc));
                continue;
            }
            if !seen.insert((pc, h)) {
                continue;
            }
            if seen.len() > 64 * (n + 1) || h > 4096 {
                fn_problems.push(format!("fn {}: operand height does not stabilise", fi));
                break 'walk;
            }
            match first[pc] {
                Some(h0) if h0 != h => {
                    fn_problems.push(format!("fn {} pc {}: heights {} and {} meet", fi, pc, h0, h));
                }
                Some(_) => {}
                None => first[pc] = Some(h),
            }
            if pc == n {
                fn_ends.push(h);
                continue;
            }
            // An instruction that would underflow the frame's operands ends the path (recorded).
            let need = |k: i64, fn_problems: &mut Vec<String>| -> bool {
                if h < k {
                    fn_problems.push(format!("fn {} pc {}: {:?} at height {}", fi, pc, code[pc], h));
                }
                h >= k
            };
            let (pops, pushes): (i64, i64) = match code[pc] {
                Instruction::Constant(_) | Instruction::Load(_) | Instruction::Builtin(_) => (0, 1),
                Instruction::Pop | Instruction::Store => (1, 0),
                Instruction::Duplicate => {
                    if !need(1, &mut fn_problems) {
                        continue;
                    }
                    (0, 1)
                }
                Instruction::Pick(k) => {
                    if !need(k as i64 + 1, &mut fn_problems) {
                        continue;
                    }
                    (0, 1)
                }
                Instruction::Rotate(k) => {
                    if !need(k as i64, &mut fn_problems) {
                        continue;
                    }
                    (0, 0)
                }
                Instruction::Reset(_) => (0, 0),
                Instruction::Tuple(t) => match bc.tuples.get(t) {
                    Some(info) => (info.fields.len() as i64, 1),
                    None => {
                        fn_problems.push(format!("fn {} pc {}: unknown tuple {}", fi, pc, t));
                        continue;
                    }
                },
                Instruction::Get(_) | Instruction::IsType(_) | Instruction::Not => (1, 1),
                Instruction::Equal(k) => (k as i64, 1),
                Instruction::Function(g) => match bc.functions.get(g) {
                    Some(func) => (func.captures as i64, 1),
                    None => {
                        fn_problems.push(format!("fn {} pc {}: unknown function {}", fi, pc, g));
                        continue;
                    }
                },
                // pops callee and argument, the callee leaves its result
                Instruction::Call => (2, 1),
                Instruction::Jump(off) => {
                    work.push(((pc as i64 + off as i64 + 1) as usize, h));
                    continue;
                }
                Instruction::JumpIf(off) => {
                    if !need(1, &mut fn_problems) {
                        continue;
                    }
                    work.push(((pc as i64 + off as i64 + 1) as usize, h - 1));
                    work.push((pc + 1, h - 1));
                    continue;
                }
                Instruction::TailCall(recurse) => {
                    fn_sites.push(json!({"fn": fi, "pc": pc, "recurse": recurse, "height": h}));
                    continue; // the frame is replaced: no successor
                }
                Instruction::Spawn
                | Instruction::Send
                | Instruction::Self_
                | Instruction::Select
                | Instruction::Process(_, _) => {
                    bad = true;
                    break 'walk;
                }
            };
            if !need(pops, &mut fn_problems) {
                continue;
            }
            work.push((pc + 1, h - pops + pushes));
        }
        if bad {
            unsupported.push(fi);
            continue;
        }
        sites.extend(fn_sites);
        problems.extend(fn_problems);
        for h in fn_ends {
            ends.push(json!({"fn": fi, "height": h}));
        }
    }
    json!({"sites": sites, "problems": problems, "unsupported": unsupported, "ends": ends})
}

// ---------------------------------------------------------------------------------------------
// Child side: compile + run one program (everything that touches repository code)

fn fnv64(bytes: &[u8]) -> u64 {
    let mut h: u64 = 0xcbf29ce484222325;
    for b in bytes {
        h ^= *b as u64;
        h = h.wrapping_mul(0x100000001b3);
    }
    h
}

fn run_once(bc: Bytecode, quantum: Option<usize>, n: u64) -> J {
    let builtins = qcompile::core_builtins();
    quiver_core::executor::verif::set_quantum(quantum);
    let r = std::panic::catch_unwind(std::panic::AssertUnwindSafe(|| {
        quiver_core::execute_bytecode_sync(bc, &builtins, true)
    }));
    quiver_core::executor::verif::set_quantum(None);
    let q = quantum.map(|q| q as u64).unwrap_or(1000);
    match r {
        Err(_) => json!({"n": n, "q": q, "status": "panic", "msg": crate::sim::system::take_panic()}),
        Ok(Err(e)) => json!({"n": n, "q": q, "status": "runtime_error", "msg": format!("{:?}", e)}),
        Ok(Ok((value, ex))) => {
            let count = |t: InstructionType| ex.stats.instruction_stats.get(&t).map(|c| c.0).unwrap_or(0);
            json!({
                "n": n, "q": q, "status": "ok",
                "value": format!("{:?}", value),
                "frames": ex.stats.peak_frame_count,
                "locals": ex.stats.peak_locals_size,
                "stack": ex.stats.peak_stack_size,
                "slots": ex.heap_stats().slots,
                "tail_calls": count(InstructionType::TailCall),
                "instructions": ex.stats.total_instructions(),
            })
        }
    }
}

fn eval_program(template: &str, n_small: u64, n_big: u64, q1: bool) -> J {
    let builtins = qcompile::core_builtins();
    let compile = |n: u64| {
        let src = template.replace("{N}", &n.to_string());
        std::panic::catch_unwind(std::panic::AssertUnwindSafe(|| qcompile::compile(&src, &builtins)))
    };
    let mut units = vec![];
    for n in [n_small, n_big] {
        match compile(n) {
            Err(_) => return json!({"status": "compile_panic", "msg": crate::sim::system::take_panic()}),
            Ok(Err(qcompile::CompileFail::Parse(m))) => return json!({"status": "parse_reject", "msg": m}),
            Ok(Err(qcompile::CompileFail::Compile(m))) => return json!({"status": "compile_reject", "msg": m}),
            Ok(Err(qcompile::CompileFail::Panic(m))) => return json!({"status": "compile_panic", "msg": m}),
            Ok(Ok(u)) => units.push((n, u.bytecode())),
        }
    }
    let bc0 = &units[0].1;
    let statics = analyze(bc0);
    let code_hash = fnv64(
        format!("{:?}", bc0.functions.iter().map(|f| (&f.instructions, f.captures)).collect::<Vec<_>>()).as_bytes(),
    );
    let mut runs = vec![];
    let quanta: &[Option<usize>] = if q1 { &[None, Some(1)] } else { &[None] };
    'outer: for q in quanta {
        for (n, bc) in &units {
            let r = run_once(bc.clone(), *q, *n);
            let ok = r["status"] == "ok";
            runs.push(r);
            if !ok {
                break 'outer;
            }
        }
    }
    json!({"status": "done", "static": statics, "runs": runs, "code_hash": format!("{:016x}", code_hash)})
}

fn serve() -> ! {
    let stdin = std::io::stdin();
    let stdout = std::io::stdout();
    for line in stdin.lock().lines() {
        let Ok(line) = line else { break };
        if line.trim().is_empty() {
            continue;
        }
        let answer = match serde_json::from_str::<J>(&line) {
            Ok(req) => eval_program(
                req["src"].as_str().unwrap_or(""),
                req["n"][0].as_u64().unwrap_or(N_SMALL),
                req["n"][1].as_u64().unwrap_or(N_SMALL * N_FACTOR),
                req["q1"].as_bool().unwrap_or(true),
            ),
            Err(e) => json!({"status": "bad_request", "msg": e.to_string()}),
        };
        let mut out = stdout.lock();
        let _ = writeln!(out, "{}", answer);
        let _ = out.flush();
    }
    std::process::exit(0)
}

// ---------------------------------------------------------------------------------------------
// Parent side: evaluation servers with a CPU-time watchdog

struct Server {
    child: Child,
    stdin: ChildStdin,
    rx: mpsc::Receiver<String>,
}

fn cpu_seconds(pid: u32) -> Option<f64> {
    let text = std::fs::read_to_string(format!("/proc/{}/stat", pid)).ok()?;
    let rest = &text[text.rfind(')')? + 1..];
    let fields: Vec<&str> = rest.split_whitespace().collect();
    let utime: f64 = fields.get(11)?.parse().ok()?;
    let stime: f64 = fields.get(12)?.parse().ok()?;
    Some((utime + stime) / 100.0)
}

impl Server {
    fn spawn() -> Result<Server, String> {
        let exe = std::env::current_exe().map_err(|e| e.to_string())?;
        let mut child = Command::new(exe)
            .args(["C16", "--tier", "quick"])
            .env("QV_C16_SERVE", "1")
            .stdin(Stdio::piped())
            .stdout(Stdio::piped())
            .stderr(Stdio::null())
            .spawn()
            .map_err(|e| format!("cannot spawn evaluation child: {}", e))?;
        let stdin = child.stdin.take().ok_or("no stdin")?;
        let stdout = child.stdout.take().ok_or("no stdout")?;
        let (tx, rx) = mpsc::channel();
        std::thread::spawn(move || {
            for line in BufReader::new(stdout).lines() {
                let Ok(line) = line else { break };
                if tx.send(line).is_err() {
                    break;
                }
            }
        });
        Ok(Server { child, stdin, rx })
    }

    /// `Ok(answer)`; `Err(kind)` when the child hung or died (the server is unusable afterwards).
    fn eval(&mut self, req: &J) -> Result<J, String> {
        let pid = self.child.id();
        let cpu0 = cpu_seconds(pid).unwrap_or(0.0);
        let started = Instant::now();
        if writeln!(self.stdin, "{}", req).and_then(|_| self.stdin.flush()).is_err() {
            return Err("crash: child closed its input".to_string());
        }
        loop {
            match self.rx.recv_timeout(Duration::from_millis(250)) {
                Ok(line) => {
                    return serde_json::from_str::<J>(&line).map_err(|e| format!("crash: unreadable answer ({})", e));
                }
                Err(mpsc::RecvTimeoutError::Timeout) => {
                    let used = cpu_seconds(pid).unwrap_or(0.0) - cpu0;
                    if used > CPU_LIMIT_S || started.elapsed().as_secs_f64() > WALL_LIMIT_S {
                        let _ = self.child.kill();
                        let _ = self.child.wait();
                        return Err(format!("hang: no answer after {} CPU-seconds", CPU_LIMIT_S));
                    }
                }
                Err(mpsc::RecvTimeoutError::Disconnected) => {
                    let status = self.child.wait().map(|s| s.to_string()).unwrap_or_default();
                    return Err(format!("crash: child died ({})", status));
                }
            }
        }
    }
}

impl Drop for Server {
    fn drop(&mut self) {
        let _ = self.child.kill();
        let _ = self.child.wait();
    }
}

fn request(template: &str, q1: bool) -> J {
    json!({"src": template, "n": [N_SMALL, N_SMALL * N_FACTOR], "q1": q1})
}

/// Evaluate through `slot` (spawning / respawning the server as needed). Hangs and crashes come back
/// as `{"status": "hang" | "crash"}`.
fn eval_via(slot: &mut Option<Server>, req: &J) -> Result<J, String> {
    if slot.is_none() {
        *slot = Some(Server::spawn()?);
    }
    match slot.as_mut().unwrap().eval(req) {
        Ok(j) => Ok(j),
        Err(kind) => {
            *slot = None;
            let status = if kind.starts_with("hang") { "hang" } else { "crash" };
            Ok(json!({"status": status, "msg": kind}))
        }
    }
}

// ---------------------------------------------------------------------------------------------
// Judging one answer

#[derive(Clone, Debug, Default)]
struct Verdict {
    /// parse_reject | compile_reject | runtime_error | unexpected_value | judged | abnormal
    class: &'static str,
    /// Failed oracles: (id, observed-vs-expected text).
    fails: Vec<(String, String)>,
    nontrivial: bool,
    static_sites: usize,
    static_inconclusive: bool,
    quantum_mismatch: bool,
}

fn find_run<'a>(answer: &'a J, q: u64, n: u64) -> Option<&'a J> {
    answer["runs"].as_array()?.iter().find(|r| r["q"] == q && r["n"] == n)
}

fn judge(answer: &J) -> Verdict {
    let mut v = Verdict::default();
    let status = answer["status"].as_str().unwrap_or("");
    let msg = answer["msg"].as_str().unwrap_or("").to_string();
    match status {
        "parse_reject" => {
            v.class = "parse_reject";
            return v;
        }
        "compile_reject" => {
            v.class = "compile_reject";
            return v;
        }
        "compile_panic" => {
            v.class = "abnormal";
            v.fails.push(("panic".into(), format!("the compiler panicked: {}", msg)));
            return v;
        }
        "hang" | "crash" => {
            v.class = "abnormal";
            v.fails.push(("completes".into(), format!("expected the countdown to finish; observed {}", msg)));
            return v;
        }
        "done" => {}
        other => {
            v.class = "abnormal";
            v.fails.push(("completes".into(), format!("evaluation child answered '{}' {}", other, msg)));
            return v;
        }
    }
    // static oracle
    let st = &answer["static"];
    let problems = st["problems"].as_array().map(|a| a.len()).unwrap_or(0);
    let unsupported = st["unsupported"].as_array().map(|a| a.len()).unwrap_or(0);
    v.static_inconclusive = problems > 0 || unsupported > 0;
    for site in st["sites"].as_array().cloned().unwrap_or_default() {
        v.static_sites += 1;
        let recurse = site["recurse"].as_bool().unwrap_or(false);
        let want = if recurse { 1 } else { 2 };
        let h = site["height"].as_i64().unwrap_or(-1);
        if h != want {
            v.fails.push((
                "static.height".into(),
                format!(
                    "TailCall({}) at fn {} pc {}: operand height {} on a path reaching it, expected {}",
                    recurse, site["fn"], site["pc"], h, want
                ),
            ));
        }
    }
    // dynamic oracles
    let runs = answer["runs"].as_array().cloned().unwrap_or_default();
    for r in &runs {
        match r["status"].as_str().unwrap_or("") {
            "panic" => {
                v.class = "abnormal";
                v.fails.push((
                    "panic".into(),
                    format!("panic while executing at N={} (time-slice {}): {}", r["n"], r["q"], r["msg"].as_str().unwrap_or("")),
                ));
                return v;
            }
            "runtime_error" => {
                v.class = "runtime_error";
                v.fails.retain(|f| f.0 == "static.height");
                return v;
            }
            _ => {}
        }
    }
    let (small, big) = (N_SMALL, N_SMALL * N_FACTOR);
    let (Some(a), Some(b)) = (find_run(answer, 1000, small), find_run(answer, 1000, big)) else {
        v.class = "abnormal";
        v.fails.push(("completes".into(), "evaluation answer lacks the two runs".into()));
        return v;
    };
    let value_ok = |r: &J| r["value"].as_str() == Some(EXPECTED_VALUE);
    let q1 = (find_run(answer, 1, small), find_run(answer, 1, big));
    let all_values_ok = value_ok(a) && value_ok(b) && q1.0.is_none_or(value_ok) && q1.1.is_none_or(value_ok);
    if !all_values_ok {
        // The program did not compute the countdown's result: the measurement says nothing about
        // the property (and a wrong value is some other property's business).
        v.class = "unexpected_value";
        return v;
    }
    v.class = "judged";
    let get = |r: &J, k: &str| r[k].as_u64().unwrap_or(u64::MAX);
    for (id, key) in [("frames", "frames"), ("locals", "locals"), ("stack", "stack")] {
        if get(a, key) != get(b, key) {
            v.fails.push((
                id.into(),
                format!("peak {} {} at N={} but {} at N={}; expected equal", key, get(a, key), small, get(b, key), big),
            ));
        }
    }
    if get(b, "slots") > get(a, "slots") + HEAP_SLACK {
        v.fails.push((
            "heap.q1000".into(),
            format!(
                "heap slots {} at N={} but {} at N={} (default time-slice); expected at most {} more",
                get(a, "slots"), small, get(b, "slots"), big, HEAP_SLACK
            ),
        ));
    }
    if let (Some(c), Some(d)) = q1 {
        if get(c, "slots") != get(d, "slots") {
            v.fails.push((
                "heap.q1".into(),
                format!(
                    "heap slots {} at N={} but {} at N={} (reclamation point before every instruction); expected equal",
                    get(c, "slots"), small, get(d, "slots"), big
                ),
            ));
        }
        for key in ["frames", "locals", "stack"] {
            if get(c, key) != get(a, key) || get(d, key) != get(b, key) {
                v.quantum_mismatch = true;
            }
        }
    }
    v.nontrivial = get(a, "tail_calls") >= small && get(b, "tail_calls") >= big;
    v
}

fn fails_oracle(answer: &J, oracle: &str) -> Option<String> {
    judge(answer).fails.into_iter().find(|f| f.0 == oracle).map(|f| f.1)
}

// ---------------------------------------------------------------------------------------------
// Shrinking

fn shrink_candidates(s: &Shape) -> Vec<Shape> {
    let mut out = vec![];
    // Big steps first (every sub-term replaced by the simplest of its sort), then one at a time.
    let simplest = Shape { target: Target::ALL[0], payload: Payload::ALL[0], wraps: vec![] };
    if *s != simplest {
        out.push(simplest);
    }
    if !s.wraps.is_empty() {
        out.push(Shape { wraps: vec![], ..s.clone() });
    }
    if s.target != Target::ALL[0] && s.payload != Payload::ALL[0] {
        out.push(Shape { target: Target::ALL[0], payload: Payload::ALL[0], wraps: s.wraps.clone() });
    }
    for i in 0..s.wraps.len() {
        let mut c = s.clone();
        c.wraps.remove(i);
        out.push(c);
    }
    for t in Target::ALL.iter().take_while(|t| **t != s.target) {
        out.push(Shape { target: *t, ..s.clone() });
    }
    for p in Payload::ALL.iter().take_while(|p| **p != s.payload) {
        out.push(Shape { payload: *p, ..s.clone() });
    }
    for i in 0..s.wraps.len() {
        for w in Wrap::ALL.iter().take_while(|w| **w != s.wraps[i]) {
            let mut c = s.clone();
            c.wraps[i] = *w;
            out.push(c);
        }
    }
    out
}

struct Evaluator {
    cache: HashMap<Shape, J>,
    server: Option<Server>,
    fresh_evals: usize,
    /// Fresh evaluations (shapes the enumeration did not reach) that hung or crashed; after
    /// `MAX_ABNORMAL_SHRINK` of them no further fresh evaluation is made while shrinking (each
    /// costs the whole CPU limit) and unevaluated candidates are simply not taken.
    fresh_abnormal: usize,
}

const MAX_ABNORMAL_SHRINK: usize = 3;

impl Evaluator {
    /// `None`: the shape was not evaluated by the enumeration and fresh evaluations are exhausted.
    fn answer(&mut self, s: &Shape) -> Result<Option<J>, String> {
        if let Some(a) = self.cache.get(s) {
            return Ok(Some(a.clone()));
        }
        if self.fresh_abnormal >= MAX_ABNORMAL_SHRINK {
            return Ok(None);
        }
        self.fresh_evals += 1;
        let a = eval_via(&mut self.server, &request(&s.render(), true))?;
        if matches!(a["status"].as_str(), Some("hang") | Some("crash")) {
            self.fresh_abnormal += 1;
        }
        self.cache.insert(s.clone(), a.clone());
        Ok(Some(a))
    }

    fn shrink(&mut self, start: &Shape, oracle: &str) -> Result<Shape, String> {
        let mut cur = start.clone();
        'fix: loop {
            for c in shrink_candidates(&cur) {
                let Some(a) = self.answer(&c)? else { continue };
                if fails_oracle(&a, oracle).is_some() {
                    cur = c;
                    continue 'fix;
                }
            }
            return Ok(cur);
        }
    }
}

// ---------------------------------------------------------------------------------------------
// The check

pub fn run(tier: Tier) -> Result<Report, String> {
    if std::env::var_os("QV_C16_SERVE").is_some() {
        serve();
    }
    if let Some(text) = std::env::var("QV_C16_SHOW").ok().or_else(|| std::env::var("QV_C16_SRC").ok()) {
        // developer aid: print the program of a shape (QV_C16_SHOW=<canonical shape>) or take a
        // program template verbatim (QV_C16_SRC=<source with {N}>), and show its evaluation
        let source = if std::env::var_os("QV_C16_SHOW").is_some() {
            Shape::parse(&text).ok_or("bad shape")?.render()
        } else {
            text
        };
        println!("{}", source);
        let mut slot = None;
        let a = eval_via(&mut slot, &request(&source, true))?;
        println!("status {} {}", a["status"], a["msg"]);
        for r in a["runs"].as_array().cloned().unwrap_or_default() {
            println!("  run {}", r);
        }
        println!("  static {}", a["static"]);
        println!("  {:?}", judge(&a));
        std::process::exit(0);
    }
    let (depth_int, depth_other, budget_s) = match tier {
        Tier::Quick => (2usize, 1usize, 24.0),
        Tier::Thorough => (3usize, 2usize, 660.0),
    };
    // The budget can be raised for a loaded machine (the enumeration is the same; only the cap moves).
    let budget_s = std::env::var("VERIF_C16_BUDGET_S").ok().and_then(|s| s.parse::<f64>().ok()).unwrap_or(budget_s);
    let budget = Budget::new(budget_s);
    let mut shapes = universe(depth_int, depth_other);
    let total = shapes.len();
    // VERIF_SEED only rotates the order in which slices are issued.
    let rot = (crate::infra::seed().unsigned_abs() as usize) % total.max(1);
    shapes.rotate_left(rot);

    // One parallel phase over all jobs: the probes first (few, never capped by time), then the shapes.
    let mut jobs: Vec<(String, bool)> = NONTAIL_PROBES.iter().map(|(_, src)| (src.to_string(), false)).collect();
    let probe_count = jobs.len();
    jobs.extend(shapes.iter().map(|shape| {
        let needs_q1 = matches!(shape.payload, Payload::BinDropStack | Payload::BinDropLocal | Payload::BinKeep);
        (shape.render(), needs_q1)
    }));
    let abnormal = AtomicUsize::new(0);
    let spawn_errors: Mutex<Vec<String>> = Mutex::new(vec![]);
    let mut answers: Vec<Option<J>> = jobs
        .par_iter()
        .enumerate()
        .map_init(
            || None::<Server>,
            |slot, (index, (source, needs_q1))| {
                let is_probe = index < probe_count;
                if (budget.exhausted() && !is_probe) || abnormal.load(Ordering::Relaxed) >= MAX_ABNORMAL {
                    return None;
                }
                match eval_via(slot, &request(source, *needs_q1)) {
                    Ok(a) => {
                        if matches!(a["status"].as_str(), Some("hang") | Some("crash")) {
                            abnormal.fetch_add(1, Ordering::Relaxed);
                        }
                        Some(a)
                    }
                    Err(e) => {
                        spawn_errors.lock().unwrap().push(e);
                        None
                    }
                }
            },
        )
        .collect();
    if let Some(e) = spawn_errors.lock().unwrap().first() {
        return Err(e.clone());
    }
    let probe_answers: Vec<Option<J>> = answers.drain(..probe_count).collect();

    // Back to canonical (simplest-first) order.
    let mut indexed: Vec<(Shape, Option<J>)> = shapes.into_iter().zip(answers).collect();
    indexed.rotate_right(rot);

    let mut counts: BTreeMap<&'static str, u64> = BTreeMap::new();
    let mut by_target: BTreeMap<&'static str, u64> = BTreeMap::new();
    let mut by_payload: BTreeMap<&'static str, u64> = BTreeMap::new();
    let mut by_wrap: BTreeMap<&'static str, u64> = BTreeMap::new();
    let mut nontrivial_sources: BTreeSet<String> = BTreeSet::new();
    let mut code_hashes: BTreeSet<String> = BTreeSet::new();
    let mut evaluations = 0u64;
    let mut skipped = 0u64;
    let mut static_sites = 0u64;
    let mut static_inconclusive = 0u64;
    let mut quantum_mismatch = 0u64;
    let mut reject_samples: BTreeMap<String, String> = BTreeMap::new();
    let mut reject_by: BTreeMap<String, u64> = BTreeMap::new();
    let mut unjudged_samples: Vec<J> = vec![];
    let mut failing: Vec<(Shape, String, String)> = vec![]; // (shape, oracle, detail)
    let mut cache: HashMap<Shape, J> = HashMap::new();
    let mut samples: Vec<J> = vec![];
    let mut nontrivial_list: Vec<usize> = vec![];

    for (i, (shape, answer)) in indexed.iter().enumerate() {
        let Some(answer) = answer else {
            skipped += 1;
            continue;
        };
        evaluations += 1;
        cache.insert(shape.clone(), answer.clone());
        let v = judge(answer);
        *counts.entry(v.class).or_default() += 1;
        static_sites += v.static_sites as u64;
        static_inconclusive += v.static_inconclusive as u64;
        quantum_mismatch += v.quantum_mismatch as u64;
        if let Some(h) = answer["code_hash"].as_str() {
            code_hashes.insert(h.to_string());
        }
        match v.class {
            "parse_reject" | "compile_reject" => {
                let msg = answer["msg"].as_str().unwrap_or("").to_string();
                let key: String = format!(
                    "{}: {}",
                    v.class,
                    msg.chars().take(70).map(|c| if c.is_ascii_digit() { '#' } else { c }).collect::<String>()
                );
                reject_samples.entry(key).or_insert_with(|| shape.render());
                let w: Vec<&str> = shape.wraps.iter().map(|w| w.name()).collect();
                *reject_by.entry(format!("{} {}", v.class, w.join("/"))).or_default() += 1;
            }
            "runtime_error" | "unexpected_value" => {
                if unjudged_samples.len() < 5 {
                    unjudged_samples.push(json!({"shape": shape.canon(), "source": shape.render(), "class": v.class, "runs": answer["runs"]}));
                }
            }
            _ => {}
        }
        if v.nontrivial {
            nontrivial_sources.insert(shape.render());
            nontrivial_list.push(i);
            *by_target.entry(shape.target.name()).or_default() += 1;
            *by_payload.entry(shape.payload.name()).or_default() += 1;
            for w in &shape.wraps {
                *by_wrap.entry(w.name()).or_default() += 1;
            }
        }
        for (oracle, detail) in v.fails {
            failing.push((shape.clone(), oracle, detail));
        }
    }
    // samples: first, middle and last non-trivial case, written out with their measurements
    if !nontrivial_list.is_empty() {
        let picks = [0, nontrivial_list.len() / 3, 2 * nontrivial_list.len() / 3, nontrivial_list.len() - 1];
        let mut seen = BTreeSet::new();
        for p in picks {
            let i = nontrivial_list[p];
            if !seen.insert(i) {
                continue;
            }
            let (shape, answer) = &indexed[i];
            let a = answer.as_ref().unwrap();
            samples.push(json!({
                "shape": shape.canon(),
                "source": shape.render(),
                "runs": a["runs"],
                "tail_call_sites": a["static"]["sites"],
            }));
        }
    }

    // Non-tail probes: rejected ones are counted, accepted ones are judged (`nontail.*`).
    let mut probe_rows = vec![];
    let mut probe_growing = 0u64;
    let mut probe_rejected = 0u64;
    let mut probe_violations: Vec<Violation> = vec![];
    let mut probe_fails: BTreeMap<String, Vec<(&&str, &&str, String)>> = BTreeMap::new();
    {
        for ((name, src), a) in NONTAIL_PROBES.iter().zip(probe_answers) {
            let Some(a) = a else {
                probe_rows.push(json!({"id": format!("nontail.{}", name), "source": src, "status": "skipped (cap)"}));
                continue;
            };
            let status = a["status"].as_str().unwrap_or("").to_string();
            let mut row = json!({"id": format!("nontail.{}", name), "source": src, "status": status});
            if status == "done" {
                let (small, big) = (N_SMALL, N_SMALL * N_FACTOR);
                if let (Some(x), Some(y)) = (find_run(&a, 1000, small), find_run(&a, 1000, big)) {
                    let grows = ["frames", "locals", "stack"].iter().any(|k| x[*k] != y[*k]);
                    probe_growing += grows as u64;
                    row["peaks_at_N"] = json!([x["frames"], x["locals"], x["stack"]]);
                    row["peaks_at_50N"] = json!([y["frames"], y["locals"], y["stack"]]);
                    row["value"] = x["value"].clone();
                    row["grows"] = json!(grows);
                } else {
                    row["runs"] = a["runs"].clone();
                }
                row["tail_call_heights"] = json!(
                    a["static"]["sites"].as_array().map(|s| s.iter().map(|x| x["height"].clone()).collect::<Vec<_>>())
                );
            } else {
                row["msg"] = a["msg"].clone();
                probe_rejected += matches!(status.as_str(), "parse_reject" | "compile_reject") as u64;
            }
            if JUDGE_NONTAIL {
                for (oracle, detail) in judge(&a).fails {
                    probe_fails.entry(oracle).or_default().push((name, src, detail));
                }
            }
            probe_rows.push(row);
        }
        // One violation per oracle: the first (simplest) failing probe is the witness, the others
        // are named in the signature, so a probe that starts failing later changes the signature.
        for (oracle, list) in &probe_fails {
            let (name, src, detail) = &list[0];
            let others: Vec<&str> = list[1..].iter().map(|(n, _, _)| **n).collect();
            let mut ids: Vec<&str> = list.iter().map(|(n, _, _)| **n).collect();
            ids.dedup();
            probe_violations.push(Violation {
                signature: format!("nontail.{} :: {} (failing probes: {})", oracle, src, ids.join(",")),
                summary: format!(
                    "[probe nontail.{}] `^` outside tail position, accepted by the compiler: {}{}",
                    name,
                    detail,
                    if others.is_empty() { String::new() } else { format!(" (same oracle fails for probes {})", others.join(", ")) }
                ),
                replay: json!({
                    "engine": "c16",
                    "oracle": oracle,
                    "shape": format!("nontail.{}", name),
                    "source": src,
                    "n": [N_SMALL, N_SMALL * N_FACTOR],
                }),
            });
        }
    }

    // Shrink every failing (shape, oracle) to its minimal core; one violation per distinct core.
    let mut evaluator = Evaluator { cache, server: None, fresh_evals: 0, fresh_abnormal: 0 };
    let mut violations: BTreeMap<String, Violation> = BTreeMap::new();
    let mut witnesses: BTreeMap<String, u64> = BTreeMap::new();
    for (shape, oracle, detail) in &failing {
        let core = evaluator.shrink(shape, oracle)?;
        let core_detail = evaluator
            .answer(&core)?
            .and_then(|a| fails_oracle(&a, oracle))
            .unwrap_or_else(|| detail.clone());
        let signature = format!("{} :: {}", oracle, core.render());
        *witnesses.entry(signature.clone()).or_default() += 1;
        violations.entry(signature.clone()).or_insert_with(|| Violation {
            signature,
            summary: format!("[{}] {} (first witness: {})", core.canon(), core_detail, shape.canon()),
            replay: json!({
                "engine": "c16",
                "oracle": oracle,
                "shape": core.canon(),
                "source": core.render(),
                "n": [N_SMALL, N_SMALL * N_FACTOR],
            }),
        });
    }
    let mut violations: Vec<Violation> = violations.into_values().collect();
    for v in &mut violations {
        v.summary = format!("{} [{} failing shape(s) shrink to this core]", v.summary, witnesses[&v.signature]);
    }
    violations.extend(probe_violations);

    let mut caps_hit = vec![];
    if skipped > 0 {
        if abnormal.load(Ordering::Relaxed) >= MAX_ABNORMAL {
            caps_hit.push(format!("stopped after {} hung/crashed evaluations", MAX_ABNORMAL));
        } else {
            caps_hit.push(format!("time budget {} s", budget_s));
        }
    }
    let exhaustive = skipped == 0;
    let accepted = evaluations - counts.get("parse_reject").copied().unwrap_or(0) - counts.get("compile_reject").copied().unwrap_or(0);
    let coverage = json!({
        "evaluations": evaluations,
        "distinct_nontrivial": nontrivial_sources.len(),
        "rule": format!(
            "cases = all shapes target x payload x position, position = every sequence of <= {} wrappers (int payload; <= {} for the other payloads) around `ARG <tail call>`, enumerated shortest position first (a shape's program text is its identity); each accepted case is compiled by the real parser+compiler and run by execute_bytecode_sync(profile=true) at N={} and N={} (allocating payloads additionally with time-slice 1). A case is non-trivial when it was accepted, both runs returned the countdown's result and the executor's own instruction statistics show >= N (resp. >= 50N) executed TailCall instructions; distinct = distinct program texts.",
            depth_int, depth_other, N_SMALL, N_SMALL * N_FACTOR
        ),
        "exhaustive": exhaustive,
        "caps_hit": caps_hit,
        "universe": {
            "targets": Target::ALL.iter().map(|t| t.name()).collect::<Vec<_>>(),
            "payloads": Payload::ALL.iter().map(|t| t.name()).collect::<Vec<_>>(),
            "wrappers": Wrap::ALL.iter().map(|w| json!({"name": w.name(), "text": w.render(0, "X")})).collect::<Vec<_>>(),
            "max_wrapper_depth_int_payload": depth_int,
            "max_wrapper_depth_other_payloads": depth_other,
            "shapes": total,
            "N": [N_SMALL, N_SMALL * N_FACTOR],
            "heap_slack_default_time_slice": HEAP_SLACK,
        },
        "skipped_by_cap": skipped,
        "accepted": accepted,
        "classes": counts,
        "rejected_samples": reject_samples,
        "rejected_positions": reject_by.len(),
        "rejected_positions_first_20": reject_by.iter().take(20).map(|(k, n)| format!("{} x{}", k, n)).collect::<Vec<_>>(),
        "unjudged_samples": unjudged_samples,
        "nontrivial_by_target": by_target,
        "nontrivial_by_payload": by_payload,
        "nontrivial_wrapper_occurrences": by_wrap,
        "distinct_compiled_code": code_hashes.len(),
        "static_tail_call_sites_checked": static_sites,
        "static_inconclusive_programs": static_inconclusive,
        "peaks_differ_between_time_slices": quantum_mismatch,
        "failing_shape_oracle_pairs": failing.len(),
        "shrink_fresh_evaluations": evaluator.fresh_evals,
        "oracles": ["frames", "locals", "stack", "heap.q1", "heap.q1000", "static.height", "completes", "panic"],
        "nontail_probes": {
            "accepted_ones_judged": JUDGE_NONTAIL,
            "note": NONTAIL_REASON,
            "probes": NONTAIL_PROBES.len(),
            "rejected_by_compiler": probe_rejected,
            "accepted_and_growing": probe_growing,
            "cases": probe_rows,
        },
        "samples": samples,
    });
    let assumptions = vec![
        "Space is observed through the executor's own counters (ExecutionStats::update_peaks after every hot instruction, heap_stats().slots at the end); they are taken as faithful.".to_string(),
        format!("Constant space is judged by comparing N={} with N={}: growth slower than one cell per {} iterations would not be seen.", N_SMALL, N_SMALL * N_FACTOR, N_SMALL * N_FACTOR - N_SMALL),
        format!("Heap: strict equality is demanded with the reclamation point before every instruction (time-slice 1); under the default 1000-instruction slice only growth beyond {} slots is an alarm, because the slice boundary's phase relative to the loop legitimately changes the count by a few slots.", HEAP_SLACK),
        "Programs whose payload VALUE grows (big integers, lists, growing binaries) are outside the universe; `^` outside tail position is outside it too (fixed probe set: rejected ones are counted, accepted ones are judged under nontail.*).".to_string(),
        "A case that does not return the countdown's value (runtime error / other value) is counted, not judged.".to_string(),
    ];
    Ok(Report { property: "C16", level: "exploration", coverage, assumptions, violations })
}

pub fn replay(replay: &J) -> Result<bool, String> {
    let source = replay["source"].as_str().ok_or("replay lacks source")?;
    let oracle = replay["oracle"].as_str().ok_or("replay lacks oracle")?;
    println!("  program: {}", source);
    println!("  oracle:  {}", oracle);
    let mut slot = None;
    let answer = eval_via(&mut slot, &request(source, true))?;
    if let Some(runs) = answer["runs"].as_array() {
        for r in runs {
            println!("  run: {}", r);
        }
    }
    if let Some(sites) = answer["static"]["sites"].as_array() {
        for s in sites {
            println!("  tail-call site: {}", s);
        }
    }
    if answer["status"] != "done" {
        println!("  status: {} {}", answer["status"], answer["msg"]);
    }
    match fails_oracle(&answer, oracle) {
        Some(detail) => {
            println!("  observed vs expected: {}", detail);
            Ok(true)
        }
        None => {
            println!("  oracle {} holds for this program now", oracle);
            Ok(false)
        }
    }
}
