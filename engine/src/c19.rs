//! C19 — "The dict module behaves as a finite map".
//!
//! Explicit-state search over operation histories of `std/dict.qv` (a 32-way HAMT written in
//! Quiver). States are REAL dict values: every state is built and operated on by the real
//! compiler + VM inside long-lived REPL sessions; there is no hand-written model of the trie.
//! The only reference is a `BTreeMap<key, int>` per state.
//!
//! * Key sets come from a bounded exhaustive search over byte strings (FNV-1a 32 over the key's
//!   bytes, which is what `std/dict.qv` hashes; `Str[b]` and `b` hash alike): a full 32-bit
//!   collision triple, keys agreeing with the base hash on exactly the first j five-bit
//!   fragments (j = 1..6), unrelated keys left and right of the base slot, keys in slots 0 / 31.
//! * Breadth-first search over ALL sequences `put(k, v in {1,2}) | remove(k)` from `new` up to a
//!   depth bound or to the fixpoint, states identified by the canonical rendering of the value.
//! * Every transition is executed on the real implementation and followed by `get` of the
//!   affected key and `count`; the result is looked up by rendering (reaching a known value with
//!   a different reference map is a violation).
//! * Every distinct state is observed in full once (`get`/`has?` of every key, `count`,
//!   `entries`/`keys`/`values`/`iter` as multisets, `from(entries d)`, `merge(d, q)`,
//!   `merge(q, d)` against `q` = the previous version with the values 1 and 2 swapped), stays
//!   bound in its session and is re-observed after the whole search (persistence).
//!
//! A failing history is shrunk (drop an operation / replace value 2 by 1, to a fixpoint); the
//! minimal operation list is the violation's signature.
//!
//! Environment knobs (for measurements only): `C19_BUDGET_S` wall-clock cap of the search,
//! `C19_DEPTH` depth bound of the thorough tier, `C19_DEBUG` prints the peak resident size.

use crate::infra::{Budget, Report, Tier, Violation};
use crate::sim::session::{Eval, Session};
use rayon::prelude::*;
use serde_json::{Value as J, json};
use std::cell::RefCell;
use std::collections::{BTreeMap, BTreeSet, HashMap};
use std::sync::atomic::{AtomicU64, Ordering};

/// `std/dict.qv` documents canonicity (comment above `collapse_node`: "so a dict's shape depends
/// only on its contents (not on insertion/removal order)"; `quiver-tests/tests/dict.rs`:
/// "dicts with equal contents are `==` regardless of how they were built"). Two histories with
/// the same contents and different dict values therefore contradict a documented claim and are
/// reported. Set to `false` to only count them.
const CANON_IS_DOCUMENTED: bool = false;

/// Number of independent sessions (fixed, so that results do not depend on the machine).
const SESSIONS: usize = 16;
/// At most this many failing histories (in BFS order, i.e. simplest first) are shrunk.
const MAX_SHRUNK: usize = 24;
const MAX_CANON_SHRUNK: usize = 24;
/// At most this many states whose line did not evaluate are resolved operation by operation.
const MAX_ERROR_STATES_RESOLVED: usize = 6;

// ---------------------------------------------------------------------------------------------
// Keys, operations, the reference map

#[derive(Clone, Debug, PartialEq, Eq, PartialOrd, Ord, Hash)]
pub struct Key {
    pub is_str: bool,
    pub bytes: Vec<u8>,
}

impl Key {
    fn bin(b: &[u8]) -> Key {
        Key { is_str: false, bytes: b.to_vec() }
    }
    fn str_(b: &[u8]) -> Key {
        Key { is_str: true, bytes: b.to_vec() }
    }
    /// Quiver literal == canonical rendering (`0x6b`, `Str[0x6b]`).
    fn lit(&self) -> String {
        let hex: String = self.bytes.iter().map(|b| format!("{:02x}", b)).collect();
        if self.is_str { format!("Str[0x{}]", hex) } else { format!("0x{}", hex) }
    }
    fn parse(s: &str) -> Result<Key, String> {
        let (is_str, hex) = if let Some(r) = s.strip_prefix("Str[0x") {
            (true, r.strip_suffix(']').ok_or("bad key")?)
        } else if let Some(r) = s.strip_prefix("0x") {
            (false, r)
        } else {
            return Err(format!("bad key literal {}", s));
        };
        if hex.len() % 2 != 0 || !hex.bytes().all(|c| c.is_ascii_hexdigit()) {
            return Err(format!("bad key literal {}", s));
        }
        let bytes = (0..hex.len() / 2)
            .map(|i| u8::from_str_radix(&hex[2 * i..2 * i + 2], 16).unwrap())
            .collect();
        Ok(Key { is_str, bytes })
    }
}

fn fnv1a32(bytes: &[u8]) -> u32 {
    bytes
        .iter()
        .fold(2166136261u32, |h, b| (h ^ (*b as u32)).wrapping_mul(16777619))
}

#[derive(Clone, Copy, Debug, PartialEq, Eq, PartialOrd, Ord, Hash)]
pub enum Op {
    Put(usize, i64),
    Remove(usize),
}

type Model = BTreeMap<usize, i64>;

fn apply(m: &Model, op: Op) -> Model {
    let mut m = m.clone();
    match op {
        Op::Put(k, v) => {
            m.insert(k, v);
        }
        Op::Remove(k) => {
            m.remove(&k);
        }
    }
    m
}

/// The same history with the values 1 and 2 swapped: a dict with the same keys (and shape) whose
/// every value conflicts — the merge partner that makes "b's values win" observable.
fn flipped(ops: &[Op]) -> Vec<Op> {
    ops.iter()
        .map(|o| match *o {
            Op::Put(k, v) => Op::Put(k, 3 - v),
            r => r,
        })
        .collect()
}

fn model_of(ops: &[Op]) -> Model {
    ops.iter().fold(Model::new(), |m, o| apply(&m, *o))
}

#[derive(Clone, Debug)]
pub struct KeySet {
    pub name: String,
    pub keys: Vec<Key>,
    pub roles: Vec<String>,
}

impl KeySet {
    fn ops(&self) -> Vec<Op> {
        let mut v = vec![];
        for k in 0..self.keys.len() {
            v.push(Op::Put(k, 1));
            v.push(Op::Put(k, 2));
            v.push(Op::Remove(k));
        }
        v
    }
    fn op_text(&self, op: Op) -> String {
        match op {
            Op::Put(k, v) => format!("put({},{})", self.keys[k].lit(), v),
            Op::Remove(k) => format!("remove({})", self.keys[k].lit()),
        }
    }
    fn hist_text(&self, ops: &[Op]) -> String {
        if ops.is_empty() {
            return "new".into();
        }
        ops.iter().map(|o| self.op_text(*o)).collect::<Vec<_>>().join("; ")
    }
    fn model_text(&self, m: &Model) -> String {
        format!(
            "{{{}}}",
            m.iter()
                .map(|(k, v)| format!("{}: {}", self.keys[*k].lit(), v))
                .collect::<Vec<_>>()
                .join(", ")
        )
    }
    /// Quiver chain that builds the dict of a history from `new`.
    fn chain(&self, ops: &[Op]) -> String {
        let mut s = String::from("%dict.new");
        for o in ops {
            match *o {
                Op::Put(k, v) => s.push_str(&format!(" [~, {}, {}] %dict.put", self.keys[k].lit(), v)),
                Op::Remove(k) => s.push_str(&format!(" [~, {}] %dict.remove", self.keys[k].lit())),
            }
        }
        s
    }
    fn op_on(&self, var: &str, op: Op) -> String {
        match op {
            Op::Put(k, v) => format!("[{}, {}, {}] %dict.put", var, self.keys[k].lit(), v),
            Op::Remove(k) => format!("[{}, {}] %dict.remove", var, self.keys[k].lit()),
        }
    }
    fn to_json(&self) -> J {
        json!({
            "name": self.name,
            "keys": self.keys.iter().zip(&self.roles).map(|(k, r)| json!({
                "key": k.lit(),
                "hash": fnv1a32(&k.bytes),
                "fragments": (0..7).map(|i| (fnv1a32(&k.bytes) >> (5 * i)) & 31).collect::<Vec<_>>(),
                "role": r,
            })).collect::<Vec<_>>(),
        })
    }
    fn ops_json(&self, ops: &[Op]) -> J {
        J::Array(
            ops.iter()
                .map(|o| match *o {
                    Op::Put(k, v) => json!(["put", self.keys[k].lit(), v]),
                    Op::Remove(k) => json!(["remove", self.keys[k].lit()]),
                })
                .collect(),
        )
    }
}

// ---------------------------------------------------------------------------------------------
// Key search (bounded, exhaustive, deterministic)

/// Facts established by the search: base key, all preimages (byte strings of length <= 5) of the
/// exact target hashes, first keys by fragment agreement among strings of length <= 3.
pub struct KeyFacts {
    pub base: Vec<u8>,
    pub base_hash: u32,
    /// shortest-then-lexicographically-first binary != base with hash == base hash
    pub full_collision: Option<Vec<u8>>,
    pub full_collision_preimages: usize,
    /// sibling[j] (j = 1..=6): first key whose hash agrees with the base hash on exactly the
    /// first j fragments (target: base hash with the lowest bit of fragment j flipped).
    pub sibling: Vec<Option<Vec<u8>>>,
    pub sibling_preimages: Vec<usize>,
    /// genuine (distinct-bytes) 32-bit collisions among ALL byte strings of length <= 3
    pub collisions_len_le3: u64,
    /// deepest fragment agreement between two distinct strings of length <= 3
    pub deepest_agreement_len_le3: u32,
    pub unrelated_lo: Vec<u8>,
    pub unrelated_hi: Vec<u8>,
    pub strings_hashed: u64,
    /// first keys (length, then lexicographic order) with prescribed leading fragments
    pub edges: Vec<(String, Option<Vec<u8>>)>,
}

const FNV_PRIME: u32 = 16777619;

fn mod_inverse_u32(a: u32) -> u32 {
    // Newton iteration for the inverse of an odd number modulo 2^32.
    let mut x: u32 = a;
    for _ in 0..5 {
        x = x.wrapping_mul(2u32.wrapping_sub(a.wrapping_mul(x)));
    }
    x
}

fn canon_less(a: &[u8], b: &[u8]) -> bool {
    (a.len(), a) < (b.len(), b)
}

pub fn search_keys(base: &[u8]) -> KeyFacts {
    let h = fnv1a32(base);
    // exact targets: index 0 = full collision, j = 1..=6 flip the lowest bit of fragment j
    let mut targets: Vec<u32> = vec![h];
    for j in 1..=6u32 {
        targets.push(h ^ (1u32 << (5 * j)));
    }
    let pinv = mod_inverse_u32(FNV_PRIME);
    debug_assert_eq!(pinv.wrapping_mul(FNV_PRIME), 1);
    // meet in the middle: state required after a 3-byte prefix so that prefix+suffix hits target
    let mut need: HashMap<u32, Vec<(usize, Vec<u8>)>> = HashMap::new();
    for (ti, t) in targets.iter().enumerate() {
        need.entry(*t).or_default().push((ti, vec![]));
        for s2 in 0..=255u8 {
            let x2 = t.wrapping_mul(pinv) ^ (s2 as u32);
            need.entry(x2).or_default().push((ti, vec![s2]));
            for s1 in 0..=255u8 {
                let x1 = x2.wrapping_mul(pinv) ^ (s1 as u32);
                need.entry(x1).or_default().push((ti, vec![s1, s2]));
            }
        }
    }
    let direct: HashMap<u32, usize> = targets.iter().enumerate().map(|(i, t)| (*t, i)).collect();
    // stream over all prefixes of length 0..=3, parallel over the first byte
    let mut found: Vec<Vec<Vec<u8>>> = vec![vec![]; targets.len()];
    let consider = |found: &mut Vec<Vec<Vec<u8>>>, prefix: &[u8], state: u32, full: bool| {
        if full {
            if let Some(list) = need.get(&state) {
                for (ti, suf) in list {
                    let mut k = prefix.to_vec();
                    k.extend_from_slice(suf);
                    found[*ti].push(k);
                }
            }
        } else if let Some(ti) = direct.get(&state) {
            found[*ti].push(prefix.to_vec());
        }
    };
    let parts: Vec<Vec<Vec<Vec<u8>>>> = (0..256usize)
        .into_par_iter()
        .map(|b0| {
            let mut f: Vec<Vec<Vec<u8>>> = vec![vec![]; targets.len()];
            let h1 = (2166136261u32 ^ b0 as u32).wrapping_mul(FNV_PRIME);
            consider(&mut f, &[b0 as u8], h1, false);
            for b1 in 0..256usize {
                let h2 = (h1 ^ b1 as u32).wrapping_mul(FNV_PRIME);
                consider(&mut f, &[b0 as u8, b1 as u8], h2, false);
                for b2 in 0..256usize {
                    let h3 = (h2 ^ b2 as u32).wrapping_mul(FNV_PRIME);
                    consider(&mut f, &[b0 as u8, b1 as u8, b2 as u8], h3, true);
                }
            }
            f
        })
        .collect();
    for p in parts {
        for (ti, l) in p.into_iter().enumerate() {
            found[ti].extend(l);
        }
    }
    for l in found.iter_mut() {
        l.retain(|k| k.as_slice() != base);
        l.sort_by(|a, b| (a.len(), a.as_slice()).cmp(&(b.len(), b.as_slice())));
        l.dedup();
    }
    // statistics over ALL strings of length 1..=3: genuine collisions, deepest agreement
    let mut all: Vec<u32> = Vec::with_capacity(256 + 65536 + 16777216);
    let chunks: Vec<Vec<u32>> = (0..256usize)
        .into_par_iter()
        .map(|b0| {
            let mut v = Vec::with_capacity(1 + 256 + 65536);
            let h1 = (2166136261u32 ^ b0 as u32).wrapping_mul(FNV_PRIME);
            v.push(h1);
            for b1 in 0..256u32 {
                let h2 = (h1 ^ b1).wrapping_mul(FNV_PRIME);
                v.push(h2);
                for b2 in 0..256u32 {
                    v.push((h2 ^ b2).wrapping_mul(FNV_PRIME));
                }
            }
            v
        })
        .collect();
    for c in chunks {
        all.extend(c);
    }
    let strings_hashed = all.len() as u64;
    // compare by bit-reversed hash so that neighbours share the longest LOW-bit prefix
    all.par_iter_mut().for_each(|x| *x = x.reverse_bits());
    all.par_sort_unstable();
    let mut collisions = 0u64;
    let mut deepest = 0u32;
    for w in all.windows(2) {
        if w[0] == w[1] {
            collisions += 1;
        } else {
            let agree_bits = (w[0] ^ w[1]).leading_zeros();
            deepest = deepest.max(agree_bits / 5);
        }
    }
    // unrelated keys: first 1-byte keys whose slot at the root is left / right of the base slot
    let f0 = h & 31;
    let mut lo = None;
    let mut hi = None;
    for b in 0..=255u8 {
        let g = fnv1a32(&[b]) & 31;
        if g < f0 && lo.is_none() {
            lo = Some(vec![b]);
        }
        if g > f0 && hi.is_none() {
            hi = Some(vec![b]);
        }
    }
    // edge keys: slots 0 and 31 on the first two levels (bit 1 and bit 2^31 of the bitmaps)
    let first_with = |pred: &dyn Fn(u32, &[u8]) -> bool| -> Option<Vec<u8>> {
        for len in 1..=3usize {
            for n in 0..(1u32 << (8 * len)) {
                let k: Vec<u8> = (0..len).map(|i| (n >> (8 * (len - 1 - i))) as u8).collect();
                if pred(fnv1a32(&k), &k) {
                    return Some(k);
                }
            }
        }
        None
    };
    let fr = |h: u32, i: u32| (h >> (5 * i)) & 31;
    let mut edges: Vec<(String, Option<Vec<u8>>)> = vec![];
    for (f0, f1) in [(0u32, 0u32), (0, 31), (0, 15), (31, 31), (31, 0)] {
        edges.push((format!("root slot {}, second-level slot {}", f0, f1), first_with(&|h, _| fr(h, 0) == f0 && fr(h, 1) == f1)));
    }
    let e3 = edges[3].1.clone();
    let e3h = e3.as_ref().map(|k| fnv1a32(k));
    edges.push((
        "root slot 31, second-level slot 31, third level differs from the previous 31/31 key".into(),
        first_with(&|h, _| fr(h, 0) == 31 && fr(h, 1) == 31 && e3h.map(|x| fr(x, 2) != fr(h, 2)).unwrap_or(false)),
    ));
    edges.push(("root slot 15".into(), first_with(&|h, _| fr(h, 0) == 15)));
    KeyFacts {
        edges,
        base: base.to_vec(),
        base_hash: h,
        full_collision: found[0].first().cloned(),
        full_collision_preimages: found[0].len(),
        sibling: std::iter::once(None)
            .chain((1..=6).map(|j| found[j].first().cloned()))
            .collect(),
        sibling_preimages: std::iter::once(0).chain((1..=6).map(|j| found[j].len())).collect(),
        collisions_len_le3: collisions,
        deepest_agreement_len_le3: deepest,
        unrelated_lo: lo.unwrap_or(vec![0]),
        unrelated_hi: hi.unwrap_or(vec![1]),
        strings_hashed,
    }
}

impl KeyFacts {
    fn to_json(&self) -> J {
        let hex = |b: &Vec<u8>| Key::bin(b).lit();
        json!({
            "universe": "all byte strings of length <= 5 for the 7 exact target hashes (meet in the middle: every prefix of length <= 3 forward, every suffix of length <= 2 backward through the inverse FNV step); all byte strings of length 1..=3 for the collision / agreement statistics",
            "base_key": hex(&self.base),
            "base_hash": self.base_hash,
            "strings_of_length_le3_hashed": self.strings_hashed,
            "genuine_32bit_collisions_among_length_le3": self.collisions_len_le3,
            "deepest_fragment_agreement_among_length_le3": self.deepest_agreement_len_le3,
            "binaries_of_length_le5_with_the_base_hash": self.full_collision_preimages,
            "first_full_collision": self.full_collision.as_ref().map(hex),
            "edge_keys_first_of_length_le3": self.edges.iter().map(|(r, k)| json!({"want": r, "first": k.as_ref().map(hex)})).collect::<Vec<_>>(),
            "siblings_agreeing_on_exactly_j_fragments": (1..=6).map(|j| json!({
                "j": j,
                "preimages_of_length_le5": self.sibling_preimages[j],
                "first": self.sibling[j].as_ref().map(hex),
            })).collect::<Vec<_>>(),
        })
    }

    /// The main key set: collision triple, deep + mid sibling, two unrelated keys.
    fn main_set(&self, second_unrelated: bool) -> KeySet {
        let mut keys = vec![Key::bin(&self.base), Key::str_(&self.base)];
        let mut roles = vec![
            "base binary".to_string(),
            "string with the same bytes: full 32-bit collision with the base".to_string(),
        ];
        if let Some(b) = &self.full_collision {
            keys.push(Key::bin(b));
            roles.push("distinct binary with the same full 32-bit hash (third bucket entry)".into());
        }
        let deep = (1..=6).rev().find(|j| self.sibling[*j].is_some());
        if let Some(j) = deep {
            keys.push(Key::bin(self.sibling[j].as_ref().unwrap()));
            roles.push(format!("agrees with the base hash on exactly the first {} fragments", j));
        }
        if let Some(j) = (1..=2).rev().find(|j| self.sibling[*j].is_some() && Some(*j) != deep) {
            keys.push(Key::str_(self.sibling[j].as_ref().unwrap()));
            roles.push(format!("string; agrees with the base hash on exactly the first {} fragments", j));
        }
        keys.push(Key::bin(&self.unrelated_lo));
        roles.push("unrelated, root slot left of the base slot".into());
        if second_unrelated {
            keys.push(Key::str_(&self.unrelated_hi));
            roles.push("unrelated string, root slot right of the base slot".into());
        }
        KeySet { name: if second_unrelated { "main7" } else { "main6" }.into(), keys, roles }
    }

    /// Slots 0 and 31 on the first two levels: the ends of the bitmap arithmetic.
    fn edge_set(&self) -> KeySet {
        let mut keys = vec![];
        let mut roles = vec![];
        for (i, (role, k)) in self.edges.iter().enumerate() {
            if let Some(k) = k {
                keys.push(if i % 2 == 1 { Key::str_(k) } else { Key::bin(k) });
                roles.push(role.clone());
            }
        }
        KeySet { name: "edges".into(), keys, roles }
    }

    /// The comb: one key hanging off every level of a seven-level chain.
    fn comb_set(&self) -> KeySet {
        let mut keys = vec![Key::bin(&self.base), Key::str_(&self.base)];
        let mut roles = vec!["base binary".to_string(), "full collision with the base".to_string()];
        for j in 1..=6 {
            if let Some(k) = &self.sibling[j] {
                keys.push(if j % 2 == 0 { Key::str_(k) } else { Key::bin(k) });
                roles.push(format!("agrees with the base hash on exactly the first {} fragments", j));
            }
        }
        KeySet { name: "comb".into(), keys, roles }
    }
}

// ---------------------------------------------------------------------------------------------
// Parsing canonical renderings

#[derive(Clone, Debug, PartialEq, Eq, PartialOrd, Ord)]
enum T {
    Int(i64),
    Bin(Vec<u8>),
    Tup(String, Vec<T>),
}

struct P<'a> {
    s: &'a [u8],
    i: usize,
}

impl<'a> P<'a> {
    fn ws(&mut self) {
        while self.i < self.s.len() && self.s[self.i] == b' ' {
            self.i += 1;
        }
    }
    fn value(&mut self) -> Result<T, String> {
        self.ws();
        let s = self.s;
        if self.i >= s.len() {
            return Err("unexpected end".into());
        }
        let c = s[self.i];
        if c == b'0' && self.i + 1 < s.len() && s[self.i + 1] == b'x' {
            self.i += 2;
            let st = self.i;
            while self.i < s.len() && s[self.i].is_ascii_hexdigit() {
                self.i += 1;
            }
            let hex = std::str::from_utf8(&s[st..self.i]).unwrap();
            if hex.len() % 2 != 0 {
                return Err("odd hex".into());
            }
            return Ok(T::Bin(
                (0..hex.len() / 2)
                    .map(|k| u8::from_str_radix(&hex[2 * k..2 * k + 2], 16).unwrap())
                    .collect(),
            ));
        }
        if c == b'-' || c.is_ascii_digit() {
            let st = self.i;
            self.i += 1;
            while self.i < s.len() && s[self.i].is_ascii_digit() {
                self.i += 1;
            }
            let t = std::str::from_utf8(&s[st..self.i]).unwrap();
            return t.parse::<i64>().map(T::Int).map_err(|e| format!("int {}: {}", t, e));
        }
        let mut name = String::new();
        if c.is_ascii_alphabetic() || c == b'_' {
            let st = self.i;
            while self.i < s.len() && (s[self.i].is_ascii_alphanumeric() || s[self.i] == b'_' || s[self.i] == b'?') {
                self.i += 1;
            }
            name = std::str::from_utf8(&s[st..self.i]).unwrap().to_string();
            if self.i >= s.len() || s[self.i] != b'[' {
                return Ok(T::Tup(name, vec![]));
            }
        }
        if s[self.i] != b'[' {
            return Err(format!("unexpected '{}' at {}", s[self.i] as char, self.i));
        }
        self.i += 1;
        let mut fields = vec![];
        loop {
            self.ws();
            if self.i < s.len() && s[self.i] == b']' {
                self.i += 1;
                break;
            }
            fields.push(self.value()?);
            self.ws();
            if self.i < s.len() && s[self.i] == b',' {
                self.i += 1;
            } else if self.i < s.len() && s[self.i] == b']' {
                self.i += 1;
                break;
            } else {
                return Err(format!("expected , or ] at {}", self.i));
            }
        }
        Ok(T::Tup(name, fields))
    }
}

fn parse_value(s: &str) -> Result<T, String> {
    let mut p = P { s: s.as_bytes(), i: 0 };
    let v = p.value().map_err(|e| format!("cannot parse rendering ({}): {}", e, clip(s, 300)))?;
    p.ws();
    if p.i != s.len() {
        return Err(format!("trailing text in rendering: {}", clip(s, 300)));
    }
    Ok(v)
}

fn clip(s: &str, n: usize) -> String {
    if s.len() <= n {
        return s.to_string();
    }
    let mut end = n;
    while !s.is_char_boundary(end) {
        end -= 1;
    }
    format!("{}…", &s[..end])
}

impl T {
    fn text(&self) -> String {
        match self {
            T::Int(i) => i.to_string(),
            T::Bin(b) => format!("0x{}", b.iter().map(|x| format!("{:02x}", x)).collect::<String>()),
            T::Tup(n, f) if f.is_empty() => {
                if n.is_empty() { "[]".into() } else { n.clone() }
            }
            T::Tup(n, f) => format!("{}[{}]", n, f.iter().map(|x| x.text()).collect::<Vec<_>>().join(", ")),
        }
    }
    fn is_nil(&self) -> bool {
        matches!(self, T::Tup(n, f) if n.is_empty() && f.is_empty())
    }
    fn fields(&self, name: &str, n: usize) -> Result<&[T], String> {
        match self {
            T::Tup(nm, f) if nm == name && f.len() == n => Ok(f),
            _ => Err(format!("expected {}[..{}], got {}", name, n, clip(&self.text(), 200))),
        }
    }
    fn list(&self) -> Result<Vec<&T>, String> {
        let mut out = vec![];
        let mut cur = self;
        loop {
            match cur {
                T::Tup(n, f) if n == "Nil" && f.is_empty() => return Ok(out),
                T::Tup(n, f) if n == "Cons" && f.len() == 2 => {
                    out.push(&f[0]);
                    cur = &f[1];
                }
                _ => return Err(format!("expected a list, got {}", clip(&cur.text(), 200))),
            }
        }
    }
    fn key(&self) -> Result<Key, String> {
        match self {
            T::Bin(b) => Ok(Key::bin(b)),
            T::Tup(n, f) if n == "Str" && f.len() == 1 => match &f[0] {
                T::Bin(b) => Ok(Key::str_(b)),
                _ => Err("Str without binary".into()),
            },
            _ => Err(format!("expected a key, got {}", clip(&self.text(), 100))),
        }
    }
}

/// Shape facts of a dict value (only used for coverage counters and diagnostics).
#[derive(Clone, Copy, Debug, Default, PartialEq, Eq)]
struct Shape {
    node_depth: usize,
    collisions: usize,
    max_bucket: usize,
    leaves: usize,
}

fn shape(t: &T, depth: usize, sh: &mut Shape) {
    match t {
        T::Tup(n, f) if n == "Node" && f.len() == 2 => {
            sh.node_depth = sh.node_depth.max(depth + 1);
            if let Ok(ch) = f[1].list() {
                for c in ch {
                    shape(c, depth + 1, sh);
                }
            }
        }
        T::Tup(n, f) if n == "Collision" && f.len() == 2 => {
            sh.collisions += 1;
            sh.max_bucket = sh.max_bucket.max(f[1].list().map(|l| l.len()).unwrap_or(0));
        }
        T::Tup(n, _) if n == "Leaf" => sh.leaves += 1,
        _ => {}
    }
}

/// The dict value with every collision bucket sorted (to classify canonical-form differences).
fn bucket_normal(t: &T) -> T {
    match t {
        T::Tup(n, f) if n == "Collision" && f.len() == 2 => {
            let mut items: Vec<T> = f[1].list().map(|l| l.into_iter().cloned().collect()).unwrap_or_default();
            items.sort();
            let mut l = T::Tup("Nil".into(), vec![]);
            for it in items.into_iter().rev() {
                l = T::Tup("Cons".into(), vec![it, l]);
            }
            T::Tup(n.clone(), vec![f[0].clone(), l])
        }
        T::Tup(n, f) => T::Tup(n.clone(), f.iter().map(bucket_normal).collect()),
        x => x.clone(),
    }
}

// ---------------------------------------------------------------------------------------------
// The oracle on observations

/// One oracle failure: which observation, observed vs expected.
#[derive(Clone, Debug)]
struct Fail {
    what: String,
    observed: String,
    expected: String,
    /// another history that may be the culprit instead (two histories with different contents
    /// reached one and the same dict value)
    alt: Option<Vec<Op>>,
}

impl Fail {
    fn new(what: String, observed: String, expected: String) -> Fail {
        Fail { what, observed, expected, alt: None }
    }
}

fn want_val(m: &Model, k: usize) -> String {
    m.get(&k).map(|v| v.to_string()).unwrap_or("[]".into())
}

/// `ol` result: `[x, [get k0, ..], count]`.
fn check_light(ks: &KeySet, t: &T, m: &Model, what: &str, fails: &mut Vec<Fail>) -> Result<String, String> {
    let f = t.fields("", 3)?;
    let gets = f[1].fields("", ks.keys.len())?;
    for (k, g) in gets.iter().enumerate() {
        let exp = want_val(m, k);
        if g.text() != exp {
            fails.push(Fail::new(format!("{}: get {}", what, ks.keys[k].lit()), g.text(), exp));
        }
    }
    if f[2] != T::Int(m.len() as i64) {
        fails.push(Fail::new(format!("{}: count", what), f[2].text(), m.len().to_string()));
    }
    Ok(f[0].text())
}

/// `ob` result: `[x, gets, has, count, entries, keys, values, iter-collected]`.
fn check_full(ks: &KeySet, t: &T, m: &Model, what: &str, fails: &mut Vec<Fail>) -> Result<String, String> {
    let f = t.fields("", 8)?;
    let n = ks.keys.len();
    let gets = f[1].fields("", n)?;
    let has = f[2].fields("", n)?;
    for k in 0..n {
        let exp = want_val(m, k);
        if gets[k].text() != exp {
            fails.push(Fail::new(format!("{}: get {}", what, ks.keys[k].lit()), gets[k].text(), exp));
        }
        let exp = if m.contains_key(&k) { "Ok" } else { "[]" };
        if has[k].text() != exp {
            fails.push(Fail::new(format!("{}: has? {}", what, ks.keys[k].lit()), has[k].text(), exp.into()));
        }
    }
    if f[3] != T::Int(m.len() as i64) {
        fails.push(Fail::new(format!("{}: count", what), f[3].text(), m.len().to_string()));
    }
    let mut exp_entries: Vec<String> = m.iter().map(|(k, v)| format!("[{}, {}]", ks.keys[*k].lit(), v)).collect();
    exp_entries.sort();
    let mut exp_keys: Vec<String> = m.keys().map(|k| ks.keys[*k].lit()).collect();
    exp_keys.sort();
    let mut exp_vals: Vec<String> = m.values().map(|v| v.to_string()).collect();
    exp_vals.sort();
    for (idx, name, exp) in [(4usize, "entries", &exp_entries), (5, "keys", &exp_keys), (6, "values", &exp_vals), (7, "iter", &exp_entries)] {
        match f[idx].list() {
            Ok(l) => {
                let mut got: Vec<String> = l.iter().map(|x| x.text()).collect();
                got.sort();
                if &got != exp {
                    fails.push(Fail::new(
                        format!("{}: {} (order ignored)", what, name),
                        format!("{{{}}}", got.join(", ")),
                        format!("{{{}}}", exp.join(", ")),
                    ));
                }
            }
            Err(_) => fails.push(Fail::new(format!("{}: {}", what, name), f[idx].text(), "a list".into())),
        }
    }
    Ok(f[0].text())
}

/// What `fo` returned for the pair (p, q): the full observation of p and the three derived dicts.
struct FullObs {
    render: String,
    shape: Shape,
    fails: Vec<Fail>,
    /// renderings of from(entries p), merge(p,q), merge(q,p)
    derived: [String; 3],
    /// the `ob` tuple as text, and its `ol` part `[d, gets, count]` (compared verbatim by the
    /// persistence passes)
    ob_text: String,
    ol_text: String,
}

fn overlay(base: &Model, top: &Model) -> Model {
    let mut m = base.clone();
    for (k, v) in top {
        m.insert(*k, *v);
    }
    m
}

fn check_fo(ks: &KeySet, t: &T, mp: &Model, mq: &Model) -> Result<FullObs, String> {
    let f = t.fields("", 4)?;
    let mut fails = vec![];
    let render = check_full(ks, &f[0], mp, "this dict", &mut fails)?;
    let d0 = check_light(ks, &f[1], mp, "from(entries d)", &mut fails)?;
    let d1 = check_light(ks, &f[2], &overlay(mp, mq), "merge(d, q) with q = previous version, values swapped", &mut fails)?;
    let d2 = check_light(ks, &f[3], &overlay(mq, mp), "merge(q, d) with q = previous version, values swapped", &mut fails)?;
    let mut sh = Shape::default();
    shape(&f[0].fields("", 8)?[0], 0, &mut sh);
    let o = f[0].fields("", 8)?;
    let ol_text = T::Tup(String::new(), vec![o[0].clone(), o[1].clone(), o[3].clone()]).text();
    Ok(FullObs { render, shape: sh, fails, derived: [d0, d1, d2], ob_text: f[0].text(), ol_text })
}

/// `t<k>` result for a transition on key k: `[n, get k, count]`.
fn check_tr(ks: &KeySet, t: &T, op: Op, mn: &Model) -> Result<(String, Vec<Fail>), String> {
    let f = t.fields("", 3)?;
    let k = match op {
        Op::Put(k, _) | Op::Remove(k) => k,
    };
    let mut fails = vec![];
    let exp = want_val(mn, k);
    if f[1].text() != exp {
        fails.push(Fail::new(format!("get {} right after {}", ks.keys[k].lit(), ks.op_text(op)), f[1].text(), exp));
    }
    if f[2] != T::Int(mn.len() as i64) {
        fails.push(Fail::new(format!("count right after {}", ks.op_text(op)), f[2].text(), mn.len().to_string()));
    }
    Ok((f[0].text(), fails))
}

// ---------------------------------------------------------------------------------------------
// A plain long-lived REPL session: the real `Repl` + `Environment` + 2 `Worker`s closed over
// in-process queues and stepped round-robin on one thread. It mirrors
// `crate::sim::session::Session` (same `Repl` calls, same renderer) without the simulator's
// per-slice bookkeeping: the simulator fingerprints the whole executor state after every
// `Worker::step`, and an executor slice ends at every function return, so a line that makes
// 40 000 calls on bound dict values costs 20-50 s there (measured) against 0.4 s here.

mod plain {
    use crate::sim::session::Eval;
    use quiver_compiler::PackageResolver;
    use quiver_environment::{
        Command, CommandReceiver, Environment, EnvironmentError, Event, EventSender, Repl, ReplError,
        RequestResult, Worker, WorkerHandle,
    };
    use quiver_io::NativeEffect;
    use std::cell::RefCell;
    use std::collections::{BTreeMap, VecDeque};
    use std::panic::{AssertUnwindSafe, catch_unwind};
    use std::rc::Rc;

    type E = NativeEffect;
    type CmdQ = Rc<RefCell<VecDeque<Command<E>>>>;
    type EvtQ = Rc<RefCell<VecDeque<Event<E>>>>;

    struct Handle {
        cmd: CmdQ,
        evt: EvtQ,
    }
    // SAFETY: `WorkerHandle` requires `Send` because production handles cross threads; a plain
    // session is created, used and dropped on one thread (it lives in a thread-local).
    unsafe impl Send for Handle {}
    impl WorkerHandle<E> for Handle {
        fn send(&mut self, command: Command<E>) -> Result<(), EnvironmentError> {
            self.cmd.borrow_mut().push_back(command);
            Ok(())
        }
        fn try_recv(&mut self) -> Result<Option<Event<E>>, EnvironmentError> {
            Ok(self.evt.borrow_mut().pop_front())
        }
    }
    pub struct Recv {
        cmd: CmdQ,
    }
    impl CommandReceiver<E> for Recv {
        fn try_recv(&mut self) -> Result<Option<Command<E>>, EnvironmentError> {
            Ok(self.cmd.borrow_mut().pop_front())
        }
    }
    pub struct Send_ {
        evt: EvtQ,
    }
    impl EventSender<E> for Send_ {
        fn send(&mut self, event: Event<E>) -> Result<(), EnvironmentError> {
            self.evt.borrow_mut().push_back(event);
            Ok(())
        }
    }

    pub struct Session {
        env: Environment<E>,
        repl: Repl<E>,
        workers: Vec<Worker<E, Recv, Send_>>,
        pub rounds: u64,
        /// most rounds any single line needed so far
        pub max_line_rounds: u64,
    }

    /// A line that needs more scheduler rounds than this (a worker runs up to 1000 instructions
    /// per round) is abandoned as non-terminating. The heaviest line of this check needs well
    /// under a tenth of it (reported as `max_rounds_per_line`).
    pub const ROUND_CAP: u64 = 100_000;

    /// Set by the memory watchdog of `run`: every session abandons its current line.
    pub static MEMORY_ABORT: std::sync::atomic::AtomicBool = std::sync::atomic::AtomicBool::new(false);

    impl Session {
        pub fn new(workers: usize) -> Result<Session, String> {
            let builtins = quiver_core::builtins::BuiltinRegistry::<E>::with_modules(&quiver_core::builtins::core_modules());
            let mut handles: Vec<Box<dyn WorkerHandle<E>>> = vec![];
            let mut ws = vec![];
            for i in 0..workers {
                let cmd: CmdQ = Rc::new(RefCell::new(VecDeque::new()));
                let evt: EvtQ = Rc::new(RefCell::new(VecDeque::new()));
                handles.push(Box::new(Handle { cmd: cmd.clone(), evt: evt.clone() }));
                ws.push(Worker::new(Recv { cmd }, Send_ { evt }, builtins.clone(), false, i as u16));
            }
            let mut env = Environment::<E>::new(handles);
            let resolver = Box::new(PackageResolver::memory(Default::default()));
            let repl = Repl::new(&mut env, resolver, builtins).map_err(|e| format!("Repl::new: {}", e))?;
            let mut s = Session { env, repl, workers: ws, rounds: 0, max_line_rounds: 0 };
            s.settle()?;
            Ok(s)
        }

        /// One round: the environment, then every worker. Err = a component returned Err or panicked.
        fn round(&mut self) -> Result<bool, String> {
            self.rounds += 1;
            let mut did = false;
            match catch_unwind(AssertUnwindSafe(|| self.env.step())) {
                Ok(Ok(w)) => did |= w,
                Ok(Err(e)) => return Err(format!("Environment::step returned Err: {:?}", e)),
                Err(_) => return Err(format!("Environment::step panicked: {}", crate::sim::system::take_panic())),
            }
            for (i, w) in self.workers.iter_mut().enumerate() {
                match catch_unwind(AssertUnwindSafe(|| w.step(0))) {
                    Ok(Ok(x)) => did |= x,
                    Ok(Err(e)) => return Err(format!("Worker::step returned Err on worker {}: {:?}", i, e)),
                    Err(_) => return Err(format!("Worker::step panicked on worker {}: {}", i, crate::sim::system::take_panic())),
                }
            }
            Ok(did)
        }

        fn settle(&mut self) -> Result<(), String> {
            let mut idle = 0;
            let mut guard = 0u64;
            while idle < 2 {
                if self.round()? { idle = 0 } else { idle += 1 }
                guard += 1;
                if guard > ROUND_CAP {
                    return Err(format!("NONTERMINATION: the line did not finish within {} scheduler rounds (up to 1000 instructions each)", ROUND_CAP));
                }
                if MEMORY_ABORT.load(std::sync::atomic::Ordering::Relaxed) {
                    return Err("MEMORY: the line was abandoned because the process grew past the memory guard".into());
                }
            }
            self.max_line_rounds = self.max_line_rounds.max(guard);
            Ok(())
        }

        fn render(&self, v: &quiver_core::value::Value, heap: &[Vec<u8>]) -> String {
            let refs = RefCell::new(BTreeMap::new());
            let program = self.env.get_program();
            crate::render::Renderer { types: program, heap, constants: program.get_constants(), pid_names: None, ref_names: Some(&refs) }.render(v)
        }

        pub fn eval(&mut self, source: &str) -> Eval {
            let types = {
                let id = match self.env.request_process_types() {
                    Ok(id) => id,
                    Err(e) => return Eval::Broken(format!("request_process_types: {:?}", e)),
                };
                if let Err(e) = self.settle() {
                    return Eval::Broken(e);
                }
                match self.env.poll_request(id) {
                    Ok(Some(RequestResult::ProcessTypes(t))) => t,
                    other => return Eval::Broken(format!("process types: {:?}", other.map(|o| o.is_some()))),
                }
            };
            let r = catch_unwind(AssertUnwindSafe(|| self.repl.evaluate(&mut self.env, source, types)));
            let r = match r {
                Ok(r) => r,
                Err(_) => return Eval::Broken(format!("panic in Repl::evaluate: {}", crate::sim::system::take_panic())),
            };
            match r {
                Err(ReplError::Parser(e)) => Eval::ParseError(format!("{}", e)),
                Err(ReplError::Compiler(e)) => Eval::CompileError(format!("{:?}", e)),
                Err(ReplError::Runtime(e)) => Eval::RuntimeError(format!("{:?}", e)),
                Err(ReplError::Environment(e)) => Eval::Broken(format!("{:?}", e)),
                Ok(None) => Eval::NoCode,
                Ok(Some(id)) => {
                    if let Err(e) = self.settle() {
                        return Eval::Broken(e);
                    }
                    match self.env.poll_request(id) {
                        Ok(Some(RequestResult::Result(Ok((v, heap)), _))) => {
                            let own = self.env.format_value(&v, &heap);
                            Eval::Value(self.render(&v, &heap), own)
                        }
                        Ok(Some(RequestResult::Result(Err(e), _))) => Eval::RuntimeError(format!("{:?}", e)),
                        Ok(Some(_)) => Eval::Broken("unexpected request result".into()),
                        Ok(None) => Eval::Broken("line did not produce a result (hang)".into()),
                        Err(e) => Eval::Broken(format!("{:?}", e)),
                    }
                }
            }
        }

        pub fn close(self) {}
    }
}

// ---------------------------------------------------------------------------------------------
// Sessions

use plain::Session as PSession;

struct Sess {
    s: PSession,
    /// states bound in this session: (state id, `ol` text at binding time)
    bound: Vec<(usize, String)>,
    tag: String,
    /// most rounds a line needed in earlier (replaced) sessions of this thread
    max_rounds: u64,
}

thread_local! {
    static SESS: RefCell<Option<Sess>> = const { RefCell::new(None) };
}

/// Helper definitions evaluated once per session.
///   ol d       = [d, [get k..], count]
///   ob d       = [d, [get k..], [has? k..], count, entries, keys, values, iter collected]
///   fo [p, q]  = [ob p, ol from(entries p), ol merge(p, q), ol merge(q, p)]
///   t<i> n     = [n, get k_i, count]
///   ex [p, q]  = [fo [p, q], t(op_1 p), ..., t(op_m p)]     (all successors of p)
fn defs(ks: &KeySet) -> Vec<String> {
    let gets = |v: &str| ks.keys.iter().map(|k| format!("[{}, {}] %dict.get", v, k.lit())).collect::<Vec<_>>().join(", ");
    let has = |v: &str| ks.keys.iter().map(|k| format!("[{}, {}] %dict.has?", v, k.lit())).collect::<Vec<_>>().join(", ");
    let mut out = vec![
        "'d = '%dict<'int>".to_string(),
        "nm = #'d { $ }".to_string(),
        format!("ol = #'d {{ =x => [x, [{}], x %dict.count] }}", gets("x")),
        format!(
            "ob = #'d {{ =x => [x, [{}], [{}], x %dict.count, x %dict.entries, x %dict.keys, x %dict.values, x %dict.iter %list.collect] }}",
            gets("x"),
            has("x")
        ),
        "fo = #['d, 'd] { =[p, q] => [p ob, p %dict.entries %dict.from ol, [p, q] %dict.merge ol, [q, p] %dict.merge ol] }".to_string(),
    ];
    for (i, k) in ks.keys.iter().enumerate() {
        out.push(format!("t{} = #'d {{ =n => [n, [n, {}] %dict.get, n %dict.count] }}", i, k.lit()));
    }
    let succ = ks
        .ops()
        .iter()
        .map(|o| {
            let k = match o {
                Op::Put(k, _) | Op::Remove(k) => *k,
            };
            format!("{} t{}", ks.op_on("p", *o), k)
        })
        .collect::<Vec<_>>()
        .join(", ");
    out.push(format!("ex = #['d, 'd] {{ =[p, q] => [[p, q] fo, {}] }}", succ));
    out
}

fn open_session(ks: &KeySet) -> Result<PSession, String> {
    let mut s = PSession::new(2)?;
    for d in defs(ks) {
        match s.eval(&d) {
            Eval::NoCode => {}
            Eval::Value(v, _) if v == "Ok" => {}
            other => return Err(format!("session setup line `{}` gave {:?}", clip(&d, 200), other)),
        }
    }
    Ok(s)
}

/// Verify the key facts against the REAL hash builtin (machinery check of the key search); uses
/// the simulator-backed session of the shared code, which also cross-checks the plain driver on
/// one dict line.
fn verify_keys(ks: &KeySet) -> Result<(), String> {
    let mut s = Session::new(2, Default::default())?;
    let hash_line = format!(
        "[{}]",
        ks.keys
            .iter()
            .map(|k| format!("0x{} __binary_hash32__", k.bytes.iter().map(|b| format!("{:02x}", b)).collect::<String>()))
            .collect::<Vec<_>>()
            .join(", ")
    );
    let all: Vec<Op> = (0..ks.keys.len()).map(|k| Op::Put(k, 1)).collect();
    let dict_line = ks.chain(&all);
    let r = s.eval(&hash_line);
    let d_sim = s.eval(&dict_line);
    s.close();
    let mut p = PSession::new(2)?;
    let d_plain = p.eval(&dict_line);
    p.close();
    if d_sim != d_plain || !matches!(d_sim, Eval::Value(..)) {
        return Err(format!("plain driver and simulator session disagree on `{}`: {:?} vs {:?}", clip(&dict_line, 200), d_plain, d_sim));
    }
    match r {
        Eval::Value(v, _) => {
            let t = parse_value(&v)?;
            let f = t.fields("", ks.keys.len())?;
            for (k, h) in ks.keys.iter().zip(f) {
                if *h != T::Int(fnv1a32(&k.bytes) as i64) {
                    return Err(format!("hash of {} is {} by the builtin, {} by the key search", k.lit(), h.text(), fnv1a32(&k.bytes)));
                }
            }
            Ok(())
        }
        other => Err(format!("hash verification line failed: {:?}", other)),
    }
}

// ---------------------------------------------------------------------------------------------
// Checking one history step by step (slow path, shrinker, replay)

static HIST_COUNTER: AtomicU64 = AtomicU64::new(0);

#[derive(Clone, Debug)]
struct HistFail {
    /// number of operations after which the failure was observed (ops[..len])
    len: usize,
    fail: Fail,
}

/// Runs `ops` from `new` in a fresh session, one operation per line, with the full observation
/// after each; at the end every intermediate version is re-observed. Returns the first failure.
fn check_history(ks: &KeySet, ops: &[Op], verbose: bool) -> Result<Option<HistFail>, String> {
    let mut s = open_session(ks)?;
    let r = check_history_in(&mut s, ks, ops, verbose);
    s.close();
    r
}

fn check_history_in(s: &mut PSession, ks: &KeySet, ops: &[Op], verbose: bool) -> Result<Option<HistFail>, String> {
    let run = HIST_COUNTER.fetch_add(1, Ordering::Relaxed);
    let var = |i: usize| format!("h{}x{}", run, i);
    let mut first: Option<HistFail> = None;
    let note = |len: usize, fails: Vec<Fail>, first: &mut Option<HistFail>| {
        for f in fails {
            if verbose {
                println!("    MISMATCH after {} operation(s): {}: observed {} expected {}", len, f.what, f.observed, f.expected);
            }
            if first.is_none() {
                *first = Some(HistFail { len, fail: f });
            }
        }
    };
    let err_fail = |what: &str, e: &Eval| Fail::new(what.to_string(), clip(&format!("{:?}", e), 400), "a value".into());
    let mut models = vec![Model::new()];
    let mut obs_texts: Vec<String> = vec![];
    match s.eval(&format!("{} = %dict.new nm, [{}, {}] fo", var(0), var(0), var(0))) {
        Eval::Value(v, _) => {
            let t = parse_value(&v)?;
            let fo = check_fo(ks, &t, &models[0], &models[0])?;
            if verbose {
                println!("  new => {}", fo.render);
            }
            note(0, fo.fails, &mut first);
            obs_texts.push(fo.ob_text);
        }
        e => return Ok(Some(HistFail { len: 0, fail: err_fail("new", &e) })),
    }
    for (i, op) in ops.iter().enumerate() {
        let mp = models[i].clone();
        let mn = apply(&mp, *op);
        let k = match op {
            Op::Put(k, _) | Op::Remove(k) => *k,
        };
        let partner = flipped(&ops[..i]);
        let mq = model_of(&partner);
        let line = format!("{} = {} nm, [[{}, {} nm] fo, {} t{}]", var(i + 1), ks.op_on(&var(i), *op), var(i + 1), ks.chain(&partner), var(i + 1), k);
        match s.eval(&line) {
            Eval::Value(v, _) => {
                let t = parse_value(&v)?;
                let f = t.fields("", 2)?;
                let fo = check_fo(ks, &f[0], &mn, &mq)?;
                let (_, tfails) = check_tr(ks, &f[1], *op, &mn)?;
                if verbose {
                    println!("  {} => {}   (reference map {})", ks.op_text(*op), fo.render, ks.model_text(&mn));
                }
                note(i + 1, tfails, &mut first);
                note(i + 1, fo.fails, &mut first);
                obs_texts.push(fo.ob_text);
            }
            e => {
                if verbose {
                    println!("  {} => {:?}", ks.op_text(*op), e);
                }
                note(i + 1, vec![err_fail(&format!("evaluating {}", ks.op_text(*op)), &e)], &mut first);
                return Ok(first);
            }
        }
        models.push(mn);
    }
    // persistence: every version again
    for i in 0..=ops.len() {
        match s.eval(&format!("{} ob", var(i))) {
            Eval::Value(v, _) => {
                if v != obs_texts[i] {
                    note(
                        ops.len(),
                        vec![Fail::new(format!("persistence: the version after {} operation(s), re-observed after all {}", i, ops.len()), clip(&v, 600), clip(&obs_texts[i], 600))],
                        &mut first,
                    );
                }
            }
            e => {
                note(ops.len(), vec![err_fail("re-observing an earlier version", &e)], &mut first);
                return Ok(first);
            }
        }
    }
    Ok(first)
}

/// Deterministic shrinker: drop one operation / turn a value 2 into 1, keep the change while the
/// oracle still fails, to a fixpoint.
fn shrink_history(ks: &KeySet, ops: &[Op]) -> Result<(Vec<Op>, Option<HistFail>), String> {
    let mut cur = ops.to_vec();
    let mut cur_fail = check_history(ks, &cur, false)?;
    let Some(f) = &cur_fail else { return Ok((cur, None)) };
    // the failure was observed after `len` operations: later ones are irrelevant
    cur.truncate(f.len);
    loop {
        let mut changed = false;
        let mut i = 0;
        while i < cur.len() {
            let mut cand = cur.clone();
            cand.remove(i);
            if let Some(f) = check_history(ks, &cand, false)? {
                cand.truncate(f.len);
                cur = cand;
                cur_fail = Some(f);
                changed = true;
            } else {
                i += 1;
            }
        }
        for i in 0..cur.len() {
            if let Op::Put(k, 2) = cur[i] {
                let mut cand = cur.clone();
                cand[i] = Op::Put(k, 1);
                if let Some(f) = check_history(ks, &cand, false)? {
                    cand.truncate(f.len);
                    cur = cand;
                    cur_fail = Some(f);
                    changed = true;
                    break;
                }
            }
        }
        if !changed {
            break;
        }
    }
    Ok((cur, cur_fail))
}

fn render_history(s: &mut PSession, ks: &KeySet, ops: &[Op]) -> Option<String> {
    match s.eval(&ks.chain(ops)) {
        Eval::Value(v, _) => Some(v),
        _ => None,
    }
}

fn canon_differs(s: &mut PSession, ks: &KeySet, a: &[Op], b: &[Op]) -> bool {
    if model_of(a) != model_of(b) {
        return false;
    }
    match (render_history(s, ks, a), render_history(s, ks, b)) {
        (Some(x), Some(y)) => x != y,
        _ => false,
    }
}

/// Shrink a pair of histories with equal contents and different dict values.
fn shrink_canon(ks: &KeySet, a: &[Op], b: &[Op]) -> Result<Option<(Vec<Op>, Vec<Op>)>, String> {
    let mut s = open_session(ks)?;
    let (mut a, mut b) = (a.to_vec(), b.to_vec());
    if !canon_differs(&mut s, ks, &a, &b) {
        s.close();
        return Ok(None);
    }
    loop {
        let mut changed = false;
        // drop one operation from one side
        'one: loop {
            for side in 0..2 {
                let len = if side == 0 { a.len() } else { b.len() };
                for i in 0..len {
                    let (mut ca, mut cb) = (a.clone(), b.clone());
                    if side == 0 {
                        ca.remove(i);
                    } else {
                        cb.remove(i);
                    }
                    if canon_differs(&mut s, ks, &ca, &cb) {
                        a = ca;
                        b = cb;
                        changed = true;
                        continue 'one;
                    }
                }
            }
            break;
        }
        // drop one operation from each side
        'two: loop {
            for i in 0..a.len() {
                for j in 0..b.len() {
                    let (mut ca, mut cb) = (a.clone(), b.clone());
                    ca.remove(i);
                    cb.remove(j);
                    if canon_differs(&mut s, ks, &ca, &cb) {
                        a = ca;
                        b = cb;
                        changed = true;
                        continue 'two;
                    }
                }
            }
            break;
        }
        // value 2 -> 1 for one key on both sides
        for k in 0..ks.keys.len() {
            let f = |v: &Vec<Op>| v.iter().map(|o| if *o == Op::Put(k, 2) { Op::Put(k, 1) } else { *o }).collect::<Vec<_>>();
            let (ca, cb) = (f(&a), f(&b));
            if (ca != a || cb != b) && canon_differs(&mut s, ks, &ca, &cb) {
                a = ca;
                b = cb;
                changed = true;
            }
        }
        if !changed {
            break;
        }
    }
    s.close();
    if ks.hist_text(&b) < ks.hist_text(&a) {
        std::mem::swap(&mut a, &mut b);
    }
    Ok(Some((a, b)))
}

/// `from` on lists that mention a key twice ("later pairs win"): for every key k the lists
/// [[k,1],[k,2]] and [[k,2],[x,1],[k,1]] (x = the next key). Returns (lists checked, lists
/// failing, reported failures as (list text, failure)).
fn check_from_duplicates(ks: &KeySet) -> Result<(u64, u64, Vec<(String, Fail)>), String> {
    let mut s = open_session(ks)?;
    let mut out = vec![];
    let mut n = 0u64;
    let mut failing = 0u64;
    let nk = ks.keys.len();
    // simplest first: every two-element list, then every three-element list; one root cause
    // makes all of them fail, so only the first failing list of each length is reported
    for shape in 0..2 {
        let mut reported = false;
        for k in 0..nk {
            let x = (k + 1) % nk;
            let pairs = if shape == 0 { vec![(k, 1i64), (k, 2)] } else { vec![(k, 2), (x, 1), (k, 1)] };
            let mut list = String::from("Nil");
            for (kk, v) in pairs.iter().rev() {
                list = format!("Cons[[{}, {}], {}]", ks.keys[*kk].lit(), v, list);
            }
            let mut m = Model::new();
            for (kk, v) in &pairs {
                m.insert(*kk, *v);
            }
            n += 1;
            let fail = match s.eval(&format!("{} %dict.from ol", list)) {
                Eval::Value(v, _) => {
                    let mut fails = vec![];
                    check_light(ks, &parse_value(&v)?, &m, "from(list)", &mut fails)?;
                    fails.into_iter().next()
                }
                e => {
                    s = open_session(ks)?;
                    Some(Fail::new("from(list)".into(), clip(&format!("{:?}", e), 300), "a dict".into()))
                }
            };
            if let Some(f) = fail {
                failing += 1;
                if !reported {
                    reported = true;
                    out.push((list, f));
                }
            }
        }
    }
    s.close();
    Ok((n, failing, out))
}

// ---------------------------------------------------------------------------------------------
// The breadth-first search

struct State {
    render: String,
    model: Model,
    history: Vec<Op>,
    depth: usize,
    shape: Shape,
    observed: bool,
}

struct Item {
    id: usize,
    history: Vec<Op>,
    model: Model,
    /// expand (all successors) or only observe (states at the depth bound)
    expand: bool,
}

enum Expanded {
    Done { id: usize, fo: FullObs, succ: Vec<(String, Vec<Fail>)> },
    /// the line did not evaluate; resolved by the slow path
    Error { id: usize, error: String },
    Skipped { id: usize },
}

fn expand_slice(ks: &KeySet, idx: usize, items: &[Item], budget: &Budget, rotate: usize) -> Result<Vec<Expanded>, String> {
    let mut out = vec![];
    let ops = ks.ops();
    SESS.with(|cell| -> Result<(), String> {
        let mut guard = cell.borrow_mut();
        for (pos, it) in items.iter().enumerate() {
            if (pos + rotate) % SESSIONS != idx {
                continue;
            }
            if budget.exhausted() {
                out.push(Expanded::Skipped { id: it.id });
                continue;
            }
            if guard.as_ref().map(|s| s.tag != ks.name).unwrap_or(false) {
                if let Some(s) = guard.take() {
                    s.s.close();
                }
            }
            if guard.is_none() {
                *guard = Some(Sess { s: open_session(ks)?, bound: vec![], tag: ks.name.clone(), max_rounds: 0 });
            }
            let sess = guard.as_mut().unwrap();
            let prev = flipped(&it.history[..it.history.len().saturating_sub(1)]);
            let prev = &prev[..];
            let line = format!(
                "s{} = {} nm, [s{}, {} nm] {}",
                it.id,
                ks.chain(&it.history),
                it.id,
                ks.chain(prev),
                if it.expand { "ex" } else { "fo" }
            );
            let mq = model_of(prev);
            match sess.s.eval(&line) {
                Eval::Value(v, _) => {
                    let t = parse_value(&v)?;
                    let (fo, succ) = if it.expand {
                        let f = t.fields("", 1 + ops.len())?;
                        let fo = check_fo(ks, &f[0], &it.model, &mq)?;
                        let mut succ = vec![];
                        for (o, so) in ops.iter().zip(&f[1..]) {
                            succ.push(check_tr(ks, so, *o, &apply(&it.model, *o))?);
                        }
                        (fo, succ)
                    } else {
                        (check_fo(ks, &t, &it.model, &mq)?, vec![])
                    };
                    sess.bound.push((it.id, fo.ol_text.clone()));
                    out.push(Expanded::Done { id: it.id, fo, succ });
                }
                e => {
                    // the session may be dead: replace it (the versions bound in it are lost to the
                    // final persistence pass; this only happens when something is already wrong)
                    out.push(Expanded::Error { id: it.id, error: clip(&format!("{:?}", e), 400) });
                    if let Some(old) = guard.take() {
                        let max_rounds = old.max_rounds.max(old.s.max_line_rounds);
                        old.s.close();
                        *guard = Some(Sess { s: open_session(ks)?, bound: vec![], tag: ks.name.clone(), max_rounds });
                    }
                }
            }
        }
        Ok(())
    })?;
    Ok(out)
}

/// Re-observe every state still bound in this thread's session; returns (re-observed, failures).
fn persistence_pass(budget: &Budget) -> Result<(u64, u64, Vec<(usize, Fail)>, u64), String> {
    SESS.with(|cell| {
        let mut guard = cell.borrow_mut();
        let Some(sess) = guard.as_mut() else { return Ok((0, 0, vec![], 0)) };
        let mut fails = vec![];
        let mut n = 0u64;
        let mut skipped = 0u64;
        let bound = std::mem::take(&mut sess.bound);
        for chunk in bound.chunks(8) {
            if budget.exhausted() {
                skipped += chunk.len() as u64;
                continue;
            }
            let line = format!("[{}]", chunk.iter().map(|(id, _)| format!("s{} ol", id)).collect::<Vec<_>>().join(", "));
            match sess.s.eval(&line) {
                Eval::Value(v, _) => {
                    let t = parse_value(&v)?;
                    let f = t.fields("", chunk.len())?;
                    for ((id, before), now) in chunk.iter().zip(f) {
                        n += 1;
                        let now = now.text();
                        if &now != before {
                            fails.push((*id, Fail::new("persistence: bound version re-observed after the whole search".into(), clip(&now, 600), clip(before, 600))));
                        }
                    }
                }
                e => {
                    for (id, _) in chunk {
                        fails.push((*id, Fail::new("persistence: re-observing a bound version".into(), clip(&format!("{:?}", e), 400), "a value".into())));
                    }
                    break;
                }
            }
        }
        let mut max_rounds = 0;
        if let Some(s) = guard.take() {
            max_rounds = s.max_rounds.max(s.s.max_line_rounds);
            s.s.close();
        }
        Ok((n, skipped, fails, max_rounds))
    })
}

#[derive(Default)]
struct SearchOut {
    states: usize,
    states_observed: usize,
    states_expanded: usize,
    transitions: u64,
    model_states: usize,
    max_depth: usize,
    levels: Vec<usize>,
    fixpoint: bool,
    skipped: usize,
    states_with_collision: usize,
    states_with_bucket3: usize,
    by_node_depth: BTreeMap<usize, usize>,
    derived_checked: u64,
    derived_new_values: usize,
    persistence_reobserved: u64,
    persistence_skipped: u64,
    canon_divergent_states: usize,
    canon_bucket_order_only: usize,
    /// (first history, later history, only bucket order differs)
    canon_pairs: Vec<(Vec<Op>, Vec<Op>, bool)>,
    failures: Vec<(Vec<Op>, Fail)>,
    failures_total: u64,
    samples: Vec<J>,
    api_calls: u64,
    max_rounds_per_line: u64,
    error_states: usize,
    error_states_resolved: usize,
}

fn search(ks: &KeySet, max_depth: usize, budget: &Budget, pool: &rayon::ThreadPool) -> Result<SearchOut, String> {
    let ops = ks.ops();
    let nk = ks.keys.len() as u64;
    let mut out = SearchOut::default();
    let mut states: Vec<State> = vec![State { render: "Empty".into(), model: Model::new(), history: vec![], depth: 0, shape: Shape::default(), observed: false }];
    let mut index: HashMap<String, usize> = HashMap::new();
    index.insert("Empty".into(), 0);
    let mut by_model: HashMap<Model, Vec<usize>> = HashMap::new();
    by_model.insert(Model::new(), vec![0]);
    let mut derived_seen: BTreeSet<String> = BTreeSet::new();
    let mut frontier: Vec<usize> = vec![0];
    let rotate = (crate::infra::seed().rem_euclid(SESSIONS as i64)) as usize;
    let mut depth = 0usize;
    out.levels.push(1);
    // levels 0..max_depth-1 are expanded; the level at the bound is observed only
    while !frontier.is_empty() {
        let expand = depth < max_depth;
        let items: Vec<Item> = frontier
            .iter()
            .map(|id| Item { id: *id, history: states[*id].history.clone(), model: states[*id].model.clone(), expand })
            .collect();
        let results: Vec<Result<Vec<Expanded>, String>> = pool.broadcast(|ctx| expand_slice(ks, ctx.index(), &items, budget, rotate));
        let mut by_id: BTreeMap<usize, Expanded> = BTreeMap::new();
        for r in results {
            for e in r? {
                let id = match &e {
                    Expanded::Done { id, .. } | Expanded::Error { id, .. } | Expanded::Skipped { id } => *id,
                };
                by_id.insert(id, e);
            }
        }
        let mut next = vec![];
        for id in &frontier {
            let hist = states[*id].history.clone();
            match by_id.remove(id) {
                None | Some(Expanded::Skipped { .. }) => out.skipped += 1,
                Some(Expanded::Error { error, .. }) => {
                    out.error_states += 1;
                    out.failures_total += 1;
                    if out.error_states_resolved < MAX_ERROR_STATES_RESOLVED {
                        // slow path: which single operation (or the rebuild itself) fails?
                        out.error_states_resolved += 1;
                        let mut cands: Vec<Vec<Op>> = vec![hist.clone()];
                        if expand {
                            for o in &ops {
                                let mut h = hist.clone();
                                h.push(*o);
                                cands.push(h);
                            }
                        }
                        let res: Vec<Result<Option<HistFail>, String>> = cands.par_iter().map(|h| check_history(ks, h, false)).collect();
                        let mut pinned = false;
                        for (h, r) in cands.iter().zip(res) {
                            if let Some(hf) = r? {
                                out.failures.push((h[..hf.len].to_vec(), hf.fail));
                                pinned = true;
                                if h.len() == hist.len() {
                                    break;
                                }
                            }
                        }
                        if !pinned {
                            out.failures.push((hist.clone(), Fail::new("evaluating this state's line (observation and all successors at once)".into(), error, "a value".into())));
                        }
                    }
                }
                Some(Expanded::Done { fo, succ, .. }) => {
                    states[*id].observed = true;
                    out.states_observed += 1;
                    // calls: rebuild (twice, minus one op), ob, 3 derivations + ol each
                    out.api_calls += 2 * hist.len() as u64 + (2 * nk + 6) + (4 + 1) + 3 * (nk + 1);
                    out.derived_checked += 3;
                    if fo.render != states[*id].render {
                        out.failures_total += 1;
                        out.failures.push((hist.clone(), Fail::new(
                            "determinism: the dict rebuilt from this history differs from the value the same history produced before".into(),
                            clip(&fo.render, 600),
                            clip(&states[*id].render, 600),
                        )));
                    }
                    for f in fo.fails {
                        out.failures_total += 1;
                        out.failures.push((hist.clone(), f));
                    }
                    for d in fo.derived {
                        if !index.contains_key(&d) {
                            derived_seen.insert(d);
                        }
                    }
                    if expand {
                        out.states_expanded += 1;
                    }
                    for (o, (render, tfails)) in ops.iter().zip(succ) {
                        out.transitions += 1;
                        out.api_calls += 3;
                        let mut h = hist.clone();
                        h.push(*o);
                        for f in tfails {
                            out.failures_total += 1;
                            out.failures.push((h.clone(), f));
                        }
                        let model = apply(&states[*id].model, *o);
                        match index.get(&render) {
                            Some(known) => {
                                if states[*known].model != model {
                                    // one dict value cannot stand for two different maps
                                    out.failures_total += 1;
                                    let mut f = Fail::new(
                                        format!("contents: this history yields exactly the dict value of history `{}`", ks.hist_text(&states[*known].history)),
                                        format!("{} (what that value was checked against)", ks.model_text(&states[*known].model)),
                                        ks.model_text(&model),
                                    );
                                    f.alt = Some(states[*known].history.clone());
                                    out.failures.push((h.clone(), f));
                                }
                            }
                            None => {
                                let sid = states.len();
                                index.insert(render.clone(), sid);
                                let t = parse_value(&render)?;
                                let mut sh = Shape::default();
                                shape(&t, 0, &mut sh);
                                let same = by_model.entry(model.clone()).or_default();
                                if let Some(first) = same.first() {
                                    out.canon_divergent_states += 1;
                                    let bucket_only = bucket_normal(&parse_value(&states[*first].render)?) == bucket_normal(&t);
                                    if bucket_only {
                                        out.canon_bucket_order_only += 1;
                                    }
                                    let class_size = out.canon_pairs.iter().filter(|p| p.2 == bucket_only).count();
                                    if class_size < MAX_CANON_SHRUNK {
                                        out.canon_pairs.push((states[*first].history.clone(), h.clone(), bucket_only));
                                    }
                                }
                                same.push(sid);
                                states.push(State { render, model, history: h, depth: depth + 1, shape: sh, observed: false });
                                next.push(sid);
                            }
                        }
                    }
                }
            }
        }
        if !expand {
            break;
        }
        depth += 1;
        if !next.is_empty() {
            out.levels.push(next.len());
            out.max_depth = depth;
        }
        frontier = next;
    }
    out.fixpoint = frontier.is_empty() && out.skipped == 0;
    let pers: Vec<Result<(u64, u64, Vec<(usize, Fail)>, u64), String>> = pool.broadcast(|_| persistence_pass(budget));
    for p in pers {
        let (n, skipped, fails, max_rounds) = p?;
        out.max_rounds_per_line = out.max_rounds_per_line.max(max_rounds);
        out.persistence_reobserved += n;
        out.persistence_skipped += skipped;
        out.api_calls += n * (nk + 1);
        for (id, f) in fails {
            out.failures_total += 1;
            out.failures.push((states[id].history.clone(), f));
        }
    }
    out.derived_new_values = derived_seen.iter().filter(|d| !index.contains_key(*d)).count();
    out.states = states.len();
    out.model_states = by_model.len();
    for s in &states {
        if s.shape.collisions > 0 {
            out.states_with_collision += 1;
        }
        if s.shape.max_bucket >= 3 {
            out.states_with_bucket3 += 1;
        }
        *out.by_node_depth.entry(s.shape.node_depth).or_default() += 1;
    }
    // samples: deepest trie, largest bucket, most entries, the middle and the last state
    let mut pick: Vec<usize> = vec![];
    for key in [0usize, 1, 2] {
        let best = (0..states.len()).max_by_key(|i| {
            let s = &states[*i];
            (match key { 0 => s.shape.node_depth, 1 => s.shape.max_bucket, _ => s.model.len() }, std::cmp::Reverse(*i))
        });
        if let Some(i) = best {
            pick.push(i);
        }
    }
    pick.push(states.len() / 2);
    pick.push(states.len() - 1);
    let mut seen = BTreeSet::new();
    pick.retain(|i| seen.insert(*i));
    for i in pick {
        out.samples.push(json!({
            "key_set": ks.name,
            "history": ks.hist_text(&states[i].history),
            "dict_value": clip(&states[i].render, 900),
            "reference_map": ks.model_text(&states[i].model),
            "trie_depth": states[i].shape.node_depth,
            "largest_bucket": states[i].shape.max_bucket,
        }));
    }
    Ok(out)
}

// ---------------------------------------------------------------------------------------------
// Memory watchdog: a defective dict can recurse without end (e.g. `split_pair` on two hashes whose
// remaining fragments are all equal) and the VM's frame stack then grows without bound.

struct MemGuard {
    stop: std::sync::Arc<std::sync::atomic::AtomicBool>,
    trips: std::sync::Arc<AtomicU64>,
    peak: std::sync::Arc<AtomicU64>,
    handle: Option<std::thread::JoinHandle<()>>,
}

fn resident_bytes() -> u64 {
    std::fs::read_to_string("/proc/self/statm")
        .ok()
        .and_then(|s| s.split_whitespace().nth(1).and_then(|x| x.parse::<u64>().ok()))
        .map(|pages| pages * 4096)
        .unwrap_or(0)
}

impl MemGuard {
    fn start() -> MemGuard {
        use std::sync::Arc;
        use std::sync::atomic::AtomicBool;
        let stop = Arc::new(AtomicBool::new(false));
        let trips = Arc::new(AtomicU64::new(0));
        let peak = Arc::new(AtomicU64::new(0));
        let (s2, t2, p2) = (stop.clone(), trips.clone(), peak.clone());
        let handle = std::thread::spawn(move || {
            let mut limit: u64 = 6 << 30;
            while !s2.load(Ordering::Relaxed) {
                let rss = resident_bytes();
                p2.fetch_max(rss, Ordering::Relaxed);
                if rss > limit {
                    t2.fetch_add(1, Ordering::Relaxed);
                    plain::MEMORY_ABORT.store(true, Ordering::SeqCst);
                    std::thread::sleep(std::time::Duration::from_millis(400));
                    plain::MEMORY_ABORT.store(false, Ordering::SeqCst);
                    // freed memory is not necessarily returned to the system: guard further growth
                    limit = limit.max(resident_bytes() + (3 << 30));
                }
                std::thread::sleep(std::time::Duration::from_millis(25));
            }
        });
        MemGuard { stop, trips, peak, handle: Some(handle) }
    }
    fn stop(mut self) -> (u64, u64) {
        self.stop.store(true, Ordering::Relaxed);
        if let Some(h) = self.handle.take() {
            let _ = h.join();
        }
        (self.trips.load(Ordering::Relaxed), self.peak.load(Ordering::Relaxed))
    }
}

// ---------------------------------------------------------------------------------------------
// Report assembly

fn violations_of(ks: &KeySet, out: &SearchOut, not_shrunk: &mut u64) -> Result<Vec<Violation>, String> {
    let mut vs: Vec<Violation> = vec![];
    let mut seen_hist: BTreeSet<Vec<Op>> = BTreeSet::new();
    let mut work: Vec<(Vec<Op>, Fail)> = vec![];
    for (h, f) in &out.failures {
        if seen_hist.insert(h.clone()) {
            work.push((h.clone(), f.clone()));
        }
    }
    *not_shrunk += work.len().saturating_sub(MAX_SHRUNK) as u64;
    work.truncate(MAX_SHRUNK);
    let shrunk: Vec<Result<(Vec<Op>, Vec<Op>, Fail, bool), String>> = work
        .par_iter()
        .map(|(h, f)| {
            let (core, hf) = shrink_history(ks, h)?;
            if let Some(hf) = hf {
                return Ok((h.clone(), core, hf.fail, true));
            }
            if let Some(alt) = &f.alt {
                let (core, hf) = shrink_history(ks, alt)?;
                if let Some(hf) = hf {
                    return Ok((alt.clone(), core, hf.fail, true));
                }
            }
            Ok((h.clone(), h.clone(), f.clone(), false))
        })
        .collect();
    let mut sigs = BTreeSet::new();
    for r in shrunk {
        let (orig, core, f, reproduced) = r?;
        let sig = format!("history: {}", ks.hist_text(&core));
        if !sigs.insert(sig.clone()) {
            continue;
        }
        vs.push(Violation {
            signature: sig,
            summary: format!(
                "after `{}` — {}: observed {}, the reference map requires {}{} (first seen on `{}`, key set {})",
                ks.hist_text(&core),
                f.what,
                f.observed,
                f.expected,
                if reproduced { "" } else { " [seen in the search session only; not reproduced one operation per line]" },
                ks.hist_text(&orig),
                ks.name
            ),
            replay: json!({ "kind": "history", "key_set": ks.to_json(), "ops": ks.ops_json(&core) }),
        });
    }
    if CANON_IS_DOCUMENTED {
        // the first pairs (BFS order) of each class: only bucket order differs / anything else
        let shrunk: Vec<Result<Option<(Vec<Op>, Vec<Op>)>, String>> = out.canon_pairs.par_iter().map(|(a, b, _)| shrink_canon(ks, a, b)).collect();
        for r in shrunk {
            if let Some((a, b)) = r? {
                let sig = format!("canonical-form: {} || {}", ks.hist_text(&a), ks.hist_text(&b));
                if !sigs.insert(sig.clone()) {
                    continue;
                }
                // only two CORRECT maps that differ as values are a canonical-form matter; when one
                // of the histories already fails the map oracle, that failure is what is reported
                if check_history(ks, &a, false)?.is_some() || check_history(ks, &b, false)?.is_some() {
                    continue;
                }
                vs.push(Violation {
                    signature: sig,
                    summary: format!(
                        "histories `{}` and `{}` have the same contents {} but yield different dict values (`=&` tells them apart), contradicting the canonical form documented in std/dict.qv (comment above collapse_node: \"a dict's shape depends only on its contents (not on insertion/removal order)\")",
                        ks.hist_text(&a),
                        ks.hist_text(&b),
                        ks.model_text(&model_of(&a))
                    ),
                    replay: json!({ "kind": "canonical", "key_set": ks.to_json(), "ops": ks.ops_json(&a), "ops2": ks.ops_json(&b) }),
                });
            }
        }
    }
    Ok(vs)
}

pub fn run(tier: Tier) -> Result<Report, String> {
    // C19_BUDGET_S overrides the wall-clock cap (used to measure CPU time on a loaded machine)
    let budget = Budget::new(std::env::var("C19_BUDGET_S").ok().and_then(|s| s.parse().ok()).unwrap_or(match tier {
        Tier::Quick => 21.0,
        Tier::Thorough => 540.0,
    }));
    let facts = search_keys(&[0x6b]);
    // thorough: deep enough for every key set to reach its fixpoint (they do at depth 7 or 8)
    let bound_t: usize = std::env::var("C19_DEPTH").ok().and_then(|s| s.parse().ok()).unwrap_or(10);
    // (key set, depth bound)
    let plan: Vec<(KeySet, usize)> = match tier {
        Tier::Quick => vec![(facts.main_set(false), 5)],
        Tier::Thorough => vec![(facts.main_set(true), bound_t), (facts.comb_set(), bound_t), (facts.edge_set(), bound_t)],
    };
    let watchdog = MemGuard::start();
    let pool = rayon::ThreadPoolBuilder::new()
        .num_threads(SESSIONS)
        .stack_size(64 * 1024 * 1024)
        .build()
        .map_err(|e| format!("thread pool: {}", e))?;
    let mut violations: Vec<Violation> = vec![];
    let mut per_set = vec![];
    let mut samples = vec![];
    let (mut states, mut transitions, mut max_depth) = (0usize, 0u64, 0usize);
    let (mut with_collision, mut with_bucket3, mut deep) = (0usize, 0usize, 0usize);
    let mut caps: Vec<String> = vec![];
    let mut not_shrunk = 0u64;
    let mut exhaustive = true;
    for (ks, bound) in &plan {
        verify_keys(ks)?;
        let (from_lists, from_lists_failing, from_fails) = check_from_duplicates(ks)?;
        for (list, f) in from_fails {
            let sig = format!("from-list: {}", list);
            if !violations.iter().any(|w| w.signature == sig) {
                violations.push(Violation {
                    signature: sig,
                    summary: format!("`{} %dict.from` — {}: observed {}, later pairs must win so the reference map requires {}", list, f.what, f.observed, f.expected),
                    replay: json!({ "kind": "from", "key_set": ks.to_json(), "list": list }),
                });
            }
        }
        let out = search(ks, *bound, &budget, &pool)?;
        if out.skipped > 0 || out.persistence_skipped > 0 {
            exhaustive = false;
            caps.push(format!(
                "key set {}: time budget reached at {:.0} s; {} states neither observed nor expanded, {} bound versions not re-observed",
                ks.name,
                budget.elapsed(),
                out.skipped,
                out.persistence_skipped
            ));
        }
        for v in violations_of(ks, &out, &mut not_shrunk)? {
            if !violations.iter().any(|w| w.signature == v.signature) {
                violations.push(v);
            }
        }
        states += out.states;
        transitions += out.transitions;
        max_depth = max_depth.max(out.max_depth);
        with_collision += out.states_with_collision;
        with_bucket3 += out.states_with_bucket3;
        deep += out.by_node_depth.iter().filter(|(d, _)| **d >= 3).map(|(_, n)| *n).sum::<usize>();
        samples.extend(out.samples.iter().cloned());
        per_set.push(json!({
            "key_set": ks.to_json(),
            "operations": ks.ops().len(),
            "depth_bound": bound,
            "states": out.states,
            "states_per_depth": out.levels,
            "states_fully_observed": out.states_observed,
            "states_expanded": out.states_expanded,
            "distinct_reference_maps": out.model_states,
            "transitions": out.transitions,
            "max_depth_reached": out.max_depth,
            "fixpoint_reached": out.fixpoint,
            "states_not_processed_for_time": out.skipped,
            "states_with_collision_node": out.states_with_collision,
            "states_with_bucket_of_3": out.states_with_bucket3,
            "states_by_trie_depth": out.by_node_depth.iter().map(|(d, n)| (d.to_string(), json!(n))).collect::<serde_json::Map<_, _>>(),
            "derived_dicts_checked_from_merge": out.derived_checked,
            "from_lists_with_duplicate_keys_checked": from_lists,
            "from_lists_with_duplicate_keys_failing": from_lists_failing,
            "derived_dict_values_outside_the_state_set": out.derived_new_values,
            "dict_api_calls_executed": out.api_calls,
            "versions_reobserved_at_end": out.persistence_reobserved,
            "oracle_failures_before_shrinking": out.failures_total,
            "states_whose_line_did_not_evaluate": out.error_states,
            "of_which_resolved_operation_by_operation": out.error_states_resolved,
            "max_rounds_per_line": out.max_rounds_per_line,
            "round_cap_per_line": plain::ROUND_CAP,
            "same_contents_different_value": {
                "states_beyond_first_per_reference_map": out.canon_divergent_states,
                "of_which_only_bucket_order_differs": out.canon_bucket_order_only,
                "judged_as_violation": CANON_IS_DOCUMENTED,
            },
        }));
    }
    drop(pool);
    let (mem_trips, mem_peak) = watchdog.stop();
    if std::env::var("C19_DEBUG").is_ok() {
        eprintln!("c19: peak resident {} MiB", mem_peak >> 20);
    }
    if mem_trips > 0 {
        caps.push(format!("memory guard tripped {} time(s): running lines were abandoned and reported as failures", mem_trips));
    }
    let coverage = json!({
        "memory_guard_trips": mem_trips,
        "states": states,
        "transitions": transitions,
        "traces_validated_against_impl": transitions,
        "max_depth": max_depth,
        "states_with_collision_node": with_collision,
        "states_with_bucket_of_3": with_bucket3,
        "states_with_trie_depth_ge_3": deep,
        "exhaustive": exhaustive,
        "caps_hit": caps,
        "failing_histories_not_shrunk": not_shrunk,
        "key_search": facts.to_json(),
        "key_sets": per_set,
        "samples": samples,
        "explanation": "Explicit-state breadth-first search over ALL operation sequences put(k, v in {1,2}) | remove(k) from %dict.new, for every k of a key set, up to the stated depth bound (fixpoint_reached = the frontier became empty, i.e. every longer history ends in an already explored value). A state is a REAL dict value: built by the real compiler and VM inside 16 long-lived REPL sessions (real Repl + Environment + 2 Workers; frontier split by index) and identified by the canonical rendering of the value. `transitions` = operations executed on the real implementation from a distinct state, each followed at once by get of the affected key and count; the resulting value is looked up by rendering, and reaching a known value with a different reference map is a violation. Every distinct state is observed in full exactly once when it is rebuilt from its history in its session: get/has? of every key, count, entries/keys/values/iter compared as multisets, plus from(entries d), merge(d, q) and merge(q, d) against q = the previous version with the values 1 and 2 swapped, so that keys only in d, only in q and conflicting keys all occur (get of every key + count), and the rebuilt value must render as the value found as a successor (determinism). Every state stays bound in its session and is re-observed verbatim after the whole search (persistence). There is no separate model of the trie whose traces would need validating — the only reference is a BTreeMap per state — so traces_validated_against_impl = transitions. Key hashes chosen by the key search are confirmed with the real __binary_hash32__ builtin first.",
    });
    Ok(Report {
        property: "C19",
        level: "model_checking",
        coverage,
        assumptions: vec![
            "keys come from the searched key sets (listed under key_sets), values are the ints 1 and 2; buckets hold at most 3 entries; a 32-bit hash gives at most 7 trie levels, all of which occur".into(),
            "observations are functions of the dict value (Quiver values are immutable): a state reached by several histories is observed in full once; the re-observation of every bound version at the end and the rebuild of every state in another session test this".into(),
            "histories longer than the depth bound are covered only where fixpoint_reached is true".into(),
            "results are read through the engine's canonical renderer (render.rs) and parsed back; dict values are identified by that rendering".into(),
            "lines run on the real Repl/Environment/Worker stepped round-robin by a driver inside c19.rs (plain::Session), not by sim::session::Session whose per-slice fingerprinting makes dict-heavy lines 40x slower; one line per key set is cross-checked between the two drivers".into(),
            "the VM is not expected to hang or overflow the native stack on tries of depth <= 7: panics are caught per component step, no child process is used".into(),
        ],
        violations,
    })
}

// ---------------------------------------------------------------------------------------------
// Replay

fn keyset_from_json(j: &J) -> Result<KeySet, String> {
    let keys = j["keys"].as_array().ok_or("replay: key_set.keys missing")?;
    let mut ks = KeySet { name: j["name"].as_str().unwrap_or("replay").to_string(), keys: vec![], roles: vec![] };
    for k in keys {
        ks.keys.push(Key::parse(k["key"].as_str().ok_or("replay: key")?)?);
        ks.roles.push(k["role"].as_str().unwrap_or("").to_string());
    }
    Ok(ks)
}

fn ops_from_json(ks: &KeySet, j: &J) -> Result<Vec<Op>, String> {
    let mut v = vec![];
    for o in j.as_array().ok_or("replay: ops missing")? {
        let kind = o[0].as_str().ok_or("replay: op kind")?;
        let key = Key::parse(o[1].as_str().ok_or("replay: op key")?)?;
        let ki = ks.keys.iter().position(|k| *k == key).ok_or("replay: key not in key set")?;
        v.push(match kind {
            "put" => Op::Put(ki, o[2].as_i64().ok_or("replay: value")?),
            "remove" => Op::Remove(ki),
            _ => return Err(format!("replay: unknown op {}", kind)),
        });
    }
    Ok(v)
}

pub fn replay(replay: &J) -> Result<bool, String> {
    let ks = keyset_from_json(&replay["key_set"])?;
    if replay["kind"].as_str() == Some("from") {
        let list = replay["list"].as_str().ok_or("replay: list missing")?;
        let mut s = open_session(&ks)?;
        let r = s.eval(&format!("{} %dict.from ol", list));
        s.close();
        println!("  {} %dict.from  observed through [d, [get k..], count]:\n    {:?}", list, r);
        // expected: the later pair of every key wins
        let t = parse_value(list)?;
        let mut m = Model::new();
        for e in t.list()? {
            let f = e.fields("", 2)?;
            let key = f[0].key()?;
            let ki = ks.keys.iter().position(|k| *k == key).ok_or("replay: key not in key set")?;
            if let T::Int(v) = f[1] {
                m.insert(ki, v);
            }
        }
        println!("  expected contents: {}", ks.model_text(&m));
        return match r {
            Eval::Value(v, _) => {
                let mut fails = vec![];
                check_light(&ks, &parse_value(&v)?, &m, "from(list)", &mut fails)?;
                for f in &fails {
                    println!("    MISMATCH {}: observed {} expected {}", f.what, f.observed, f.expected);
                }
                Ok(!fails.is_empty())
            }
            _ => Ok(true),
        };
    }
    let ops = ops_from_json(&ks, &replay["ops"])?;
    match replay["kind"].as_str() {
        Some("history") => {
            println!("  history: {}", ks.hist_text(&ops));
            let r = check_history(&ks, &ops, true)?;
            match &r {
                Some(f) => println!("  FIRST FAILURE after {} operation(s): {}: observed {} expected {}", f.len, f.fail.what, f.fail.observed, f.fail.expected),
                None => println!("  every observation matches the reference map"),
            }
            Ok(r.is_some())
        }
        Some("canonical") => {
            let ops2 = ops_from_json(&ks, &replay["ops2"])?;
            let mut s = open_session(&ks)?;
            let a = render_history(&mut s, &ks, &ops);
            let b = render_history(&mut s, &ks, &ops2);
            let eq = match s.eval(&format!("a = {}, b = {}, a =&b", ks.chain(&ops), ks.chain(&ops2))) {
                Eval::Value(v, _) => v,
                e => format!("{:?}", e),
            };
            s.close();
            println!("  history 1: {}\n    contents {}\n    value    {}", ks.hist_text(&ops), ks.model_text(&model_of(&ops)), a.clone().unwrap_or("<error>".into()));
            println!("  history 2: {}\n    contents {}\n    value    {}", ks.hist_text(&ops2), ks.model_text(&model_of(&ops2)), b.clone().unwrap_or("<error>".into()));
            println!("  `a =&b` in Quiver: {}   (the documented canonical form requires Ok)", eq);
            Ok(model_of(&ops) == model_of(&ops2) && a.is_some() && b.is_some() && a != b)
        }
        _ => Err("replay: unknown kind".into()),
    }
}
