//! C10 — packaging steps preserve behaviour: tree-shake, serialise, merge, import.
//!
//! Bounded-exhaustive exploration: every program of a stated universe (test-suite corpus, std
//! module bodies, all grammar programs with <= 3 nodes, cores x contexts, a module-shaped family)
//! is run through every packaging path and the observations (index-free rendering of the result,
//! or the runtime error kind) must agree with the plain "as compiled" run.
//!
//! Layout: `canon` (index-free rendering), `corpus` (Rust-literal scanner), `grammar` (generators),
//! `paths` (the packaging steps + bounded runners), `shrink` (minimal cores = signatures).
//!
//! Development aids (environment variables, none of them changes a verdict):
//! `QV_C10_DEBUG=1` phase timings on stderr; `QV_C10_BUDGET_S=<s>` replaces the wall-clock cap of
//! the tier (useful on a shared machine); `QV_C10_SHOW=<source>` (with optional
//! `QV_C10_HIST=<line> ;; <line>`) prints every path's observation for one program and exits.

mod canon;
mod corpus;
mod grammar;
mod paths;
mod shrink;

use crate::infra::{Budget, Report, Tier, Violation};
use crate::qcompile::{self, CompiledUnit, E};
use canon::Tables;
use paths::{Host, LineEnd, Obs, Repl, Wrapper};
use quiver_core::builtins::BuiltinRegistry;
use quiver_core::bytecode::{Bytecode, Instruction};
use quiver_core::value::Value;
use rayon::prelude::*;
use serde::{Deserialize, Serialize};
use serde_json::{Value as J, json};
use std::collections::{BTreeMap, BTreeSet, HashMap};
use std::path::PathBuf;
use std::sync::atomic::{AtomicU64, Ordering};

// ---------------------------------------------------------------------------------------------
// Universe

#[derive(Clone, Debug)]
pub struct Item {
    pub origin: String,
    pub class: &'static str,
    pub source: String,
}

/// Pool of programs merged *before* the program under test. Chosen to share some and shift all
/// of the constant / tuple / type / function / builtin tables. `shaken` = merged as tree-shaken
/// bytecode (as `quiv run` does) rather than as compiled.
pub const POOL: &[(&str, bool)] = &[
    // constants 2,"a",0x01,... + the tuple names A, B, [x,y] of the generated programs with other arities / field types, Str
    ("[A[2, \"a\", 0x01], A[0x01], B[\"s\"], [x: 0x, y: A[1]]]", false),
    // functions, a capture-free closure calling another, builtin integer_add, constants 1 5 3
    ("zzp_f = #'int { [~, 1] __integer_add__ }, zzp_g = #{ 5 zzp_f }, [&zzp_f, &zzp_g, 3 zzp_f]", true),
    // type tests against tuples B, A and a labelled record
    ("[x: 1, y: [B[0], A]] { | =[x: 'int, y: [B['int], A]] => Ok | [] }", false),
    // a union alias with a partial type, dispatch function
    ("'zzpool_t = A | B['int] | (x: 'int)\nzzp_h = #'zzpool_t { | =A => 0 | =B[n] => n | 9 }, [A zzp_h, B[4] zzp_h, [x: 1] zzp_h]", true),
    // builtins in another order, binary constants
    ("[[0x01, 0x02] __binary_concat__, [1, 2] __integer_multiply__, [2, 1] __integer_subtract__]", false),
    // a standard-library import (many functions, types and tuples), tree-shaken
    ("[[1, 2] %num.add, [Nil, 3] %list.prepend]", true),
];

#[derive(Clone, Debug, Serialize, Deserialize, PartialEq, Eq)]
pub struct Hist {
    pub source: String,
    pub shaken: bool,
}

#[derive(Clone, Debug, Serialize, Deserialize, PartialEq, Eq)]
#[serde(tag = "path")]
pub enum PathSpec {
    /// (b) `to_bytecode_optimized`
    Shake,
    /// (c) JSON write -> read of the as-compiled or the shaken bytecode
    Json { shaken: bool, pretty: bool },
    /// (d) the `quiv run` / `quiv compile` path: wrapper evaluates to the entry function
    Entry { wrapper: String, json: bool },
    /// (e1) merged into an environment after independently compiled programs
    Merge { history: Vec<Hist>, shaken: bool },
    /// (e2) evaluated as a REPL line after other lines (then a `[]` line resetting the flow)
    Repl { history: Vec<String> },
    /// (f) module body imported instead of evaluated in place
    Import { form: String, fields: Vec<String>, arg: Option<String> },
    /// real `quiv` binary
    Binary { wrapper: String, mode: String },
}

impl PathSpec {
    pub fn class(&self) -> String {
        match self {
            PathSpec::Shake => "tree-shake".into(),
            PathSpec::Json { shaken, pretty } => format!(
                "json({}{})",
                if *shaken { "shaken" } else { "as-compiled" },
                if *pretty { ",pretty" } else { "" }
            ),
            PathSpec::Entry { wrapper, json } => {
                format!("run-entry({}{})", wrapper, if *json { ",qx" } else { "" })
            }
            PathSpec::Merge { shaken, .. } => {
                format!("merge({})", if *shaken { "shaken" } else { "as-compiled" })
            }
            PathSpec::Repl { .. } => "repl-merge".into(),
            PathSpec::Import { form, .. } => format!("import({})", form),
            PathSpec::Binary { wrapper, mode } => format!("quiv-binary({},{})", wrapper, mode),
        }
    }
    pub fn label(&self) -> String {
        match self {
            PathSpec::Merge { history, .. } => format!(
                "{} after [{}]",
                self.class(),
                history
                    .iter()
                    .map(|h| format!("{}{}", if h.shaken { "shaken:" } else { "" }, h.source))
                    .collect::<Vec<_>>()
                    .join(" ;; ")
            ),
            PathSpec::Repl { history } => format!("{} after [{}]", self.class(), history.join(" ;; ")),
            PathSpec::Import { fields, arg, .. } => format!(
                "{}{}{}",
                self.class(),
                if fields.is_empty() { String::new() } else { format!(" fields [{}]", fields.join(", ")) },
                arg.as_ref().map(|a| format!(" applied to {}", a)).unwrap_or_default()
            ),
            _ => self.class(),
        }
    }
}

pub struct Base {
    pub unit: CompiledUnit,
    pub raw: Bytecode,
    pub obs: Obs,
    pub value: Option<(Value, Vec<Vec<u8>>)>,
    pub slices: usize,
    pub nontrivial: bool,
    /// Does `zz_m = [] { P }, &zz_m` reproduce P's own observation? (None = cannot be built.)
    /// Guards the wrappers / in-place forms that bind P's value to a variable against defects
    /// that have nothing to do with packaging.
    pub binding_ok: std::sync::OnceLock<Option<bool>>,
    /// The observation with function types left out of the fingerprints (REPL comparisons).
    pub obs_loose: std::sync::OnceLock<Obs>,
}

impl Base {
    pub fn loose(&self) -> Obs {
        self.obs_loose
            .get_or_init(|| match (&self.obs, &self.value) {
                (Obs::Val(_, own), Some((v, heap))) => Obs::Val(paths::render_loose(Tables::of_bytecode(&self.raw), v, heap), own.clone()),
                (o, _) => o.clone(),
            })
            .clone()
    }
}

#[derive(Debug)]
pub enum BaseFail {
    Rejected(String),
    CompilerPanic(String),
    ReferencePanic(String),
    TooLong,
    Opaque(&'static str),
}

pub const MAX_REFERENCE_SLICES: usize = 1000;

/// Non-trivial: the as-compiled bytecode holds something other than constants that packaging has
/// to renumber consistently — a function besides the entry, a builtin, a tuple beyond nil/Ok, or
/// a type test.
fn nontrivial(bc: &Bytecode) -> bool {
    bc.functions.len() > 1
        || !bc.builtins.is_empty()
        || bc.tuples.len() > 2
        || bc
            .functions
            .iter()
            .any(|f| f.instructions.iter().any(|i| matches!(i, Instruction::IsType(_))))
}

pub fn base(source: &str, builtins: &BuiltinRegistry<E>) -> Result<Base, BaseFail> {
    let unit = match paths::compile(source, builtins) {
        Ok(u) => u,
        Err(qcompile::CompileFail::Panic(p)) => return Err(BaseFail::CompilerPanic(p)),
        Err(e) => return Err(BaseFail::Rejected(format!("{:?}", e))),
    };
    let raw = unit.bytecode();
    let out = paths::run_sync(&raw, builtins);
    match &out.obs {
        Obs::Panic(p) => return Err(BaseFail::ReferencePanic(p.clone())),
        Obs::NoResult(_) => return Err(BaseFail::TooLong),
        _ => {}
    }
    if out.slices > MAX_REFERENCE_SLICES {
        return Err(BaseFail::TooLong);
    }
    if let Some((v, _)) = &out.value {
        let mut k = (false, false, false);
        canon::opaque_kinds(v, &mut k);
        if k.0 {
            return Err(BaseFail::Opaque("process id in result"));
        }
        if k.1 {
            return Err(BaseFail::Opaque("resource in result"));
        }
    }
    let nt = nontrivial(&raw);
    Ok(Base {
        unit,
        raw,
        obs: out.obs,
        value: out.value,
        slices: out.slices,
        nontrivial: nt,
        binding_ok: std::sync::OnceLock::new(),
        obs_loose: std::sync::OnceLock::new(),
    })
}

fn binding_ok(source: &str, b: &Base, ctx: &Ctx) -> Option<bool> {
    *b.binding_ok.get_or_init(|| {
        let src = in_place(source, &format!("&{}", IN_PLACE_VAR))?;
        match run_source(&src, ctx, HashMap::new()) {
            Ok(o) => Some(o.key() == b.obs.key()),
            Err(_) => None,
        }
    })
}

fn has_ref(v: &Value) -> bool {
    let mut k = (false, false, false);
    canon::opaque_kinds(v, &mut k);
    k.2
}

pub struct Ctx {
    pub builtins: BuiltinRegistry<E>,
    pub pool: Vec<PoolItem>,
    pub quiv: Option<PathBuf>,
    pub tmp: PathBuf,
    pub tmp_counter: AtomicU64,
    /// Path classes switched off after a failure flood (written only between stages).
    pub disabled: std::sync::RwLock<BTreeSet<String>>,
}

pub struct PoolItem {
    pub source: String,
    pub shaken: bool,
    pub bytecode: Bytecode,
    pub obs: Obs,
}

impl Ctx {
    pub fn new() -> Result<Ctx, String> {
        let builtins = qcompile::core_builtins();
        let mut pool = vec![];
        for (src, shaken) in POOL {
            let b = base(src, &builtins).map_err(|e| format!("pool program {:?}: {:?}", src, e))?;
            if !b.obs.is_val() {
                return Err(format!("pool program {:?} does not evaluate to a value: {:?}", src, b.obs));
            }
            let bytecode = if *shaken { paths::shake(&b.unit)? } else { b.raw.clone() };
            pool.push(PoolItem {
                source: src.to_string(),
                shaken: *shaken,
                bytecode,
                obs: b.obs,
            });
        }
        let quiv = crate::infra::repo_root().join("target/debug/quiv");
        let tmp = crate::infra::verif_root().join("tmp").join("c10");
        Ok(Ctx {
            builtins,
            pool,
            quiv: if quiv.exists() { Some(quiv) } else { None },
            tmp,
            tmp_counter: AtomicU64::new(0),
            disabled: std::sync::RwLock::new(BTreeSet::new()),
        })
    }

    fn hist_bytecode(&self, h: &Hist) -> Result<Bytecode, String> {
        if let Some(p) = self.pool.iter().find(|p| p.source == h.source && p.shaken == h.shaken) {
            return Ok(p.bytecode.clone());
        }
        let b = base(&h.source, &self.builtins).map_err(|e| format!("history program {:?}: {:?}", h.source, e))?;
        if h.shaken { paths::shake(&b.unit) } else { Ok(b.raw) }
    }
}

/// Ordered sequences without repetition of pool indices, length <= `max_len`, shortest first.
pub fn pool_sequences(n: usize, max_len: usize) -> Vec<Vec<usize>> {
    let mut out: Vec<Vec<usize>> = vec![vec![]];
    let mut frontier: Vec<Vec<usize>> = vec![vec![]];
    for _ in 0..max_len {
        let mut next = vec![];
        for s in &frontier {
            for i in 0..n {
                if !s.contains(&i) {
                    let mut t = s.clone();
                    t.push(i);
                    next.push(t);
                }
            }
        }
        out.extend(next.iter().cloned());
        frontier = next;
    }
    out
}

// ---------------------------------------------------------------------------------------------
// One case = (program, path): expected vs observed

pub enum Verdict {
    Same,
    Differ,
    NotApplicable(String),
}

pub struct CaseOutcome {
    pub expected: Obs,
    pub observed: Obs,
    pub verdict: Verdict,
}

fn judge(expected: Obs, observed: Obs) -> CaseOutcome {
    let verdict = if expected.key() == observed.key() { Verdict::Same } else { Verdict::Differ };
    CaseOutcome { expected, observed, verdict }
}

fn na(expected: &Obs, why: impl Into<String>) -> CaseOutcome {
    CaseOutcome {
        expected: expected.clone(),
        observed: Obs::Unbuildable("n/a".into()),
        verdict: Verdict::NotApplicable(why.into()),
    }
}

const IN_PLACE_VAR: &str = "zz_m";
const MODULE: &str = "zzm";

fn in_place(source: &str, tail: &str) -> Option<String> {
    let (aliases, body) = paths::hoist_aliases(source)?;
    let pre = if aliases.is_empty() { String::new() } else { format!("{}\n", aliases) };
    Some(format!("{}{} = [] {{\n{}\n}}\n{}", pre, IN_PLACE_VAR, body, tail))
}

fn field_of<'v>(b: &'v Base, field: &str) -> Option<&'v Value> {
    let (v, _) = b.value.as_ref()?;
    let Value::Tuple(id, fields) = v else { return None };
    let info = b.raw.tuples.get(*id)?;
    if let Ok(i) = field.parse::<usize>() {
        return fields.get(i);
    }
    let i = info.fields.iter().position(|(n, _)| n.as_deref() == Some(field))?;
    fields.get(i)
}

fn run_source(src: &str, ctx: &Ctx, modules: HashMap<Vec<String>, String>) -> Result<Obs, String> {
    match paths::compile_with(src, &ctx.builtins, modules) {
        Ok(u) => Ok(paths::run_sync(&u.bytecode(), &ctx.builtins).obs),
        Err(qcompile::CompileFail::Panic(p)) => Ok(Obs::Panic(format!("compiler: {}", p))),
        Err(e) => Err(format!("{:?}", e)),
    }
}

static TIMES: std::sync::Mutex<BTreeMap<String, (f64, u64)>> = std::sync::Mutex::new(BTreeMap::new());

fn note_time(class: String, secs: f64) {
    if debug_enabled() {
        let mut t = TIMES.lock().unwrap();
        let e = t.entry(class).or_insert((0.0, 0));
        e.0 += secs;
        e.1 += 1;
    }
}

/// More failing cases than this in one path class (counted at fixed stage boundaries of the
/// enumeration, so deterministically) switch the class off for the remaining stages: the defect
/// is then beyond doubt, and every further case would cost a hang-detection timeout.
pub const FLOOD: u64 = 400;

fn flooded(ctx: &Ctx, class: &str) -> bool {
    ctx.disabled.read().unwrap().contains(class)
}

/// Enumerator entry point (respects the flood switch).
pub fn observe(source: &str, b: &Base, path: &PathSpec, ctx: &Ctx) -> CaseOutcome {
    if flooded(ctx, &path.class()) {
        return na(&b.obs, "FLOOD");
    }
    let t = std::time::Instant::now();
    let r = observe_inner(source, b, path, ctx);
    note_time(path.class(), t.elapsed().as_secs_f64());
    r
}

/// One case, unconditionally (shrinker, replay).
pub fn observe_case(source: &str, b: &Base, path: &PathSpec, ctx: &Ctx) -> CaseOutcome {
    observe_inner(source, b, path, ctx)
}

fn update_flood(ctx: &Ctx, c: &Counters, caps_hit: &mut Vec<String>, stage: &str) {
    let mut d = ctx.disabled.write().unwrap();
    for (k, v) in &c.m {
        if let Some(class) = k.strip_prefix("failing:").or_else(|| k.strip_prefix("history_failed:")) {
            if *v > FLOOD && !d.contains(class) {
                d.insert(class.to_string());
                caps_hit.push(format!("path class {} switched off after {} failing cases (checked at the end of {})", class, v, stage));
            }
        }
    }
}

fn observe_inner(source: &str, b: &Base, path: &PathSpec, ctx: &Ctx) -> CaseOutcome {
    let expected = b.obs.clone();
    match path {
        PathSpec::Shake => match paths::shake(&b.unit) {
            Err(p) => judge(expected, Obs::Panic(format!("in tree_shake: {}", p))),
            Ok(bc) => judge(expected, paths::run_sync_within(&bc, &ctx.builtins, paths::slice_limit(b.slices)).obs),
        },
        PathSpec::Json { shaken, pretty } => {
            let bc = if *shaken {
                match paths::shake(&b.unit) {
                    Ok(bc) => bc,
                    Err(p) => return judge(expected, Obs::Panic(format!("in tree_shake: {}", p))),
                }
            } else {
                b.raw.clone()
            };
            match paths::guarded(|| paths::json_round_trip(&bc, *pretty)) {
                Err(p) => judge(expected, Obs::Panic(format!("in serde: {}", p))),
                Ok(Err(m)) => judge(expected, Obs::Broken(m)),
                Ok(Ok(back)) => judge(expected, paths::run_sync_within(&back, &ctx.builtins, paths::slice_limit(b.slices)).obs),
            }
        }
        PathSpec::Entry { wrapper, json } => {
            let Some(w) = Wrapper::from_name(wrapper) else { return na(&expected, "unknown wrapper") };
            if w == Wrapper::ValueCapture {
                if let Some((v, _)) = &b.value {
                    if has_ref(v) {
                        return na(&expected, "ref in captured value (cannot be re-emitted as instructions)");
                    }
                }
            }
            let Some(wrapped) = paths::wrap(source, w) else {
                return na(&expected, "type aliases are not a hoistable prefix");
            };
            if w == Wrapper::ValueCapture {
                match binding_ok(source, b, ctx) {
                    Some(true) => {}
                    Some(false) => return na(&expected, "BINDING-FORM-UNRELIABLE: `v = [] { P }, &v` differs from P without any packaging"),
                    None => return na(&expected, "wrapper does not compile"),
                }
            }
            let bc = match paths::package_entry(&wrapped, &ctx.builtins) {
                Ok((bc, _)) => bc,
                Err(Obs::Unbuildable(m)) => return na(&expected, m),
                Err(o) => return judge(expected, o),
            };
            let bc = if *json {
                match paths::guarded(|| paths::json_round_trip(&bc, true)) {
                    Err(p) => return judge(expected, Obs::Panic(format!("in serde: {}", p))),
                    Ok(Err(m)) => return judge(expected, Obs::Broken(m)),
                    Ok(Ok(back)) => back,
                }
            } else {
                bc
            };
            match Host::new() {
                Err(e) => na(&expected, format!("machinery: {}", e)),
                Ok(mut h) => {
                    h.limit = paths::action_limit(b.slices);
                    judge(expected, h.run(bc))
                }
            }
        }
        PathSpec::Merge { history, shaken } => {
            let mut h = match Host::new() {
                Ok(h) => h,
                Err(e) => return na(&expected, format!("machinery: {}", e)),
            };
            for item in history {
                match ctx.hist_bytecode(item) {
                    Ok(bc) => {
                        let _ = h.run(bc);
                    }
                    Err(e) => return na(&expected, e),
                }
            }
            let bc = if *shaken {
                match paths::shake(&b.unit) {
                    Ok(bc) => bc,
                    Err(p) => return judge(expected, Obs::Panic(format!("in tree_shake: {}", p))),
                }
            } else {
                b.raw.clone()
            };
            h.limit = paths::action_limit(b.slices);
            judge(expected, h.run(bc))
        }
        PathSpec::Repl { history } => {
            let expected = b.loose();
            let mut r = match Repl::new(HashMap::new()) {
                Ok(r) => r,
                Err(e) => return na(&expected, format!("machinery: {}", e)),
            };
            for line in history {
                match r.eval(line) {
                    LineEnd::Obs(Obs::Val(..)) | LineEnd::NoCode => {}
                    LineEnd::Obs(o) => return na(&expected, format!("HISTORY-FAILED line {:?} gave {}", line, o.key())),
                    LineEnd::Rejected(m) => return na(&expected, format!("HISTORY-FAILED line {:?} rejected: {}", line, m)),
                }
            }
            match r.eval("[]") {
                LineEnd::Obs(Obs::Val(..)) => {}
                _ => return na(&expected, "reset line failed"),
            }
            r.limit = paths::action_limit(b.slices);
            match r.eval(source) {
                LineEnd::Obs(o) => judge(expected, o),
                LineEnd::NoCode => na(&expected, "no executable code"),
                LineEnd::Rejected(m) => judge(expected, Obs::Broken(format!("REPL rejected the line: {}", m))),
            }
        }
        PathSpec::Import { form, fields, arg } => observe_import(source, b, form, fields, arg.as_deref(), ctx),
        PathSpec::Binary { wrapper, mode } => observe_binary(source, b, wrapper, mode, ctx),
    }
}

/// The import forms (module `%zzm` = the program's source, in memory):
/// * `whole`      `&%zzm`                                  vs the body's own value
/// * `member`     `[&%zzm.f1, .., &%zzm.fk]`               vs the fields of the body's own value
/// * `flow-nil`   `[] %zzm`                                vs `zz_m = [] { body }, [] zz_m`
/// * `destructure` `(f1, .., fk) = %zzm, [&f1, .., &fk]`   vs the same with `zz_m`
/// * `star`       `* = %zzm, [&f1, .., &fk]`               vs the same with `zz_m`
/// * `flow-nil-member` `[] %zzm.f`                         vs `[] zz_m.f`
/// * `applied`    `ARG %zzm.f`                             vs `ARG zz_m.f`
/// The in-place side is only used after checking that binding the body's value to a variable
/// reproduces the body's own value (see `binding_ok`).
fn observe_import(source: &str, b: &Base, form: &str, fields: &[String], arg: Option<&str>, ctx: &Ctx) -> CaseOutcome {
    let expected_body = b.obs.clone();
    let Some((v, heap)) = &b.value else { return na(&expected_body, "module body has no value") };
    if has_ref(v) {
        return na(&expected_body, "ref in module value (documented: cannot use ref in constant context)");
    }
    let mut modules = HashMap::new();
    modules.insert(vec![MODULE.to_string()], source.to_string());
    let m = format!("%{}", MODULE);
    let z = IN_PLACE_VAR;
    let refs = |prefix: &str| -> String {
        format!("[{}]", fields.iter().map(|f| format!("&{}{}", prefix, f)).collect::<Vec<_>>().join(", "))
    };
    // (import-side program, in-place tail or None when the expectation is taken from the value)
    let (import_src, tail): (String, Option<String>) = match form {
        "whole" if fields.is_empty() => (format!("&{}", m), None),
        "member" if !fields.is_empty() => (refs(&format!("{}.", m)), None),
        "flow-nil" if fields.is_empty() => (format!("[] {}", m), Some(format!("[] {}", z))),
        "destructure" if !fields.is_empty() => (
            format!("({}) = {}, {}", fields.join(", "), m, refs("")),
            Some(format!("({}) = {}, {}", fields.join(", "), z, refs(""))),
        ),
        "star" if !fields.is_empty() => (format!("* = {}, {}", m, refs("")), Some(format!("* = {}, {}", z, refs("")))),
        "flow-nil-member" if fields.len() == 1 => (format!("[] {}.{}", m, fields[0]), Some(format!("[] {}.{}", z, fields[0]))),
        "applied" if fields.len() == 1 => {
            let a = arg.unwrap_or("1");
            (format!("{} {}.{}", a, m, fields[0]), Some(format!("{} {}.{}", a, z, fields[0])))
        }
        _ => return na(&expected_body, "form not applicable"),
    };
    let expectation: Result<Obs, String> = match &tail {
        None => {
            if fields.is_empty() {
                Ok(expected_body.clone())
            } else {
                let mut parts = vec![];
                for f in fields {
                    let Some(fv) = field_of(b, f) else { return na(&expected_body, "no such field") };
                    parts.push(paths::render_against(Tables::of_bytecode(&b.raw), fv, heap));
                }
                Ok(Obs::Val(format!("[{}]", parts.join(", ")), String::new()))
            }
        }
        Some(t) => {
            match binding_ok(source, b, ctx) {
                Some(true) => {}
                Some(false) => return na(&expected_body, "BINDING-FORM-UNRELIABLE: `v = [] { P }, &v` differs from P without any packaging"),
                None => return na(&expected_body, "in-place form cannot be built (aliases not hoistable)"),
            }
            match in_place(source, t) {
                Some(s) => run_source(&s, ctx, HashMap::new()),
                None => return na(&expected_body, "aliases not hoistable"),
            }
        }
    };
    let observed = run_source(&import_src, ctx, modules);
    match (expectation, observed) {
        (Ok(e), Ok(o)) => judge(e, o),
        (Err(_), Err(_)) => na(&expected_body, "rejected both in place and imported"),
        (Ok(e), Err(m)) => CaseOutcome {
            expected: e,
            observed: Obs::Unbuildable(format!("import form rejected: {}", m)),
            verdict: Verdict::NotApplicable(format!("STATIC-DISAGREEMENT in-place accepted, import rejected: {}", m)),
        },
        (Err(m), Ok(o)) => CaseOutcome {
            expected: Obs::Unbuildable(format!("in-place form rejected: {}", m)),
            observed: o,
            verdict: Verdict::NotApplicable(format!("STATIC-DISAGREEMENT import accepted, in-place rejected: {}", m)),
        },
    }
}

fn normalise_repo_format(s: &str) -> String {
    // function values print as `#<index>` and builtins as `__<index>__`; indices change under
    // packaging, so they are blanked on both sides.
    let b = s.as_bytes();
    let mut out = String::new();
    let mut i = 0;
    while i < b.len() {
        if b[i] == b'#' && b.get(i + 1).map(|c| c.is_ascii_digit()).unwrap_or(false) {
            out.push_str("#_");
            i += 1;
            while i < b.len() && b[i].is_ascii_digit() {
                i += 1;
            }
        } else if b[i] == b'_' && b.get(i + 1) == Some(&b'_') && b.get(i + 2).map(|c| c.is_ascii_digit()).unwrap_or(false) {
            let mut j = i + 2;
            while j < b.len() && b[j].is_ascii_digit() {
                j += 1;
            }
            if b.get(j) == Some(&b'_') && b.get(j + 1) == Some(&b'_') {
                out.push_str("___");
                i = j + 2;
            } else {
                out.push('_');
                i += 1;
            }
        } else {
            out.push(b[i] as char);
            i += 1;
        }
    }
    out
}

fn run_quiv(quiv: &PathBuf, args: &[&str]) -> Result<(i32, String, String), String> {
    use std::process::{Command, Stdio};
    let mut child = Command::new(quiv)
        .args(args)
        .env("NO_COLOR", "1")
        .stdin(Stdio::null())
        .stdout(Stdio::piped())
        .stderr(Stdio::piped())
        .spawn()
        .map_err(|e| format!("spawn quiv: {}", e))?;
    let deadline = std::time::Instant::now() + std::time::Duration::from_secs(20);
    loop {
        match child.try_wait() {
            Ok(Some(_)) => break,
            Ok(None) => {
                if std::time::Instant::now() > deadline {
                    let _ = child.kill();
                    let _ = child.wait();
                    return Ok((-9, String::new(), "watchdog: killed after 20 s".into()));
                }
                std::thread::sleep(std::time::Duration::from_millis(2));
            }
            Err(e) => return Err(format!("wait quiv: {}", e)),
        }
    }
    let out = child.wait_with_output().map_err(|e| format!("quiv output: {}", e))?;
    Ok((
        out.status.code().unwrap_or(-1),
        String::from_utf8_lossy(&out.stdout).to_string(),
        String::from_utf8_lossy(&out.stderr).to_string(),
    ))
}

/// What the CLI is documented (by its own code) to print for an observation.
fn cli_expectation(o: &Obs) -> Option<String> {
    match o {
        Obs::Val(canon, own) => Some(if canon == "[]" {
            "exit=1 stdout=".to_string()
        } else if canon == "Ok" {
            "exit=0 stdout=".to_string()
        } else {
            format!("exit=0 stdout={}", normalise_repo_format(own))
        }),
        Obs::Err(kind, _) => Some(format!("exit=1 error={}", kind)),
        _ => None,
    }
}

fn cli_observation(code: i32, stdout: &str, stderr: &str) -> String {
    if code == 0 || (code == 1 && stderr.trim().is_empty()) {
        format!("exit={} stdout={}", code, normalise_repo_format(stdout.trim_end_matches('\n')))
    } else {
        // Error: "Runtime error: InvalidArgument(\"Division by zero\")"
        let kind = stderr
            .split("error: ")
            .nth(1)
            .map(|s| s.split(|c: char| !c.is_alphanumeric()).next().unwrap_or("").to_string())
            .unwrap_or_else(|| format!("?{}", stderr.trim()));
        format!("exit={} error={}", code, kind)
    }
}

fn observe_binary(source: &str, b: &Base, wrapper: &str, mode: &str, ctx: &Ctx) -> CaseOutcome {
    let expected = b.obs.clone();
    let Some(quiv) = &ctx.quiv else { return na(&expected, "quiv binary missing") };
    let Some(w) = Wrapper::from_name(wrapper) else { return na(&expected, "unknown wrapper") };
    if let Some((v, _)) = &b.value {
        if has_ref(v) {
            return na(&expected, "ref in result");
        }
    }
    let Some(wrapped) = paths::wrap(source, w) else { return na(&expected, "aliases not hoistable") };
    if w == Wrapper::ValueCapture && binding_ok(source, b, ctx) != Some(true) {
        return na(&expected, "BINDING-FORM-UNRELIABLE or not buildable");
    }
    if paths::compile(&wrapped, &ctx.builtins).is_err() {
        return na(&expected, "wrapper does not compile");
    }
    let Some(exp) = cli_expectation(&expected) else { return na(&expected, "no CLI expectation") };
    let got = match mode {
        "run-e" => run_quiv(quiv, &["run", "-e", &wrapped]),
        "compile-run" => {
            let _ = std::fs::create_dir_all(&ctx.tmp);
            let n = ctx.tmp_counter.fetch_add(1, Ordering::Relaxed);
            let file = ctx.tmp.join(format!("p{}_{}.qx", std::process::id(), n));
            let f = file.to_string_lossy().to_string();
            let r = match run_quiv(quiv, &["compile", "-e", &wrapped, "-o", &f]) {
                Ok((0, _, _)) => run_quiv(quiv, &["run", &f]),
                Ok((code, out, err)) => {
                    // `quiv compile` falls back to entry-less bytecode when the source does not
                    // evaluate to a function (e.g. its evaluation failed); report that stage.
                    Ok((code, out, err))
                }
                Err(e) => Err(e),
            };
            let _ = std::fs::remove_file(&file);
            r
        }
        _ => return na(&expected, "unknown mode"),
    };
    match got {
        Err(e) => na(&expected, format!("machinery: {}", e)),
        Ok((code, out, err)) => {
            let obs = cli_observation(code, &out, &err);
            // `quiv compile` of a value-capture wrapper whose body fails at run time silently
            // writes entry-less bytecode; `quiv run` then reports "Bytecode has no entry point".
            if mode == "compile-run" && matches!(expected, Obs::Err(..)) && w == Wrapper::ValueCapture && err.contains("no entry point") {
                return na(&expected, "compile falls back to entry-less bytecode when evaluation fails");
            }
            if obs == exp {
                judge(expected.clone(), expected)
            } else {
                CaseOutcome {
                    expected: Obs::Broken(format!("the CLI should print `{}` (as compiled: {})", exp, expected.key())),
                    observed: Obs::Broken(format!("quiv printed `{}` (stderr: {})", obs, err.trim())),
                    verdict: Verdict::Differ,
                }
            }
        }
    }
}

// ---------------------------------------------------------------------------------------------
// Enumeration

#[derive(Clone, Debug)]
pub struct Failure {
    pub source: String,
    pub origin: String,
    pub path: PathSpec,
    pub expected: String,
    pub observed: String,
}

#[derive(Default, Clone)]
pub struct Counters {
    pub m: BTreeMap<String, u64>,
}

impl Counters {
    pub fn add(&mut self, k: &str, n: u64) {
        *self.m.entry(k.to_string()).or_insert(0) += n;
    }
    pub fn merge(&mut self, o: &Counters) {
        for (k, v) in &o.m {
            *self.m.entry(k.clone()).or_insert(0) += v;
        }
    }
    pub fn get(&self, k: &str) -> u64 {
        self.m.get(k).copied().unwrap_or(0)
    }
}

#[derive(Default)]
struct Acc {
    c: Counters,
    failures: Vec<Failure>,
    static_disagreements: Vec<String>,
    unreliable: Vec<String>,
    samples: Vec<J>,
    stored: BTreeMap<String, usize>,
}

/// Failing cases are always *counted*; only this many per path class are kept (per task / in
/// total, in enumeration order) for shrinking, so that a defect that breaks everything cannot
/// exhaust memory or time.
const MAX_STORED_PER_CLASS_PER_TASK: usize = 6;
const MAX_STORED_PER_CLASS: usize = 400;

impl Acc {
    fn merge(&mut self, o: Acc) {
        self.c.merge(&o.c);
        for f in o.failures {
            let class = f.path.class();
            let n = self.stored.entry(class).or_insert(0);
            if *n < MAX_STORED_PER_CLASS {
                *n += 1;
                self.failures.push(f);
            }
        }
        self.static_disagreements.extend(o.static_disagreements);
        self.unreliable.extend(o.unreliable);
        self.samples.extend(o.samples);
    }
}

fn record(acc: &mut Acc, item: &Item, path: &PathSpec, out: CaseOutcome) {
    match out.verdict {
        Verdict::Same => {
            acc.c.add("evaluations", 1);
            acc.c.add(&format!("path:{}", path.class()), 1);
        }
        Verdict::Differ => {
            acc.c.add("evaluations", 1);
            acc.c.add(&format!("path:{}", path.class()), 1);
            acc.c.add("failing_cases", 1);
            acc.c.add(&format!("failing:{}", path.class()), 1);
            let class = path.class();
            if acc.failures.iter().filter(|f| f.path.class() == class).count() >= MAX_STORED_PER_CLASS_PER_TASK {
                return;
            }
            acc.failures.push(Failure {
                source: item.source.clone(),
                origin: item.origin.clone(),
                path: path.clone(),
                expected: out.expected.show(),
                observed: out.observed.show(),
            });
        }
        Verdict::NotApplicable(why) => {
            if why.starts_with("STATIC-DISAGREEMENT") {
                acc.c.add("import_static_disagreements", 1);
                if acc.static_disagreements.len() < 5 {
                    acc.static_disagreements.push(format!("{} [{}]: {}", item.source, path.label(), why));
                }
            } else if why.starts_with("HISTORY-FAILED") {
                // the history itself misbehaved (its members are judged as programs of their own)
                acc.c.add(&format!("history_failed:{}", path.class()), 1);
            } else if why == "FLOOD" {
                acc.c.add(&format!("skipped_after_flood:{}", path.class()), 1);
            } else if why.starts_with("BINDING-FORM-UNRELIABLE") {
                acc.c.add("na:binding_form_unreliable (adjacent defect, not packaging)", 1);
                if acc.unreliable.len() < 3 && !acc.unreliable.contains(&item.source) {
                    acc.unreliable.push(item.source.clone());
                }
            } else {
                let short: String = why.chars().take(60).collect();
                let key = if why.starts_with("machinery") { "machinery".to_string() } else { short };
                acc.c.add(&format!("na:{}:{}", path.class().split('(').next().unwrap_or(""), key.split(':').next().unwrap_or("")), 1);
            }
        }
    }
}

/// Top-level fields of the program's value: (accessor, is labelled, is callable).
fn value_fields(b: &Base) -> Vec<(String, bool, bool)> {
    let Some((Value::Tuple(id, fields), _)) = &b.value else { return vec![] };
    let Some(info) = b.raw.tuples.get(*id) else { return vec![] };
    let mut out = vec![];
    for (i, (name, _)) in info.fields.iter().enumerate() {
        let callable = matches!(fields.get(i), Some(Value::Function(..)) | Some(Value::Builtin(_)));
        match name {
            Some(n) => out.push((n.clone(), true, callable)),
            None => out.push((i.to_string(), false, callable)),
        }
    }
    out
}

const APPLY_ARGS: &[&str] = &["1", "[1, 2]", "\"a\""];

/// What a tier runs (every number is part of the stated universe and is reported).
#[derive(Clone, Debug)]
pub struct Plan {
    /// pool-sequence length for corpus programs without imports (fresh environment each)
    pub seq_len_light: usize,
    /// ... for corpus/std programs with imports: direct merges
    pub seq_len_heavy_direct: usize,
    /// ... REPL variant (None = not run: every REPL line recompiles the imported modules)
    pub seq_len_heavy_repl: Option<usize>,
    /// pool-sequence length for the generated programs (chunked): direct merges / REPL lines
    pub seq_len_generated: usize,
    pub seq_len_generated_repl: usize,
    /// run the recompiling single-program paths (wrappers, imports) for importing programs
    pub heavy_recompile_paths: bool,
    /// fields per batch import form / single-field forms per program
    pub batch_fields: usize,
    pub single_fields: usize,
    pub binary_subset: usize,
    pub budget_s: f64,
}

impl Plan {
    pub fn of(tier: Tier) -> Plan {
        let mut p = match tier {
            Tier::Quick => Plan {
                seq_len_light: 2,
                seq_len_heavy_direct: 1,
                seq_len_heavy_repl: None,
                seq_len_generated: 1,
                seq_len_generated_repl: 0,
                heavy_recompile_paths: false,
                batch_fields: 8,
                single_fields: 2,
                binary_subset: 24,
                budget_s: 24.0,
            },
            Tier::Thorough => Plan {
                seq_len_light: 3,
                seq_len_heavy_direct: 2,
                seq_len_heavy_repl: Some(1),
                seq_len_generated: 3,
                seq_len_generated_repl: 1,
                heavy_recompile_paths: true,
                batch_fields: 64,
                single_fields: 6,
                binary_subset: 72,
                budget_s: 600.0,
            },
        };
        // development aid (the machine may be shared): stretch the wall-clock cap only
        if let Some(x) = std::env::var("QV_C10_BUDGET_S").ok().and_then(|s| s.parse::<f64>().ok()) {
            p.budget_s = x;
        }
        p
    }
}

/// REPL variant of a sequence set: the importing pool program (last pool entry) only as the
/// singleton sequence.
fn repl_seqs(seqs: &[Vec<usize>]) -> Vec<Vec<usize>> {
    let importing = POOL.len() - 1;
    seqs.iter().filter(|s| s.len() <= 1 || !s.contains(&importing)).cloned().collect()
}

fn is_heavy(item: &Item) -> bool {
    corpus::strip_strings_and_comments(&item.source).contains('%')
}

/// All single-program paths (b, c, d, f) for one item.
fn check_item_simple(item: &Item, b: &Base, ctx: &Ctx, plan: &Plan, acc: &mut Acc) {
    let mut specs: Vec<PathSpec> = vec![
        PathSpec::Shake,
        PathSpec::Json { shaken: false, pretty: false },
        PathSpec::Json { shaken: true, pretty: false },
        PathSpec::Json { shaken: true, pretty: true },
    ];
    let recompile = plan.heavy_recompile_paths || !is_heavy(item);
    if !recompile {
        acc.c.add("tier_skip:recompiling_paths_for_importing_program", 1);
    }
    if recompile {
        for w in Wrapper::all() {
            specs.push(PathSpec::Entry { wrapper: w.name().into(), json: true });
        }
        if b.obs.is_val() {
            specs.push(PathSpec::Import { form: "whole".into(), fields: vec![], arg: None });
            specs.push(PathSpec::Import { form: "flow-nil".into(), fields: vec![], arg: None });
            let fs = value_fields(b);
            let all: Vec<String> = fs.iter().take(plan.batch_fields).map(|f| f.0.clone()).collect();
            let labelled: Vec<String> = fs.iter().filter(|f| f.1).take(plan.batch_fields).map(|f| f.0.clone()).collect();
            if !all.is_empty() {
                specs.push(PathSpec::Import { form: "member".into(), fields: all, arg: None });
            }
            if !labelled.is_empty() {
                specs.push(PathSpec::Import { form: "destructure".into(), fields: labelled.clone(), arg: None });
                specs.push(PathSpec::Import { form: "star".into(), fields: labelled, arg: None });
            }
            for (f, _, callable) in fs.iter().take(plan.single_fields) {
                specs.push(PathSpec::Import { form: "flow-nil-member".into(), fields: vec![f.clone()], arg: None });
                if *callable {
                    for a in APPLY_ARGS {
                        specs.push(PathSpec::Import { form: "applied".into(), fields: vec![f.clone()], arg: Some(a.to_string()) });
                    }
                }
            }
        }
    }
    for p in specs {
        let out = observe(&item.source, b, &p, ctx);
        record(acc, item, &p, out);
    }
}

/// (e) with a fresh environment per (program, pool sequence): exact histories.
fn check_item_merges(item: &Item, b: &Base, ctx: &Ctx, direct: &[Vec<usize>], repl: &[Vec<usize>], acc: &mut Acc) {
    let hist_of = |s: &[usize]| -> Vec<Hist> {
        s.iter().map(|i| Hist { source: ctx.pool[*i].source.clone(), shaken: ctx.pool[*i].shaken }).collect()
    };
    for s in direct {
        let history = hist_of(s);
        for shaken in [false, true] {
            if flooded(ctx, &PathSpec::Merge { history: vec![], shaken }.class()) {
                acc.c.add("skipped_after_flood:merge", 1);
                continue;
            }
            let mut h = match Host::new() {
                Ok(h) => h,
                Err(_) => {
                    acc.c.add("na:merge:machinery", 1);
                    continue;
                }
            };
            // the pool programs themselves are also programs merged after a history
            for (k, i) in s.iter().enumerate() {
                let o = h.run(ctx.pool[*i].bytecode.clone());
                acc.c.add("evaluations", 1);
                acc.c.add("path:merge(pool-member)", 1);
                if o.key() != ctx.pool[*i].obs.key() {
                    acc.c.add("failing_cases", 1);
                    acc.c.add("failing:merge(pool-member)", 1);
                    if acc.failures.len() >= 4 * MAX_STORED_PER_CLASS_PER_TASK {
                        continue;
                    }
                    acc.failures.push(Failure {
                        source: ctx.pool[*i].source.clone(),
                        origin: format!("pool#{}", i),
                        path: PathSpec::Merge { history: history[..k].to_vec(), shaken: ctx.pool[*i].shaken },
                        expected: ctx.pool[*i].obs.show(),
                        observed: o.show(),
                    });
                }
            }
            let bc = if shaken {
                match paths::shake(&b.unit) {
                    Ok(bc) => bc,
                    Err(_) => continue, // reported by the Shake path
                }
            } else {
                b.raw.clone()
            };
            h.limit = paths::action_limit(b.slices);
            let o = h.run(bc);
            record(acc, item, &PathSpec::Merge { history: history.clone(), shaken }, judge(b.obs.clone(), o));
        }
    }
    for s in repl {
        let lines: Vec<String> = hist_of(s).into_iter().map(|h| h.source).collect();
        let p = PathSpec::Repl { history: lines };
        let out = observe(&item.source, b, &p, ctx);
        record(acc, item, &p, out);
    }
}

/// (e1) for the generated programs: one environment per (chunk, pool sequence); the history of a
/// program is the pool sequence followed by the preceding programs of its chunk. As-compiled
/// bytecode at even chunk positions, shaken bytecode at odd ones.
fn check_chunk_direct(chunk: &[(&Item, &Base)], ctx: &Ctx, s: &[usize], acc: &mut Acc) {
    let pool_hist: Vec<Hist> = s
        .iter()
        .map(|i| Hist { source: ctx.pool[*i].source.clone(), shaken: ctx.pool[*i].shaken })
        .collect();
    if flooded(ctx, "merge(as-compiled)") || flooded(ctx, "merge(shaken)") {
        acc.c.add("skipped_after_flood:merge", chunk.len() as u64);
        return;
    }
    let Ok(mut h) = Host::new() else {
        acc.c.add("na:merge:machinery", 1);
        return;
    };
    for i in s {
        let _ = h.run(ctx.pool[*i].bytecode.clone());
    }
    let mut hist = pool_hist.clone();
    for (k, (item, b)) in chunk.iter().enumerate() {
        let shaken = k % 2 == 1;
        let bc = if shaken {
            match paths::shake(&b.unit) {
                Ok(bc) => bc,
                Err(_) => continue,
            }
        } else {
            b.raw.clone()
        };
        h.limit = paths::action_limit(b.slices);
        let o = h.run(bc);
        let path = PathSpec::Merge { history: hist.clone(), shaken };
        // (a failing case is re-run from scratch, exactly as a replay does, by the shrinker before
        // it is reported)
        record(acc, item, &path, judge(b.obs.clone(), o));
        hist.push(Hist { source: item.source.clone(), shaken });
    }
}

/// (e2) for the generated programs: one REPL session per (chunk, pool sequence).
fn check_chunk_repl(chunk: &[(&Item, &Base)], ctx: &Ctx, s: &[usize], acc: &mut Acc) {
    if flooded(ctx, "repl-merge") {
        acc.c.add("skipped_after_flood:repl-merge", chunk.len() as u64);
        return;
    }
    let mut lines: Vec<String> = s.iter().map(|i| ctx.pool[*i].source.clone()).collect();
    let fresh = |lines: &[String]| -> Option<Repl> {
        let mut r = Repl::new(HashMap::new()).ok()?;
        for l in lines {
            match r.eval(l) {
                LineEnd::Obs(Obs::Val(..)) | LineEnd::NoCode => {}
                _ => return None,
            }
        }
        Some(r)
    };
    let Some(mut r) = fresh(&lines) else {
        acc.c.add("na:repl:machinery", 1);
        return;
    };
    for (item, b) in chunk {
        let path = PathSpec::Repl { history: lines.clone() };
        if !b.obs.is_val() {
            // a runtime error ends a session: give such programs a session of their own
            let out = observe(&item.source, b, &path, ctx);
            record(acc, item, &path, out);
            continue;
        }
        let expected = b.loose();
        let ok = matches!(r.eval("[]"), LineEnd::Obs(Obs::Val(..)));
        let out = if !ok {
            na(&expected, "machinery: reset line failed")
        } else {
            r.limit = paths::action_limit(b.slices);
            match r.eval(&item.source) {
                LineEnd::Obs(o) => judge(expected.clone(), o),
                LineEnd::NoCode => na(&expected, "no executable code"),
                LineEnd::Rejected(m) => judge(expected.clone(), Obs::Broken(format!("REPL rejected the line: {}", m))),
            }
        };
        if matches!(out.verdict, Verdict::Differ) {
            record(acc, item, &path, out);
            // the session may be dead after an unexpected error: restart with the same history
            match fresh(&lines) {
                Some(nr) => r = nr,
                None => return,
            }
            continue; // the failing line does not join the history
        }
        record(acc, item, &path, out);
        lines.push("[]".to_string());
        lines.push(item.source.clone());
    }
}

// ---------------------------------------------------------------------------------------------

fn build_universe(tier: Tier, c: &mut Counters, info: &mut serde_json::Map<String, J>) -> Result<Vec<Item>, String> {
    let repo = crate::infra::repo_root();
    let (tests, stats) = corpus::test_corpus(&repo)?;
    info.insert(
        "corpus_scan".into(),
        json!({
            "files": stats.files, "evaluate_calls": stats.evaluate_calls, "plain_literals": stats.plain_literals,
            "format_templates_skipped": stats.format_templates, "other_non_literal_skipped": stats.other_non_literal,
            "then_evaluate_calls_not_used": stats.then_evaluate_calls, "duplicate_literals": stats.duplicates,
        }),
    );
    let mut items = vec![];
    let mut excluded: BTreeMap<&'static str, u64> = BTreeMap::new();
    for t in tests {
        match corpus::exclusion(&t.source) {
            Some(why) => *excluded.entry(why).or_insert(0) += 1,
            None => items.push(Item { origin: t.origin, class: "corpus", source: t.source }),
        }
    }
    info.insert("corpus_excluded_syntactically".into(), json!(excluded));
    for m in corpus::std_modules(&repo)? {
        items.push(Item { origin: m.origin, class: "std", source: m.source });
    }
    let max_n = 3;
    let mut g = grammar::Gen::default();
    let mut per_n = vec![];
    for n in 1..=max_n {
        let ps = g.programs(n);
        per_n.push(ps.len());
        for p in ps {
            items.push(Item { origin: format!("grammar n={}", n), class: "grammar", source: p });
        }
    }
    info.insert("grammar_candidates_per_n".into(), json!(per_n));
    let _ = tier;
    let core_n = 2;
    info.insert("context_core_max_nodes".into(), json!(core_n));
    let mut n_ctx = 0u64;
    for n in 1..=core_n {
        for core in g.programs(n) {
            for (name, ctx) in grammar::CONTEXTS {
                items.push(Item { origin: format!("context {} core n={}", name, n), class: "context", source: grammar::embed(&core, ctx) });
                n_ctx += 1;
            }
        }
    }
    info.insert("context_candidates".into(), json!(n_ctx));
    for (i, (src, _)) in POOL.iter().enumerate() {
        items.push(Item { origin: format!("pool#{}", i), class: "corpus", source: src.to_string() });
    }
    let fam = grammar::module_family();
    info.insert("module_family_candidates".into(), json!(fam.len()));
    for m in fam {
        items.push(Item { origin: "module-family".into(), class: "module-family", source: m });
    }
    // dedup by source text (first origin wins)
    let mut seen = BTreeSet::new();
    let before = items.len();
    items.retain(|i| seen.insert(i.source.clone()));
    c.add("universe_duplicate_sources", (before - items.len()) as u64);
    Ok(items)
}

fn debug_enabled() -> bool {
    std::env::var_os("QV_C10_DEBUG").is_some()
}

fn show(source: &str) {
    let ctx = Ctx::new().unwrap();
    match base(source, &ctx.builtins) {
        Err(e) => println!("no reference: {:?}", e),
        Ok(b) => {
            println!("as compiled: {}", b.obs.show());
            if std::env::var_os("QV_C10_SHOW_BC").is_some() {
                println!("{}", serde_json::to_string(&b.raw).unwrap());
            }
            let c = canon::Canon::new(Tables::of_bytecode(&b.raw));
            for i in 0..b.raw.functions.len() {
                println!("fn {}{}: {} :: {}", i, if Some(i) == b.raw.entry { "*" } else { "" }, c.type_text(b.raw.functions[i].type_id, 0), c.func_listing(i).join("; "));
            }
            let mut specs = vec![PathSpec::Shake, PathSpec::Json { shaken: true, pretty: true }];
            for w in Wrapper::all() {
                specs.push(PathSpec::Entry { wrapper: w.name().into(), json: true });
            }
            specs.push(PathSpec::Merge { history: vec![], shaken: false });
            let hist: Vec<String> = std::env::var("QV_C10_HIST").map(|h| h.split(";;").map(|s| s.trim().to_string()).collect()).unwrap_or_default();
            if !hist.is_empty() {
                // dump the listing of the function the REPL returns
                let mut r = Repl::new(HashMap::new()).unwrap();
                for l in &hist {
                    let _ = r.eval(l);
                }
                let _ = r.eval("[]");
                let _ = r.eval(source);
                let s = r.s.as_ref().unwrap();
                let prog = s.sys.env.get_program();
                let c = canon::Canon::new(Tables::of_program(prog));
                for i in 0..prog.get_functions().len() {
                    println!("repl env fn {}: {} :: {}", i, c.type_text(prog.get_functions()[i].type_id, 0), c.func_listing(i).join("; "));
                }
            }
            specs.push(PathSpec::Repl { history: hist });
            specs.push(PathSpec::Import { form: "whole".into(), fields: vec![], arg: None });
            specs.push(PathSpec::Import { form: "flow-nil".into(), fields: vec![], arg: None });
            let fs = value_fields(&b);
            let all: Vec<String> = fs.iter().map(|f| f.0.clone()).collect();
            let labelled: Vec<String> = fs.iter().filter(|f| f.1).map(|f| f.0.clone()).collect();
            if !all.is_empty() {
                specs.push(PathSpec::Import { form: "member".into(), fields: all.clone(), arg: None });
            }
            if !labelled.is_empty() {
                specs.push(PathSpec::Import { form: "destructure".into(), fields: labelled.clone(), arg: None });
                specs.push(PathSpec::Import { form: "star".into(), fields: labelled, arg: None });
            }
            for f in all.iter().take(3) {
                specs.push(PathSpec::Import { form: "flow-nil-member".into(), fields: vec![f.clone()], arg: None });
                specs.push(PathSpec::Import { form: "applied".into(), fields: vec![f.clone()], arg: Some("1".into()) });
            }
            for w in [Wrapper::Entry, Wrapper::ValueCapture] {
                for m in ["run-e", "compile-run"] {
                    specs.push(PathSpec::Binary { wrapper: w.name().into(), mode: m.into() });
                }
            }
            for p in specs {
                let out = observe(source, &b, &p, &ctx);
                let v = match &out.verdict {
                    Verdict::Same => "same".to_string(),
                    Verdict::Differ => "DIFFER".to_string(),
                    Verdict::NotApplicable(w) => format!("n/a: {}", w),
                };
                println!("{:40} {} -> {} | expected {}", p.label(), v, out.observed.show(), out.expected.show());
            }
        }
    }
}

pub fn run(tier: Tier) -> Result<Report, String> {
    if let Ok(src) = std::env::var("QV_C10_SHOW") {
        show(&src);
        std::process::exit(0);
    }
    let pool = rayon::ThreadPoolBuilder::new()
        .stack_size(64 << 20)
        .build()
        .map_err(|e| format!("rayon pool: {}", e))?;
    pool.install(|| run_inner(tier))
}

fn run_inner(tier: Tier) -> Result<Report, String> {
    let plan = Plan::of(tier);
    let budget = Budget::new(plan.budget_s);
    let ctx = Ctx::new()?;
    let mut counters = Counters::default();
    let mut info = serde_json::Map::new();
    let items = build_universe(tier, &mut counters, &mut info)?;
    counters.add("universe_candidates", items.len() as u64);
    info.insert("plan".into(), json!({
        "pool_sequence_max_len": {"corpus_without_imports": plan.seq_len_light, "importing_programs_direct_merge": plan.seq_len_heavy_direct,
            "importing_programs_repl": plan.seq_len_heavy_repl, "generated_programs_direct_merge": plan.seq_len_generated,
            "generated_programs_repl": plan.seq_len_generated_repl,
            "note": "REPL sequences longer than 1 leave out the importing pool program (each session would recompile the std modules)"},
        "recompiling_paths_for_importing_programs": plan.heavy_recompile_paths,
        "import_batch_fields": plan.batch_fields, "import_single_field_forms": plan.single_fields,
        "binary_subset": plan.binary_subset, "wall_clock_cap_s": plan.budget_s,
    }));
    if debug_enabled() {
        eprintln!("[c10] universe {} candidates after {:.1}s", items.len(), budget.elapsed());
    }

    // Phase 0: reference run (as compiled) of every candidate. Importing programs first, one per
    // task (they cost 10-1000x a generated program).
    let bases: Vec<Option<Base>> = {
        let classify = |it: &Item| match base(&it.source, &ctx.builtins) {
            Ok(b) => (Some(b), "accepted", None),
            Err(BaseFail::Rejected(_)) => (None, "rejected_by_compiler", None),
            Err(BaseFail::CompilerPanic(p)) => (None, "compiler_panic_not_judged", Some(p)),
            Err(BaseFail::ReferencePanic(p)) => (None, "reference_run_panic_not_judged", Some(p)),
            Err(BaseFail::TooLong) => (None, "skipped_reference_run_over_budget", None),
            Err(BaseFail::Opaque(_)) => (None, "skipped_process_or_resource_in_result", None),
        };
        let heavy_idx: Vec<usize> = (0..items.len()).filter(|i| matches!(items[*i].class, "corpus" | "std")).collect();
        let light_idx: Vec<usize> = (0..items.len()).filter(|i| !matches!(items[*i].class, "corpus" | "std")).collect();
        let mut slots: Vec<Option<(Option<Base>, &'static str, Option<String>)>> = (0..items.len()).map(|_| None).collect();
        let h: Vec<_> = heavy_idx.par_iter().with_max_len(1).map(|i| (*i, classify(&items[*i]))).collect();
        let l: Vec<_> = light_idx.par_iter().map(|i| (*i, classify(&items[*i]))).collect();
        for (i, r) in h.into_iter().chain(l) {
            slots[i] = Some(r);
        }
        let mut out = vec![];
        let mut notes = vec![];
        for (slot, it) in slots.into_iter().zip(items.iter()) {
            let (b, k, note) = slot.unwrap();
            counters.add(&format!("{}:{}", it.class, k), 1);
            if let Some(n) = note {
                if notes.len() < 5 {
                    notes.push(format!("{}: {} => {}", k, it.source, n));
                }
            }
            out.push(b);
        }
        if !notes.is_empty() {
            info.insert("not_judged_samples".into(), json!(notes));
        }
        out
    };
    let live: Vec<(&Item, &Base)> = items.iter().zip(bases.iter()).filter_map(|(i, b)| b.as_ref().map(|b| (i, b))).collect();
    counters.add("programs_with_reference_value", live.iter().filter(|(_, b)| b.obs.is_val()).count() as u64);
    counters.add("programs_with_reference_runtime_error", live.iter().filter(|(_, b)| !b.obs.is_val()).count() as u64);
    if debug_enabled() {
        eprintln!("[c10] {} live programs after {:.1}s", live.len(), budget.elapsed());
    }

    let mut acc = Acc::default();
    let mut caps_hit: Vec<String> = vec![];
    let exact: Vec<(&Item, &Base)> = live.iter().filter(|(i, _)| i.class == "corpus" || i.class == "std").cloned().collect();
    let generated: Vec<(&Item, &Base)> = live.iter().filter(|(i, _)| !(i.class == "corpus" || i.class == "std")).cloned().collect();
    counters.add("importing_programs", exact.iter().filter(|(i, _)| is_heavy(i)).count() as u64);

    // Phase A: single-program paths (importing programs one per task).
    {
        let run = |(item, b): &(&Item, &Base)| -> Acc {
            let mut a = Acc::default();
            if budget.exhausted() {
                a.c.add("cap:phaseA_programs_not_run", 1);
                return a;
            }
            check_item_simple(item, b, &ctx, &plan, &mut a);
            a.c.add("phaseA_programs", 1);
            a
        };
        let p1: Vec<Acc> = exact.par_iter().with_max_len(1).map(run).collect();
        for p in p1 {
            acc.merge(p);
        }
        update_flood(&ctx, &acc.c, &mut caps_hit, "the corpus stage of the single-program paths");
        for (k, stage) in generated.chunks(STAGE_PROGRAMS).enumerate() {
            let p2: Vec<Acc> = stage.par_iter().with_max_len(16).map(run).collect();
            for p in p2 {
                acc.merge(p);
            }
            update_flood(&ctx, &acc.c, &mut caps_hit, &format!("stage {} ({} generated programs each) of the single-program paths", k, STAGE_PROGRAMS));
        }
    }
    if acc.c.get("cap:phaseA_programs_not_run") > 0 {
        caps_hit.push(format!("wall-clock cap: {} programs skipped in the single-program paths", acc.c.get("cap:phaseA_programs_not_run")));
    }
    if debug_enabled() {
        eprintln!("[c10] phase A done after {:.1}s, {} failures", budget.elapsed(), acc.failures.len());
    }

    // Phase B: corpus / std programs, fresh environment per (program, pool sequence).
    info.insert("pool".into(), json!(POOL.iter().map(|(s, k)| json!({"source": s, "merged_as": if *k {"shaken"} else {"as-compiled"}})).collect::<Vec<_>>()));
    let seqs_of = |len: usize| pool_sequences(ctx.pool.len(), len);
    info.insert("pool_sequences_by_len".into(), json!((0..=3).map(|l| seqs_of(l).len()).collect::<Vec<_>>()));
    {
        let light_seqs = seqs_of(plan.seq_len_light);
        let light_repl = repl_seqs(&light_seqs);
        let heavy_direct = seqs_of(plan.seq_len_heavy_direct);
        let heavy_repl = plan.seq_len_heavy_repl.map(|l| repl_seqs(&seqs_of(l))).unwrap_or_default();
        // one task per (program, slice of sequences) so that the expensive programs spread out
        let mut work: Vec<(usize, Vec<Vec<usize>>, Vec<Vec<usize>>)> = vec![];
        for (k, (item, _)) in exact.iter().enumerate() {
            if is_heavy(item) {
                for c in heavy_direct.chunks(8) {
                    work.push((k, c.to_vec(), vec![]));
                }
                for c in heavy_repl.chunks(2) {
                    work.push((k, vec![], c.to_vec()));
                }
            } else {
                for c in light_seqs.chunks(40) {
                    work.push((k, c.to_vec(), vec![]));
                }
                for c in light_repl.chunks(40) {
                    work.push((k, vec![], c.to_vec()));
                }
            }
        }
        let mut parts: Vec<Acc> = vec![];
        for (sk, stage) in work.chunks(STAGE_UNITS).enumerate() {
          let stage_parts: Vec<Acc> = stage
            .par_iter()
            .with_max_len(1)
            .map(|(k, direct, repl)| {
                let mut a = Acc::default();
                let (item, b) = exact[*k];
                if budget.exhausted() {
                    a.c.add("cap:exact_merge_units_not_run", 1);
                    return a;
                }
                let t = std::time::Instant::now();
                check_item_merges(item, b, &ctx, direct, repl, &mut a);
                note_time("exact-merge-unit".into(), t.elapsed().as_secs_f64());
                a.c.add("exact_merge_units", 1);
                a
            })
            .collect();
          let mut stage_counts = acc.c.clone();
          for p in &stage_parts {
              stage_counts.merge(&p.c);
          }
          for p in &parts {
              stage_counts.merge(&p.c);
          }
          update_flood(&ctx, &stage_counts, &mut caps_hit, &format!("stage {} ({} work units each) of the corpus merges", sk, STAGE_UNITS));
          parts.extend(stage_parts);
        }
        for p in parts {
            acc.merge(p);
        }
    }
    if acc.c.get("cap:exact_merge_units_not_run") > 0 {
        caps_hit.push(format!(
            "wall-clock cap: {} of {} (corpus program, sequence slice) units skipped in the merge paths",
            acc.c.get("cap:exact_merge_units_not_run"),
            acc.c.get("cap:exact_merge_units_not_run") + acc.c.get("exact_merge_units")
        ));
    }
    if debug_enabled() {
        eprintln!("[c10] phase B done after {:.1}s, {} failures", budget.elapsed(), acc.failures.len());
    }

    // Phase C: generated programs, chunked.
    {
        const CHUNK: usize = 48;
        info.insert("generated_chunk_size".into(), json!(CHUNK));
        let seqs = seqs_of(plan.seq_len_generated);
        let rseqs = repl_seqs(&seqs_of(plan.seq_len_generated_repl));
        let chunks: Vec<&[(&Item, &Base)]> = generated.chunks(CHUNK).collect();
        // (chunk, sequence index, is_repl)
        let work: Vec<(usize, usize, bool)> = (0..chunks.len())
            .flat_map(|c| (0..seqs.len()).map(move |s| (c, s, false)).chain((0..rseqs.len()).map(move |s| (c, s, true))))
            .collect();
        let per_chunk = seqs.len() + rseqs.len();
        for (sk, stage) in work.chunks((STAGE_CHUNKS * per_chunk).max(1)).enumerate() {
        let parts: Vec<Acc> = stage
            .par_iter()
            .with_max_len(2)
            .map(|(c, s, is_repl)| {
                let mut a = Acc::default();
                if budget.exhausted() {
                    a.c.add("cap:chunk_sequences_not_run", 1);
                    return a;
                }
                let t = std::time::Instant::now();
                if *is_repl {
                    check_chunk_repl(chunks[*c], &ctx, &rseqs[*s], &mut a);
                    note_time("chunk-x-sequence(repl)".into(), t.elapsed().as_secs_f64());
                } else {
                    check_chunk_direct(chunks[*c], &ctx, &seqs[*s], &mut a);
                    note_time("chunk-x-sequence(direct)".into(), t.elapsed().as_secs_f64());
                }
                let t = std::time::Instant::now();
                a.c.add("chunk_sequences", 1);
                a
            })
            .collect();
        for p in parts {
            acc.merge(p);
        }
        update_flood(&ctx, &acc.c, &mut caps_hit, &format!("stage {} ({} chunks each) of the generated-program merges", sk, STAGE_CHUNKS));
        }
    }
    if acc.c.get("cap:chunk_sequences_not_run") > 0 {
        caps_hit.push(format!(
            "wall-clock cap: {} of {} (chunk, pool sequence) units of the generated programs not run",
            acc.c.get("cap:chunk_sequences_not_run"),
            acc.c.get("cap:chunk_sequences_not_run") + acc.c.get("chunk_sequences")
        ));
    }
    if debug_enabled() {
        eprintln!("[c10] phase C done after {:.1}s, {} failures", budget.elapsed(), acc.failures.len());
    }

    // Phase D: the real binaries on a fixed subset.
    let mut binary_note = String::new();
    if ctx.quiv.is_none() {
        binary_note = format!("{} not found: real-binary subset skipped", crate::infra::repo_root().join("target/debug/quiv").display());
    } else {
        let subset = binary_subset(&live, plan.binary_subset);
        info.insert("binary_subset_size".into(), json!(subset.len()));
        let parts: Vec<Acc> = subset
            .par_iter()
            .with_max_len(1)
            .map(|(item, b)| {
                let mut a = Acc::default();
                for w in [Wrapper::Entry, Wrapper::ValueCapture] {
                    for mode in ["run-e", "compile-run"] {
                        let p = PathSpec::Binary { wrapper: w.name().into(), mode: mode.into() };
                        let out = observe(&item.source, b, &p, &ctx);
                        if a.samples.is_empty() && matches!(out.verdict, Verdict::Same) && mode == "compile-run" {
                            a.samples.push(json!({"program": item.source, "origin": item.origin, "path": p.label(), "as_compiled": b.obs.key(), "cli": cli_expectation(&b.obs)}));
                        }
                        record(&mut a, item, &p, out);
                    }
                }
                a
            })
            .collect();
        for p in parts {
            acc.merge(p);
        }
    }
    if debug_enabled() {
        eprintln!("[c10] phase D done after {:.1}s, {} failures", budget.elapsed(), acc.failures.len());
        eprintln!("[c10] max scheduler actions of any settled run: {} (largest share of its action budget used by any run: {}%)", paths::MAX_SEEN_ACTIONS.load(Ordering::Relaxed), paths::MAX_SEEN_SMALL.load(Ordering::Relaxed));
        for (k, (s, n)) in TIMES.lock().unwrap().iter() {
            eprintln!("[c10] time {:40} {:8.2}s over {:7} calls = {:.3} ms each", k, s, n, 1000.0 * s / *n as f64);
        }
    }

    // Fixed probe: what the CLI's own top-level compile does with the flowing parameter
    // (recorded in the evidence, not judged by C10: the difference arises before any packaging).
    {
        let mut probe = vec![];
        for src in ["=a", "~", "a = ~, #{ &a }"] {
            let cli = paths::compile_cli_way(src, &ctx.builtins).ok().map(|u| paths::run_sync(&u.bytecode(), &ctx.builtins).obs.key());
            let repl = paths::compile(src, &ctx.builtins).ok().map(|u| paths::run_sync(&u.bytecode(), &ctx.builtins).obs.key());
            probe.push(json!({"source": src, "top_level_parameter_type_id_0_as_in_quiv_cli": cli, "registered_nil_type_as_in_repl": repl}));
        }
        info.insert("cli_top_level_parameter_probe".into(), json!(probe));
    }

    // Shrink and report.
    let (violations, shrunk) = shrink::report(&acc.failures, &ctx, tier);
    counters.merge(&acc.c);
    let distinct_nontrivial = live.iter().filter(|(_, b)| b.nontrivial).count();
    let mut samples: Vec<J> = vec![];
    for class in ["corpus", "std", "grammar", "context", "module-family"] {
        if let Some((it, b)) = live.iter().find(|(i, b)| i.class == class && b.nontrivial) {
            let short: String = it.source.chars().take(160).collect();
            samples.push(json!({"class": class, "origin": it.origin, "program": short, "as_compiled": b.obs.key().chars().take(200).collect::<String>()}));
        }
    }
    // written-out cases: fixed programs x fixed paths, re-run here
    {
        let hist = |ix: &[usize]| -> Vec<Hist> {
            ix.iter().map(|i| Hist { source: ctx.pool[*i].source.clone(), shaken: ctx.pool[*i].shaken }).collect()
        };
        let picks: Vec<(&str, Box<dyn Fn(&Item, &Base) -> bool>, Vec<PathSpec>)> = vec![
            (
                "module-family",
                Box::new(|i: &Item, _b: &Base| i.source.contains("y: #'int { [&b, ~, &a] }") && i.source.contains("x: #{ &a }")),
                vec![
                    PathSpec::Entry { wrapper: "value-capture".into(), json: true },
                    PathSpec::Import { form: "destructure".into(), fields: vec!["x".into(), "y".into()], arg: None },
                    PathSpec::Import { form: "applied".into(), fields: vec!["y".into()], arg: Some("1".into()) },
                    PathSpec::Merge { history: hist(&[1, 3]), shaken: true },
                ],
            ),
            (
                "corpus",
                Box::new(|i: &Item, b: &Base| is_heavy(i) && b.obs.is_val() && i.source.len() < 80),
                vec![PathSpec::Shake, PathSpec::Merge { history: hist(&[5, 0]), shaken: false }, PathSpec::Repl { history: vec![ctx.pool[3].source.clone()] }],
            ),
            (
                "context",
                Box::new(|i: &Item, _b: &Base| i.origin.starts_with("context type-dispatch core n=2")),
                vec![PathSpec::Json { shaken: true, pretty: true }, PathSpec::Entry { wrapper: "fn-capture".into(), json: true }, PathSpec::Merge { history: hist(&[2]), shaken: false }],
            ),
        ];
        for (class, pred, specs) in picks {
            if let Some((it, b)) = live.iter().find(|(i, b)| i.class == class && b.nontrivial && pred(i, b)) {
                for p in specs {
                    let out = observe_case(&it.source, b, &p, &ctx);
                    samples.push(json!({
                        "program": it.source.chars().take(200).collect::<String>(),
                        "origin": it.origin,
                        "path": p.label().chars().take(300).collect::<String>(),
                        "expected": out.expected.key().chars().take(200).collect::<String>(),
                        "observed": out.observed.key().chars().take(200).collect::<String>(),
                        "verdict": match out.verdict { Verdict::Same => "same".to_string(), Verdict::Differ => "DIFFER".to_string(), Verdict::NotApplicable(w) => format!("n/a: {}", w) },
                    }));
                }
            }
        }
    }
    samples.extend(acc.samples.iter().filter(|s| s["path"].as_str().map(|p| p.starts_with("quiv-binary")).unwrap_or(false)).take(2).cloned());

    let mut coverage = serde_json::Map::new();
    coverage.insert("evaluations".into(), json!(counters.get("evaluations")));
    coverage.insert("distinct_nontrivial".into(), json!(distinct_nontrivial));
    coverage.insert("distinct_programs_judged".into(), json!(live.len()));
    coverage.insert("rule".into(), json!(RULE));
    coverage.insert("exhaustive".into(), json!(caps_hit.is_empty()));
    coverage.insert("caps_hit".into(), json!(caps_hit));
    coverage.insert("samples".into(), json!(samples));
    coverage.insert("counters".into(), json!(counters.m));
    coverage.insert("universe".into(), J::Object(info));
    coverage.insert("failing_cases_total".into(), json!(counters.get("failing_cases")));
    coverage.insert("failing_cases_kept_for_shrinking".into(), json!(acc.failures.len()));
    coverage.insert("failing_cases_shrunk_individually".into(), json!(shrunk));
    coverage.insert("import_static_disagreement_samples".into(), json!(acc.static_disagreements.iter().take(5).collect::<Vec<_>>()));
    acc.unreliable.sort();
    acc.unreliable.dedup();
    coverage.insert("binding_form_unreliable_samples".into(), json!(acc.unreliable.iter().take(3).collect::<Vec<_>>()));
    coverage.insert(
        "excluded_constructs".into(),
        json!([
            "`^` (tail recursion) is not in the generated grammar: generated programs must terminate by construction",
            "programs whose value cannot be bound to a variable without changing it (`v = [] { P }, &v` differs from P; a defect outside packaging) are not judged on the paths that need such a binding (value-capture wrapper, in-place import forms); counted under na:binding_form_unreliable",
            "top-level code is compiled with the registered nil type as parameter type (as the REPL does); quiv-cli passes the tuple id NIL instead, see cli_top_level_parameter_probe",
        ]),
    );
    if !binary_note.is_empty() {
        coverage.insert("binary_subset".into(), json!(binary_note));
    }
    Ok(Report {
        property: "C10",
        level: "exploration",
        coverage: J::Object(coverage),
        assumptions: vec![
            "the as-compiled single-process run (`execute_bytecode_sync` logic with a slice bound) is the reference; C10 does not judge whether that result is itself right".into(),
            "function values are compared by structure (instructions with table operands resolved, callable type, captures; closures in the normal form that capture injection is specified to produce), since every packaging step is specified as a pure renumbering".into(),
            "environment runs use 2 workers on the simulator's default schedule; the programs are process-free, so the schedule cannot influence the result".into(),
            "REPL variant: a `[]` line precedes the program so that it starts from a nil flowing value as in a stand-alone run".into(),
        ],
        violations,
    })
}

const STAGE_PROGRAMS: usize = 512;
const STAGE_UNITS: usize = 32;
const STAGE_CHUNKS: usize = 4;

const RULE: &str = "Universe: (1) every plain string literal passed to `.evaluate(` in quiver-tests/tests/*.rs that is process/IO-free (no `@`, `!`, file/socket builtins outside strings and comments), (2) the std/*.qv module bodies, (3) ALL programs of the core grammar (atoms: ints, binaries, a string, names, ~, variables, $, accessors, builtins; tuples with 1-2 optionally labelled fields; blocks with branches/consequences; function literals with and without parameter type; match terms; patterns; bindings; sequences) with <= 3 nodes, (4) every core with <= 2 nodes embedded in 6 packaging-relevant contexts, (5) a module-shaped family (4 prelude bindings x records of 1-2 fields over 14 field values, closures with 0-2 captures). Kept: programs the real compiler accepts and whose as-compiled run ends in a value or runtime error within 1000 slices, without process ids/resources in the result. Each kept program x each packaging path is one evaluation: (b) tree-shake, (c) JSON write->read of as-compiled/shaken bytecode incl. byte-stable re-serialisation, (d) the quiv-run pipeline (wrapper evaluates to the entry function; capture injection; tree-shake; JSON; real Environment) for 3 wrappers, (e) merge into an Environment after every ordered pool sequence (direct start_process merges of as-compiled and shaken bytecode, and REPL lines), (f) import forms against the body evaluated in place, plus a fixed subset through the real quiv binary. Oracle: equality of the index-free rendering of the result (functions by structural fingerprint) or of the runtime error kind with the as-compiled run. A program is non-trivial iff its as-compiled bytecode has a function besides the entry, a builtin, a tuple beyond nil/Ok, or an IsType instruction (packaging must renumber something other than constants). Corpus/std programs get a fresh environment per pool sequence; generated programs are processed in fixed chunks of 48 sharing one environment per pool sequence (history = pool sequence + preceding chunk members). The sequence lengths and field caps of the tier are listed under universe.plan.";

/// Deterministic subset for the real binaries: smallest non-trivial value-producing programs of
/// each class, round-robin over classes.
fn binary_subset<'a>(live: &[(&'a Item, &'a Base)], n: usize) -> Vec<(&'a Item, &'a Base)> {
    let mut by_class: BTreeMap<&str, Vec<(&Item, &Base)>> = BTreeMap::new();
    for (i, b) in live {
        if b.nontrivial && i.class != "std" {
            by_class.entry(i.class).or_default().push((*i, *b));
        }
    }
    for v in by_class.values_mut() {
        // spread over the class: take every k-th program in enumeration order
        let k = (v.len() / (n / 2).max(1)).max(1);
        let picked: Vec<_> = v.iter().step_by(k).cloned().collect();
        *v = picked;
    }
    let mut out = vec![];
    let mut idx = 0;
    while out.len() < n {
        let mut any = false;
        for v in by_class.values() {
            if let Some(x) = v.get(idx) {
                if out.len() < n {
                    out.push(*x);
                }
                any = true;
            }
        }
        if !any {
            break;
        }
        idx += 1;
    }
    out
}

pub fn replay(replay: &J) -> Result<bool, String> {
    let ctx = Ctx::new()?;
    let source = replay["source"].as_str().ok_or("replay: no source")?.to_string();
    let path: PathSpec = serde_json::from_value(replay["case"].clone()).map_err(|e| format!("replay: bad case: {}", e))?;
    println!("  program: {}", source);
    println!("  path:    {}", path.label());
    let b = match base(&source, &ctx.builtins) {
        Ok(b) => b,
        Err(e) => {
            println!("  the program no longer has a reference run: {:?}", e);
            return Ok(false);
        }
    };
    if b.raw.functions.len() <= 12 {
        let c = canon::Canon::new(Tables::of_bytecode(&b.raw));
        println!("  as-compiled functions (index-free listing; * = entry):");
        for i in 0..b.raw.functions.len() {
            println!("    fn {}{} fingerprint {}: {} :: {}", i, if Some(i) == b.raw.entry { "*" } else { "" }, c.func_fp(i), c.type_text(b.raw.functions[i].type_id, 0), c.func_listing(i).join("; "));
        }
    }
    let out = observe_case(&source, &b, &path, &ctx);
    println!("  expected (as compiled): {}", out.expected.show());
    println!("  observed (packaged):    {}", out.observed.show());
    match out.verdict {
        Verdict::Same => Ok(false),
        Verdict::Differ => Ok(true),
        Verdict::NotApplicable(why) => {
            println!("  path not applicable: {}", why);
            Ok(false)
        }
    }
}

pub fn violation_of(f: &Failure, signature: String, extra: &str) -> Violation {
    Violation {
        signature,
        summary: format!(
            "{} [{}]: as compiled => {} ; packaged via {} => {}{}",
            f.source.chars().take(300).collect::<String>(),
            f.origin,
            f.expected.chars().take(300).collect::<String>(),
            f.path.label().chars().take(300).collect::<String>(),
            f.observed.chars().take(300).collect::<String>(),
            extra
        ),
        replay: json!({"engine": "c10", "source": f.source, "case": serde_json::to_value(&f.path).unwrap()}),
    }
}
