//! Engine C — abstract-state reachability over bytecode (C07).
//!
//! For each function the reachable set of abstract machine states `(pc, h, l)` — program counter,
//! operand height relative to the frame's entry, number of locals above `locals_base` — is computed
//! by breadth-first search; the invariants are evaluated in every reachable state, which covers
//! every control-flow path at once. Transfer functions are read off `execute_hot`/`execute_cold`.

use quiver_core::bytecode::{Bytecode, Function, Instruction};
use quiver_core::types::{BuiltinInfo, TupleTypeInfo, Type};
use std::collections::{BTreeMap, BTreeSet, HashSet, VecDeque};

pub struct Tables<'a> {
    pub constants: usize,
    pub functions: &'a [Function],
    pub builtins: &'a [BuiltinInfo],
    pub tuples: &'a [TupleTypeInfo],
    pub types: &'a [Type],
}

impl<'a> Tables<'a> {
    pub fn of_bytecode(b: &'a Bytecode) -> Self {
        Tables {
            constants: b.constants.len(),
            functions: &b.functions,
            builtins: &b.builtins,
            tuples: &b.tuples,
            types: &b.types,
        }
    }
    pub fn of_program(p: &'a quiver_core::program::Program) -> Self {
        Tables {
            constants: p.get_constants().len(),
            functions: p.get_functions(),
            builtins: p.get_builtins(),
            tuples: p.get_tuples(),
            types: p.get_types(),
        }
    }
}

#[derive(Debug, Clone, PartialEq, Eq, PartialOrd, Ord)]
pub struct Problem {
    pub rule: &'static str,
    pub function: usize,
    pub pc: usize,
    pub detail: String,
}

#[derive(Default, Debug, Clone)]
pub struct FnReport {
    pub states: usize,
    pub transitions: usize,
    pub problems: Vec<Problem>,
    /// reachable abstract states, for trace conformance
    pub reach: HashSet<(usize, i64, i64)>,
    /// pcs reached with more than one locals count (information only)
    pub multi_l_pcs: usize,
}

/// Effect of one instruction: Err(problem) or (new h, new l, successors pcs; empty = exit).
fn step(
    t: &Tables,
    f: &Function,
    fi: usize,
    pc: usize,
    h: i64,
    l: i64,
) -> Result<(i64, i64, Vec<usize>), Problem> {
    let n = f.instructions.len();
    let bad = |rule: &'static str, detail: String| Problem {
        rule,
        function: fi,
        pc,
        detail,
    };
    let need = |k: i64| -> Result<(), Problem> {
        if h < k {
            Err(bad(
                "stack-underflow",
                format!("{:?} needs {} operand(s), height is {}", f.instructions[pc], k, h),
            ))
        } else {
            Ok(())
        }
    };
    let jump = |o: isize| -> Result<usize, Problem> {
        let target = pc as i64 + o as i64 + 1;
        if target < 0 || target > n as i64 {
            Err(bad("jump-range", format!("jump to {} outside 0..={}", target, n)))
        } else {
            Ok(target as usize)
        }
    };
    let next = vec![pc + 1];
    match f.instructions[pc] {
        Instruction::Constant(i) => {
            if i >= t.constants {
                return Err(bad("index-range", format!("constant {} of {}", i, t.constants)));
            }
            Ok((h + 1, l, next))
        }
        Instruction::Pop => {
            need(1)?;
            Ok((h - 1, l, next))
        }
        Instruction::Duplicate => {
            need(1)?;
            Ok((h + 1, l, next))
        }
        Instruction::Pick(k) => {
            need(k as i64 + 1)?;
            Ok((h + 1, l, next))
        }
        Instruction::Rotate(k) => {
            if k == 0 {
                return Err(bad("operand", "Rotate(0)".into()));
            }
            need(k as i64)?;
            Ok((h, l, next))
        }
        Instruction::Reset(i) => {
            if i as i64 > l {
                return Err(bad("local-range", format!("Reset({}) with {} locals", i, l)));
            }
            Ok((h, i as i64, next))
        }
        Instruction::Load(i) => {
            if i as i64 >= l {
                return Err(bad(
                    "local-undefined",
                    format!("Load({}) with only {} locals defined on this path", i, l),
                ));
            }
            Ok((h + 1, l, next))
        }
        Instruction::Store => {
            need(1)?;
            Ok((h - 1, l + 1, next))
        }
        Instruction::Tuple(id) => {
            let Some(info) = t.tuples.get(id) else {
                return Err(bad("index-range", format!("tuple {} of {}", id, t.tuples.len())));
            };
            let a = info.fields.len() as i64;
            need(a)?;
            Ok((h - a + 1, l, next))
        }
        Instruction::Get(_) => {
            need(1)?;
            Ok((h, l, next))
        }
        Instruction::IsType(id) => {
            if id >= t.types.len() {
                return Err(bad("index-range", format!("type {} of {}", id, t.types.len())));
            }
            need(1)?;
            Ok((h, l, next))
        }
        Instruction::Jump(o) => Ok((h, l, vec![jump(o)?])),
        Instruction::JumpIf(o) => {
            need(1)?;
            Ok((h - 1, l, vec![pc + 1, jump(o)?]))
        }
        Instruction::Call => {
            need(2)?;
            Ok((h - 1, l, next))
        }
        Instruction::TailCall(true) => {
            if h != 1 {
                return Err(bad(
                    "tailcall-height",
                    format!("TailCall(self) with operand height {} (must be exactly the argument)", h),
                ));
            }
            Ok((h, l, vec![]))
        }
        Instruction::TailCall(false) => {
            if h != 2 {
                return Err(bad(
                    "tailcall-height",
                    format!("TailCall(other) with operand height {} (must be argument + function)", h),
                ));
            }
            Ok((h, l, vec![]))
        }
        Instruction::Function(k) => {
            let Some(g) = t.functions.get(k) else {
                return Err(bad("index-range", format!("function {} of {}", k, t.functions.len())));
            };
            let c = g.captures as i64;
            need(c)?;
            Ok((h - c + 1, l, next))
        }
        Instruction::Builtin(i) => {
            if i >= t.builtins.len() {
                return Err(bad("index-range", format!("builtin {} of {}", i, t.builtins.len())));
            }
            Ok((h + 1, l, next))
        }
        Instruction::Equal(k) => {
            if k == 0 {
                return Err(bad("operand", "Equal(0)".into()));
            }
            need(k as i64)?;
            Ok((h - k as i64 + 1, l, next))
        }
        Instruction::Not => {
            need(1)?;
            Ok((h, l, next))
        }
        Instruction::Spawn => {
            need(2)?;
            Ok((h - 1, l, next))
        }
        Instruction::Send => {
            need(2)?;
            Ok((h - 1, l, next))
        }
        Instruction::Self_ => Ok((h + 1, l, next)),
        Instruction::Select => {
            need(1)?;
            Ok((h, l, next))
        }
        Instruction::Process(_, fidx) => {
            // the function index names the spawned function of a REPL process reference; it is
            // resolved against the environment's table at run time, so only count it
            let _ = fidx;
            Ok((h + 1, l, next))
        }
    }
}

pub fn verify_function(t: &Tables, fi: usize) -> FnReport {
    let f = &t.functions[fi];
    let n = f.instructions.len();
    let mut rep = FnReport::default();
    if f.type_id >= t.types.len() {
        rep.problems.push(Problem {
            rule: "index-range",
            function: fi,
            pc: 0,
            detail: format!("function type id {} of {}", f.type_id, t.types.len()),
        });
    }
    let start = (0usize, 1i64, f.captures as i64);
    let mut seen: HashSet<(usize, i64, i64)> = HashSet::new();
    let mut queue = VecDeque::new();
    seen.insert(start);
    queue.push_back(start);
    let l_cap = (n + f.captures + 1) as i64;
    let mut problem_keys: BTreeSet<(usize, &'static str)> = BTreeSet::new();
    while let Some((pc, h, l)) = queue.pop_front() {
        if pc == n {
            // falling off the end: exactly one result
            if h != 1 && problem_keys.insert((pc, "exit-height")) {
                rep.problems.push(Problem {
                    rule: "exit-height",
                    function: fi,
                    pc,
                    detail: format!("function ends with operand height {} (must leave exactly one result)", h),
                });
            }
            continue;
        }
        match step(t, f, fi, pc, h, l) {
            Err(p) => {
                if problem_keys.insert((pc, p.rule)) {
                    rep.problems.push(p);
                }
            }
            Ok((h2, l2, succs)) => {
                if l2 > l_cap {
                    if problem_keys.insert((pc, "locals-unbounded")) {
                        rep.problems.push(Problem {
                            rule: "locals-unbounded",
                            function: fi,
                            pc,
                            detail: "locals grow without bound along a cycle".into(),
                        });
                    }
                    continue;
                }
                for s in succs {
                    rep.transitions += 1;
                    let st = (s, h2, l2);
                    if seen.insert(st) {
                        queue.push_back(st);
                    }
                }
            }
        }
    }
    // single consistent height at each pc
    let mut by_pc: BTreeMap<usize, (BTreeSet<i64>, BTreeSet<i64>)> = BTreeMap::new();
    for (pc, h, l) in &seen {
        let e = by_pc.entry(*pc).or_default();
        e.0.insert(*h);
        e.1.insert(*l);
    }
    for (pc, (hs, ls)) in &by_pc {
        if hs.len() > 1 {
            rep.problems.push(Problem {
                rule: "join-height",
                function: fi,
                pc: *pc,
                detail: format!("pc reached with different operand heights {:?}", hs),
            });
        }
        if ls.len() > 1 {
            rep.multi_l_pcs += 1;
        }
    }
    rep.states = seen.len();
    rep.reach = seen;
    rep
}

/// Verify every function of a table set. Returns per-function reports.
pub fn verify_all(t: &Tables) -> Vec<FnReport> {
    (0..t.functions.len()).map(|fi| verify_function(t, fi)).collect()
}

/// Closure of the tables themselves: every type/tuple id mentioned *inside* the type and tuple
/// tables (union members, callable parts, process parts, partial fields, tuple field types,
/// builtin signatures) is in range, and the id graph is well-founded — recursion is expressed by
/// `Cycle` nodes, never by an id that reaches itself, so a cyclic id graph is a dangling index in
/// disguise (and makes every consumer that walks a type loop forever).
pub fn verify_tables(t: &Tables) -> Vec<String> {
    let mut out = vec![];
    let nt = t.types.len();
    let ntu = t.tuples.len();
    let children = |ty: &Type| -> Vec<(bool, usize)> {
        // (is_tuple_id, id)
        match ty {
            Type::Tuple(id) => vec![(true, *id)],
            Type::Partial { fields, .. } => fields.iter().map(|(_, id)| (false, *id)).collect(),
            Type::Callable { parameter, result, receive } => vec![(false, *parameter), (false, *result), (false, *receive)],
            Type::Union(ids) => ids.iter().map(|id| (false, *id)).collect(),
            Type::Process { send, receive } => send.iter().chain(receive.iter()).map(|id| (false, *id)).collect(),
            _ => vec![],
        }
    };
    for (i, ty) in t.types.iter().enumerate() {
        for (is_tuple, id) in children(ty) {
            if is_tuple && id >= ntu {
                out.push(format!("type {} refers to tuple {} of {}", i, id, ntu));
            }
            if !is_tuple && id >= nt {
                out.push(format!("type {} refers to type {} of {}", i, id, nt));
            }
        }
    }
    for (i, tu) in t.tuples.iter().enumerate() {
        for (_, id) in &tu.fields {
            if *id >= nt {
                out.push(format!("tuple {} has a field of type {} of {}", i, id, nt));
            }
        }
    }
    for (i, b) in t.builtins.iter().enumerate() {
        if b.param_type >= nt || b.result_type >= nt {
            out.push(format!("builtin {} signature ({}, {}) of {}", i, b.param_type, b.result_type, nt));
        }
    }
    if !out.is_empty() {
        return out;
    }
    // well-foundedness over the combined graph (type -> type | tuple, tuple -> type)
    // node numbering: types 0..nt, tuples nt..nt+ntu
    let n = nt + ntu;
    let succ = |v: usize| -> Vec<usize> {
        if v < nt {
            children(&t.types[v]).into_iter().map(|(is_tuple, id)| if is_tuple { nt + id } else { id }).collect()
        } else {
            t.tuples[v - nt].fields.iter().map(|(_, id)| *id).collect()
        }
    };
    let mut colour = vec![0u8; n]; // 0 white, 1 on stack, 2 done
    for root in 0..n {
        if colour[root] != 0 {
            continue;
        }
        let mut stack: Vec<(usize, Vec<usize>, usize)> = vec![(root, succ(root), 0)];
        colour[root] = 1;
        while let Some((v, ss, k)) = stack.last_mut() {
            if *k < ss.len() {
                let w = ss[*k];
                *k += 1;
                match colour[w] {
                    0 => {
                        colour[w] = 1;
                        let sw = succ(w);
                        stack.push((w, sw, 0));
                    }
                    1 => {
                        let name = |x: usize| if x < nt { format!("type {}", x) } else { format!("tuple {}", x - nt) };
                        out.push(format!("{} reaches itself through {} (id cycle without a Cycle node)", name(w), name(*v)));
                        return out;
                    }
                    _ => {}
                }
            } else {
                colour[*v] = 2;
                stack.pop();
            }
        }
    }
    out
}
