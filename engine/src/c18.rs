//! C18 — "The front end is total: any text yields a program or a located error".
//!
//! Bounded-exhaustive enumeration of input texts; the oracle is evaluated on every one of them:
//!   * `quiver_compiler::parse(text)` returns (no panic, no crash, < 2 s CPU);
//!   * an `Err` carries a span with `offset <= len`, `offset+length <= len`, both on char boundaries,
//!     `line` = 1 + number of '\n' before the offset, `column` = 1 + distance from the line start
//!     (bytes, chars or UTF-16 units — any customary unit is accepted);
//!   * if `parse` is `Ok`, `Compiler::compile` with the in-memory resolver returns `Ok` or `Err`
//!     (no panic, no crash, < 5 s CPU). `InternalError` is an error (counted and listed, not judged).
//!
//! Every call into the repository runs in a child process of `current_exe()` (env `C18_CHILD`), on
//! a thread with an 8 MiB stack, under a watchdog; a crash is attributed by re-running the slice
//! with per-case announcements. See `c18/` for the parts.

mod child;
mod corpus;
mod jobs;
mod oracle;
mod shrink;

use crate::infra::{Budget, Report, Tier, Violation};
use child::{Acc, Failure};
use jobs::{FAMILIES, Job, MutSpec, ShrinkItem, alphabet};
use serde_json::{Value as J, json};
use std::collections::{BTreeMap, BTreeSet};
use std::path::{Path, PathBuf};
use std::sync::Mutex;
use std::sync::atomic::{AtomicU64, AtomicUsize, Ordering};
use std::time::{Duration, Instant};


struct Runner {
    dir: PathBuf,
    exe: PathBuf,
    counter: AtomicU64,
    /// After this many consecutive timed-out depths of a ladder, skip the depths that follow …
    ladder_jump_after: usize,
    /// … except the deepest one (thorough tier; the quick tier skips that one too).
    ladder_run_deepest: bool,
}

enum ChildEnd {
    /// The child wrote a result: either complete (`done`) or stopped by its watchdog (`stopped`).
    Finished(Acc),
    /// The child died without a result (stack overflow, abort, kill).
    Died { status: String, stderr_tail: String },
}

#[derive(Default)]
struct JobNotes {
    ladder_skipped: Vec<String>,
    children: u64,
    slow_not_shrunk: u64,
}

const SLOW_GROUPS_PER_UNIT: usize = 4;
const SLOW_EVALS_PER_UNIT: usize = 24;

impl Runner {
    fn new(ladder_jump_after: usize, ladder_run_deepest: bool) -> Result<Runner, String> {
        let dir = std::env::temp_dir().join(format!("qv-c18-{}", std::process::id()));
        std::fs::create_dir_all(&dir).map_err(|e| format!("{}: {}", dir.display(), e))?;
        let exe = std::env::current_exe().map_err(|e| format!("current_exe: {}", e))?;
        Ok(Runner {
            dir,
            exe,
            counter: AtomicU64::new(0),
            ladder_jump_after,
            ladder_run_deepest,
        })
    }

    fn fresh(&self, what: &str) -> PathBuf {
        let n = self.counter.fetch_add(1, Ordering::SeqCst);
        self.dir.join(format!("{}-{}", what, n))
    }

    fn write_job(&self, job: &Job) -> Result<PathBuf, String> {
        let p = self.fresh("job");
        std::fs::write(&p, serde_json::to_vec(job).map_err(|e| e.to_string())?).map_err(|e| e.to_string())?;
        Ok(p)
    }

    /// Run cases `[start, end)` of the job in a child. With `careful`, returns also the last
    /// announced (case index, phase).
    fn spawn(&self, job_path: &Path, start: u64, end: u64, careful: bool) -> Result<(ChildEnd, Option<(u64, char)>), String> {
        let out = self.fresh("out");
        let err = self.fresh("err");
        let progress = self.fresh("progress");
        let errf = std::fs::File::create(&err).map_err(|e| e.to_string())?;
        let mut cmd = std::process::Command::new(&self.exe);
        cmd.args(["C18", "--tier", "quick"])
            .env("C18_CHILD", "1")
            .env("C18_JOB", job_path)
            .env("C18_OUT", &out)
            .env("C18_START", start.to_string())
            .env("C18_END", end.to_string())
            .stdin(std::process::Stdio::null())
            .stdout(std::process::Stdio::null())
            .stderr(std::process::Stdio::from(errf));
        if careful {
            cmd.env("C18_PROGRESS", &progress);
        } else {
            cmd.env_remove("C18_PROGRESS");
        }
        let mut ch = cmd.spawn().map_err(|e| format!("spawn child: {}", e))?;
        // Backstop only: the child's own watchdog bounds every case; this guards the machinery.
        let backstop = Instant::now() + Duration::from_secs(1800);
        let mut nap = 1u64;
        let status = loop {
            match ch.try_wait().map_err(|e| e.to_string())? {
                Some(st) => break st,
                None => {
                    if Instant::now() > backstop {
                        let _ = ch.kill();
                        let _ = ch.wait();
                        return Err("child exceeded the 30 min machinery backstop".into());
                    }
                    std::thread::sleep(Duration::from_millis(nap));
                    nap = (nap * 2).min(8);
                }
            }
        };
        let last = if careful {
            std::fs::read_to_string(&progress).ok().and_then(|s| {
                let l = s.lines().last()?.to_string();
                let mut it = l.split(' ');
                let idx: u64 = it.next()?.parse().ok()?;
                let ph = it.next()?.chars().next()?;
                Some((idx, ph))
            })
        } else {
            None
        };
        let acc: Option<Acc> = std::fs::read(&out).ok().and_then(|b| serde_json::from_slice(&b).ok());
        let stderr_tail = std::fs::read_to_string(&err)
            .map(|s| {
                let t = s.trim();
                let k = t.len().saturating_sub(300);
                let mut k2 = k;
                while !t.is_char_boundary(k2) {
                    k2 += 1;
                }
                t[k2..].to_string()
            })
            .unwrap_or_default();
        // The runtime prints the OS thread id ("thread 'c18-worker' (12345) has overflowed…"):
        // drop parenthesised numbers so that nothing reported depends on them.
        let stderr_tail = {
            let mut o = String::new();
            let mut rest = stderr_tail.as_str();
            while let Some(p) = rest.find('(') {
                let after = &rest[p + 1..];
                match after.find(')') {
                    Some(q) if q > 0 && after[..q].bytes().all(|b| b.is_ascii_digit()) => {
                        o.push_str(rest[..p].trim_end());
                        rest = &after[q + 1..];
                    }
                    _ => {
                        o.push_str(&rest[..p + 1]);
                        rest = after;
                    }
                }
            }
            o.push_str(rest);
            o
        };
        let _ = std::fs::remove_file(&out);
        let _ = std::fs::remove_file(&err);
        let _ = std::fs::remove_file(&progress);
        match acc {
            Some(a) if a.done || a.stopped.is_some() => Ok((ChildEnd::Finished(a), last)),
            _ => {
                use std::os::unix::process::ExitStatusExt;
                let st = match (status.code(), status.signal()) {
                    (_, Some(sig)) => format!("killed by signal {}", sig),
                    (Some(c), _) => format!("exit code {}", c),
                    _ => "unknown status".into(),
                };
                if status.code() == Some(90) {
                    return Err(format!("child could not read its job: {}", stderr_tail));
                }
                Ok((ChildEnd::Died { status: st, stderr_tail }, last))
            }
        }
    }

    /// Run a whole job, restarting the child after every contained hang or crash.
    fn run_job(&self, job: &Job, notes: &mut JobNotes) -> Result<Acc, String> {
        let job_path = self.write_job(job)?;
        let size = job.size();
        let is_ladder = matches!(job, Job::Ladder { .. });
        let mut total = Acc::default();
        let mut start = 0u64;
        let mut consecutive = 0usize;
        let mut last_timeout: Option<u64> = None;
        let tagname = match job {
            Job::Ladder { .. } => "ladder",
            Job::Tok { .. } => "token_string",
            Job::Mut { .. } => "corpus_mutant",
            _ => "text",
        };
        let mut careful = false;
        let mut first_death = String::new();
        while start < size {
            notes.children += 1;
            let (end_state, last) = self.spawn(&job_path, start, size, careful)?;
            match end_state {
                ChildEnd::Finished(mut acc) => {
                    let stopped = acc.stopped.take();
                    if careful && stopped.is_none() {
                        return Err(format!(
                            "child died ({}) on job '{}' from case {} but the announced re-run completed: not reproducible",
                            first_death,
                            job.describe(),
                            start
                        ));
                    }
                    careful = false;
                    total.merge(acc);
                    let Some(stop) = stopped else { break };
                    let (text, label) = job.case(stop.idx).ok_or("case index out of range")?;
                    let what = if stop.reason == "memory" { "memory" } else { "timeout" };
                    total.evaluations += 1;
                    *total.by_tag.entry(format!("{}_stopped", tagname)).or_default() += 1;
                    total.add_failure(Failure {
                        idx: stop.idx,
                        text,
                        label,
                        kind: format!("{}_{}", stop.phase, what),
                        refine: String::new(),
                        observed: match what {
                            "memory" => format!("{} exceeded {} GiB resident memory", stop.phase, child::RSS_LIMIT_BYTES >> 30),
                            _ => format!(
                                "{} did not return within {} s of CPU time ({})",
                                stop.phase,
                                if stop.phase == "parse" { child::PARSE_LIMIT_S } else { child::COMPILE_LIMIT_S },
                                stop.reason
                            ),
                        },
                    });
                    if is_ladder {
                        consecutive = if last_timeout.is_some_and(|l| l + 1 == stop.idx) { consecutive + 1 } else { 1 };
                        last_timeout = Some(stop.idx);
                        let resume = if self.ladder_run_deepest { size - 1 } else { size };
                        if consecutive >= self.ladder_jump_after && stop.idx + 1 < resume {
                            if let Job::Ladder { family, ns } = job {
                                notes.ladder_skipped.push(format!(
                                    "{}: n in {:?} skipped after {} consecutive time-out(s){}",
                                    FAMILIES[*family].name,
                                    &ns[(stop.idx + 1) as usize..resume as usize],
                                    consecutive,
                                    if self.ladder_run_deepest {
                                        format!(" (n={} still run)", ns[(size - 1) as usize])
                                    } else {
                                        String::new()
                                    }
                                ));
                            }
                            start = resume;
                            consecutive = 0;
                            last_timeout = None;
                            continue;
                        }
                    }
                    start = stop.idx + 1;
                }
                ChildEnd::Died { status, stderr_tail } if !careful => {
                    // Attribute: re-run from `start`, announcing every case before it runs.
                    first_death = format!("{}; {}", status, stderr_tail.replace('\n', " | "));
                    careful = true;
                }
                ChildEnd::Died { status, stderr_tail } => {
                    careful = false;
                    let Some((culprit, phase)) = last else {
                        return Err(format!(
                            "child died before announcing any case ({}; {}) on job '{}'",
                            status,
                            stderr_tail,
                            job.describe()
                        ));
                    };
                    if culprit > start {
                        // The announced run's partial results died with it: redo the cases before
                        // the culprit (they are known not to crash).
                        notes.children += 1;
                        match self.spawn(&job_path, start, culprit, false)?.0 {
                            ChildEnd::Finished(acc) if acc.done && acc.stopped.is_none() => total.merge(acc),
                            _ => {
                                return Err(format!(
                                    "non-deterministic child on job '{}' cases {}..{}",
                                    job.describe(),
                                    start,
                                    culprit
                                ));
                            }
                        }
                    }
                    let (text, label) = job.case(culprit).ok_or("case index out of range")?;
                    let phase = if phase == 'C' { "compile" } else { "parse" };
                    total.evaluations += 1;
                    *total.by_tag.entry(format!("{}_stopped", tagname)).or_default() += 1;
                    total.add_failure(Failure {
                        idx: culprit,
                        text,
                        label,
                        kind: format!("{}_crash", phase),
                        refine: String::new(),
                        observed: format!(
                            "process died during {} ({}): {}",
                            phase,
                            status,
                            stderr_tail.replace('\n', " | ")
                        ),
                    });
                    start = culprit + 1;
                }
            }
        }
        let _ = std::fs::remove_file(&job_path);
        Ok(total)
    }

    /// Does `text` still fail with `kind` (time-out / crash kinds; one child per question)?
    fn still_fails(&self, kind: &str, text: &str) -> Result<bool, String> {
        let mut notes = JobNotes::default();
        let acc = self.run_job(&Job::Texts { texts: vec![text.to_string()] }, &mut notes)?;
        Ok(acc.failures.iter().any(|f| f.kind == kind))
    }

    /// Shrink a time-out / crash witness over its run-length form: first try the heaviest run
    /// alone, then chunk deletion over runs (halving chunk sizes). Run lengths are never reduced
    /// (the depth at which a blow-up crosses the limit is machine dependent and not part of the
    /// failing thing). Every question costs a child process and up to the time limit, so the
    /// number of questions is bounded by `evals_left` (a count, not a clock: deterministic).
    fn shrink_slow(&self, kind: &str, text: &str, evals_left: &mut usize) -> Result<String, String> {
        let rs = shrink::runs(text);
        if rs.len() <= 1 {
            return Ok(text.to_string());
        }
        let heavy = rs
            .iter()
            .enumerate()
            .max_by_key(|(i, (u, n))| (u.len() * n, std::cmp::Reverse(*i)))
            .map(|(i, _)| i)
            .unwrap();
        if rs[heavy].1 >= shrink::LONG_RUN && *evals_left > 0 {
            *evals_left -= 1;
            let cand = shrink::unruns(&rs[heavy..heavy + 1]);
            if self.still_fails(kind, &cand)? {
                return Ok(cand);
            }
        }
        let mut cur = text.to_string();
        let mut size = (rs.len() / 2).max(1);
        loop {
            let mut i = 0;
            loop {
                let us = shrink::runs(&cur);
                if i >= us.len() || us.len() <= 1 {
                    break;
                }
                if *evals_left == 0 {
                    return Ok(cur);
                }
                let j = (i + size).min(us.len());
                let mut kept = us[..i].to_vec();
                kept.extend_from_slice(&us[j..]);
                let cand = shrink::unruns(&kept);
                if cand.is_empty() {
                    i += size;
                    continue;
                }
                *evals_left -= 1;
                if self.still_fails(kind, &cand)? {
                    cur = cand;
                } else {
                    i += size;
                }
            }
            if size == 1 {
                break;
            }
            size /= 2;
        }
        Ok(cur)
    }
}

fn is_slow_kind(kind: &str) -> bool {
    kind.ends_with("_timeout") || kind.ends_with("_crash") || kind.ends_with("_memory")
}

struct Unit {
    job: Job,
    group: &'static str,
    est_cost: f64,
}

struct UnitResult {
    acc: Acc,
    /// (failure, concrete shrunk core) for time-out/crash kinds, shrunk inside the unit
    slow: Vec<(Failure, String)>,
    notes: JobNotes,
    wall: f64,
}

fn run_unit(r: &Runner, u: &Unit) -> Result<UnitResult, String> {
    let t0 = Instant::now();
    let mut notes = JobNotes::default();
    let acc = r.run_job(&u.job, &mut notes)?;
    // Shrink time-outs/crashes here so that it happens in parallel with other units. One shrink
    // per (kind, run-elided form); the longest witness is used (largest margin above the limit).
    let mut groups: BTreeMap<(String, String), &Failure> = BTreeMap::new();
    for f in acc.failures.iter().filter(|f| is_slow_kind(&f.kind)) {
        let key = (f.kind.clone(), shrink::render_core(&f.text, true));
        match groups.get(&key) {
            Some(g) if (g.text.len(), &g.text) >= (f.text.len(), &f.text) => {}
            _ => {
                groups.insert(key, f);
            }
        }
    }
    // At most SLOW_GROUPS_PER_UNIT groups (shortest witnesses first) and SLOW_EVALS_PER_UNIT
    // questions per unit; further groups are counted, not reported as separate violations.
    let mut order: Vec<((String, String), &Failure)> = groups.into_iter().collect();
    order.sort_by(|a, b| (a.1.text.len(), &a.1.text, &a.0).cmp(&(b.1.text.len(), &b.1.text, &b.0)));
    let mut slow = vec![];
    let mut evals_left = SLOW_EVALS_PER_UNIT;
    let mut not_shrunk = 0u64;
    for (k, ((kind, _), f)) in order.into_iter().enumerate() {
        if k >= SLOW_GROUPS_PER_UNIT {
            not_shrunk += 1;
            continue;
        }
        let core = r.shrink_slow(&kind, &f.text, &mut evals_left)?;
        slow.push((f.clone(), core));
    }
    notes.slow_not_shrunk = not_shrunk;
    Ok(UnitResult {
        acc,
        slow,
        notes,
        wall: t0.elapsed().as_secs_f64(),
    })
}

struct Plan {
    units: Vec<Unit>,
    universe: J,
    caps: Vec<String>,
    exhaustive_by_construction: bool,
}

/// Shape enumeration (see the plan): (id, text).
fn shape_sources() -> Vec<(String, String)> {
    let mut out = vec![];
    // multi-line strings
    let firsts = ["a", "\u{e9}", "\u{65e5}\u{672c}", "\u{1f600}"];
    for margin in 0..=3usize {
        for indent in 0..=4usize {
            for tab in [false, true] {
                if tab && indent == 0 {
                    continue;
                }
                for (fi, first) in firsts.iter().enumerate() {
                    for two in [false, true] {
                        let ind: String = if tab { format!("\t{}", " ".repeat(indent - 1)) } else { " ".repeat(indent) };
                        let mut body = format!("{}{}x\n", ind, first);
                        if two {
                            body.push_str(&format!("{}{}{}\n", " ".repeat(margin), first, first));
                        }
                        let lit = format!("\"\"\"\n{}{}\"\"\"", body, " ".repeat(margin));
                        let id = format!("shape/mlstr/m{}i{}{}f{}{}", margin, indent, if tab { "t" } else { "" }, fi, if two { "+" } else { "" });
                        out.push((format!("{}/term", id), format!("x = {}", lit)));
                        out.push((format!("{}/pattern", id), format!("x = \"a\", x ~> ={}", lit)));
                    }
                }
            }
        }
    }
    // type expressions with alias spreads
    let aliases = [
        "'p = Point['int, 'int]",
        "'p = [x: 'int, y: 'bin]",
        "'p = A | Point['int]",
        "'p = A[x: 'int] | B[x: 'int, y: 'int]",
        "'p = (x: 'int)",
        "'p = 'int",
        "'p = Nil | Cons['int, ^]",
    ];
    let exprs = [
        "'p", "['p]", "[k: 'p]", "(k: 'p)", "A(k: 'p)", "'p | []", "#'p -> 'p", "@'p", "(@'p -> 'int)",
        "[...'p]", "[...'p, z: 'int]", "[z: 'int, ...'p]", "A[...'p, z: 'int]", "(...'p)", "(...'p, z: 'int)", "(z: 'int, ...'p)",
        "A(...'p, z: 'int)", "'p[..., z: 'int]", "'p[...]", "('p & (z: 'int))", "[...'p, ...'p]",
    ];
    for (ai, a) in aliases.iter().enumerate() {
        for (ei, e) in exprs.iter().enumerate() {
            let id = format!("shape/type/a{}e{}", ai, ei);
            out.push((format!("{}/alias", id), format!("{}\n'q = {}\n0", a, e)));
            out.push((format!("{}/param", id), format!("{}\nf = #({}) {{ 1 }}", a, e)));
            out.push((format!("{}/pattern", id), format!("{}\nx = 0, x =({})", a, e)));
            out.push((format!("{}/receive", id), format!("{}\nr = @{{ !#({}) }}", a, e)));
        }
    }
    // programs that import an in-memory module whose body waits, fails, or is fine
    for (name, _) in oracle::USER_MODULES {
        let id = format!("shape/usermod/{}", name);
        out.push((format!("{}/bare", id), format!("%{}", name)));
        out.push((format!("{}/bound", id), format!("x = %{},\nx", name)));
        out.push((format!("{}/twice", id), format!("[%{}, %{}]", name, name)));
        out.push((format!("{}/member", id), format!("%{}.f", name)));
        out.push((format!("{}/in_fn", id), format!("g = #'int {{ %{} }},\n1 g", name)));
        out.push((format!("{}/after_ok", id), format!("%um_ok,\n%{}", name)));
    }
    out
}

fn ladder_depths(tier: Tier) -> Vec<usize> {
    match tier {
        Tier::Thorough => (1..=100).collect(),
        Tier::Quick => {
            let mut v: Vec<usize> = (1..=12).collect();
            v.extend([14, 16, 32, 64, 100]);
            v
        }
    }
}

fn has_import(text: &str) -> bool {
    let b = text.as_bytes();
    (0..b.len().saturating_sub(1)).any(|i| b[i] == b'%' && b[i + 1].is_ascii_lowercase())
}

fn strided(n: usize, max: usize) -> Vec<usize> {
    if n <= max {
        (0..n).collect()
    } else {
        let mut v: Vec<usize> = (0..max).map(|k| k * n / max).collect();
        v.dedup();
        v
    }
}

fn plan(tier: Tier, sources: &[corpus::Source], stats: &corpus::CorpusStats) -> Plan {
    let alpha_name = "full";
    let al = alphabet(alpha_name);
    let a = al.len();
    let mut units = vec![];
    let mut caps = vec![];
    let mut exhaustive = true;

    // (iii) ladders
    let ns = ladder_depths(tier);
    for fam in 0..FAMILIES.len() {
        units.push(Unit {
            job: Job::Ladder { family: fam, ns: ns.clone() },
            group: "ladder",
            est_cost: 1e9,
        });
    }
    if tier == Tier::Quick {
        caps.push(format!("ladders: quick tier runs depths {:?} only (thorough: every n in 1..=100)", ns));
        exhaustive = false;
    }

    // (ii) corpus prefixes and single-token mutants
    let target_us = match tier {
        Tier::Quick => 300_000.0,
        Tier::Thorough => 2_500_000.0,
    };
    let mut capped_sources = 0usize;
    let mut mut_units: Vec<Unit> = vec![];
    let mut batch: Vec<MutSpec> = vec![];
    let mut batch_cost = 0.0;
    let mut planned_cases = 0u64;
    // Static cost model (micro-seconds per case), only used to size and order the units.
    let per_case_us = |len: usize, imports: bool| 25.0 + 0.4 * len as f64 + if imports { 350.0 } else { 0.0 };
    for s in sources {
        let toks = corpus::lex(&s.text);
        let t = toks.len();
        let imports = has_import(&s.text);
        let (max_pos, max_cuts) = match (tier, imports) {
            (Tier::Quick, false) => (24usize, 128usize),
            (Tier::Quick, true) => (8, 48),
            (Tier::Thorough, _) => (usize::MAX, usize::MAX),
        };
        let positions = strided(t, max_pos);
        let bounds: Vec<usize> = (0..=s.text.len()).filter(|i| s.text.is_char_boundary(*i)).collect();
        let mut cuts: BTreeSet<usize> = strided(bounds.len(), max_cuts).into_iter().map(|k| bounds[k]).collect();
        cuts.insert(s.text.len());
        for &p in &positions {
            cuts.insert(toks[p].0);
        }
        if positions.len() < t || cuts.len() < bounds.len() {
            capped_sources += 1;
        }
        let cuts: Vec<usize> = cuts.into_iter().collect();
        // Split big sources by position ranges; batch small ones.
        let cost_cut = per_case_us(s.text.len() / 2, imports) * cuts.len() as f64;
        let cost_pos = per_case_us(s.text.len(), imports) * (a + 2) as f64;
        let total_cost = cost_cut + cost_pos * positions.len() as f64;
        planned_cases += cuts.len() as u64 + (positions.len() * (a + 2)) as u64;
        if total_cost > target_us {
            let per_chunk = ((target_us / cost_pos).floor() as usize).max(1);
            let mut first = true;
            for chunk in positions.chunks(per_chunk) {
                let spec = MutSpec {
                    id: s.id.clone(),
                    text: s.text.clone(),
                    cuts: if first { cuts.clone() } else { vec![] },
                    positions: chunk.to_vec(),
                };
                let c = cost_pos * chunk.len() as f64 + if first { cost_cut } else { 0.0 };
                first = false;
                mut_units.push(Unit {
                    job: Job::Mut { alphabet: alpha_name.into(), specs: vec![spec] },
                    group: "corpus",
                    est_cost: c,
                });
            }
        } else {
            batch.push(MutSpec {
                id: s.id.clone(),
                text: s.text.clone(),
                cuts,
                positions,
            });
            batch_cost += total_cost;
            if batch_cost >= target_us {
                mut_units.push(Unit {
                    job: Job::Mut { alphabet: alpha_name.into(), specs: std::mem::take(&mut batch) },
                    group: "corpus",
                    est_cost: batch_cost,
                });
                batch_cost = 0.0;
            }
        }
    }
    if !batch.is_empty() {
        mut_units.push(Unit {
            job: Job::Mut { alphabet: alpha_name.into(), specs: batch },
            group: "corpus",
            est_cost: batch_cost,
        });
    }
    // (iv) input shapes the token alphabet cannot spell: multi-line strings at every small
    // combination of margins / indentation characters / multi-byte first characters, and a small
    // type-expression grammar with alias spreads. Each is one case (the whole text).
    let shapes = shape_sources();
    let shape_count = shapes.len();
    for chunk in shapes.chunks(200) {
        let specs: Vec<MutSpec> = chunk
            .iter()
            .map(|(id, text)| MutSpec { id: id.clone(), text: text.clone(), cuts: vec![text.len()], positions: vec![] })
            .collect();
        planned_cases += specs.len() as u64;
        // Few and cheap, and each shape is a kind of input nothing else spells: they go right
        // after the ladders, so that a wall-clock budget used up on a loaded machine never
        // drops them (it drops bulk token strings / corpus mutants, and says so).
        units.push(Unit {
            job: Job::Mut { alphabet: alpha_name.into(), specs },
            group: "shape",
            est_cost: 200.0 * 400.0,
        });
    }
    if capped_sources > 0 {
        caps.push(format!(
            "corpus: {} of {} sources capped (quick tier): sources without imports to 24 evenly spaced token positions and 128 evenly spaced prefix cuts, sources with a %import to 8 positions and 48 cuts (plus the cut before every chosen token and the full text)",
            capped_sources,
            sources.len()
        ));
        exhaustive = false;
    }
    mut_units.sort_by(|x, y| y.est_cost.partial_cmp(&x.est_cost).unwrap());

    // (i) token strings: lengths <= 4 before the corpus, length 5 (thorough) last
    let max_len: usize = match tier {
        Tier::Quick => 4,
        Tier::Thorough => 5,
    };
    let mut tok_counts = vec![];
    let mut late_units = vec![];
    for len in 0..=max_len {
        let plen = len.saturating_sub(3);
        let n_pref = a.pow(plen as u32);
        tok_counts.push((a as u64).pow(len as u32));
        for k in 0..n_pref {
            let mut prefix = vec![0usize; plen];
            let mut x = k;
            for d in (0..plen).rev() {
                prefix[d] = x % a;
                x /= a;
            }
            let u = Unit {
                job: Job::Tok { alphabet: alpha_name.into(), len, prefix },
                group: if len <= 4 { "tokens" } else { "tokens5" },
                est_cost: (a as f64).powi((len - plen) as i32) * 4.0,
            };
            if len <= 4 {
                units.push(u);
            } else {
                late_units.push(u);
            }
        }
    }
    units.extend(mut_units);
    units.extend(late_units);

    let universe = json!({
        "token_alphabet": al,
        "token_alphabet_size": a,
        "token_alphabet_note": "the 37 tokens of the design plus < > ? 99999999999999999999 \\r __integer_add__",
        "max_tokens": max_len,
        "token_strings_per_length": tok_counts,
        "corpus": stats,
        "corpus_mutations": "for every source: every prefix at char-boundary byte granularity (superset of token-boundary prefixes; a cut inside a multi-byte character is not valid UTF-8 and cannot be passed to parse(&str)), every single-token deletion, duplication, and substitution by each alphabet token; tokens by a lossless lexer that does not treat strings/comments specially",
        "corpus_planned_cases": planned_cases,
        "shape_sources": shape_count,
        "shape_sources_note": "multi-line strings: closing margin 0..=3 x content indent 0..=4 (spaces, or a tab first) x first content character from {a, e-acute, a CJK character, an emoji} x one or two content lines x term / pattern position; type expressions: 7 alias definitions x 21 type expressions using the alias (tuples, partials, unions, functions, processes, spreads with and without further fields) x 4 uses (alias definition, function parameter, match pattern, receive type)",
        "ladder_families": FAMILIES.iter().map(|f| f.name).collect::<Vec<_>>(),
        "ladder_depths": ns,
        "max_nesting": 100,
        "watchdog": {"parse_cpu_s": child::PARSE_LIMIT_S, "compile_cpu_s": child::COMPILE_LIMIT_S, "wall_backstop_factor": child::WALL_FACTOR, "worker_stack_bytes": child::WORKER_STACK_BYTES},
    });
    Plan {
        units,
        universe,
        caps,
        exhaustive_by_construction: exhaustive,
    }
}

pub fn run(tier: Tier) -> Result<Report, String> {
    if std::env::var_os("C18_CHILD").is_some() {
        child::child_main();
    }
    let verbose = std::env::var_os("C18_VERBOSE").is_some();
    // Debugging aids (not used by the harness): C18_BUDGET_S overrides the wall-clock budget,
    // C18_ONLY=ladder,tokens,corpus,tokens5 restricts the run to some parts.
    let budget_s: f64 = std::env::var("C18_BUDGET_S").ok().and_then(|s| s.parse().ok()).unwrap_or(match tier {
        Tier::Quick => 16.0,
        Tier::Thorough => 600.0,
    });
    let budget = Budget::new(budget_s);
    let (sources, stats) = corpus::collect(&crate::infra::repo_root())?;
    let mut plan = plan(tier, &sources, &stats);
    if let Ok(only) = std::env::var("C18_ONLY") {
        let keep: Vec<&str> = only.split(',').collect();
        plan.units.retain(|u| keep.contains(&u.group));
        plan.caps.push(format!("C18_ONLY={}: only these parts were run", only));
        plan.exhaustive_by_construction = false;
    }
    let runner = Runner::new(
        match tier {
            Tier::Quick => 1,
            Tier::Thorough => 2,
        },
        tier == Tier::Thorough,
    )?;

    // VERIF_SEED only rotates the order in which units of a group are started.
    let seed = crate::infra::seed().unsigned_abs() as usize;
    if seed != 0 {
        for g in ["ladder", "shape", "tokens", "corpus", "tokens5"] {
            let idxs: Vec<usize> = (0..plan.units.len()).filter(|i| plan.units[*i].group == g).collect();
            if idxs.len() > 1 {
                let (lo, hi) = (idxs[0], idxs[idxs.len() - 1] + 1);
                plan.units[lo..hi].rotate_left(seed % idxs.len());
            }
        }
    }

    let n_units = plan.units.len();
    let next = AtomicUsize::new(0);
    let results: Mutex<Vec<Option<Result<UnitResult, String>>>> = Mutex::new((0..n_units).map(|_| None).collect());
    let threads = std::thread::available_parallelism().map(|n| n.get()).unwrap_or(4);
    std::thread::scope(|sc| {
        for _ in 0..threads {
            sc.spawn(|| {
                loop {
                    let i = next.fetch_add(1, Ordering::SeqCst);
                    if i >= n_units {
                        break;
                    }
                    if budget.exhausted() {
                        continue; // stays None: skipped by budget
                    }
                    let r = run_unit(&runner, &plan.units[i]);
                    if verbose {
                        if let Ok(u) = &r {
                            eprintln!(
                                "[c18] unit {:>5} {:<40} {:>8} cases {:>7.2}s est {:>6.2}s  fails {}",
                                i,
                                plan.units[i].job.describe(),
                                u.acc.evaluations,
                                u.wall,
                                plan.units[i].est_cost / 1e6,
                                u.acc.failures_total
                            );
                        }
                    }
                    results.lock().unwrap()[i] = Some(r);
                }
            });
        }
    });
    let results = results.into_inner().unwrap();
    if verbose {
        eprintln!("[c18] units done at {:.1}s", budget.elapsed());
    }

    // Merge in unit order (deterministic).
    let mut total = Acc::default();
    let mut slow: Vec<(Failure, String)> = vec![];
    let mut skipped: BTreeMap<&'static str, (u64, u64)> = BTreeMap::new();
    let mut ladder_skipped = vec![];
    let mut children = 0u64;
    let mut slow_not_shrunk = 0u64;
    let mut by_group: BTreeMap<&'static str, u64> = BTreeMap::new();
    for (i, r) in results.into_iter().enumerate() {
        let g = plan.units[i].group;
        match r {
            None => {
                let e = skipped.entry(g).or_default();
                e.0 += 1;
                e.1 += plan.units[i].job.size();
            }
            Some(Err(e)) => {
                let _ = std::fs::remove_dir_all(&runner.dir);
                return Err(format!("unit '{}': {}", plan.units[i].job.describe(), e));
            }
            Some(Ok(u)) => {
                *by_group.entry(g).or_default() += u.acc.evaluations;
                total.merge(u.acc);
                slow.extend(u.slow);
                ladder_skipped.extend(u.notes.ladder_skipped);
                children += u.notes.children;
                slow_not_shrunk += u.notes.slow_not_shrunk;
            }
        }
    }
    let mut caps = plan.caps.clone();
    let mut exhaustive = plan.exhaustive_by_construction;
    for (g, (n, cases)) in &skipped {
        caps.push(format!(
            "budget: {} '{}' units ({} cases) not started because the wall-clock budget of {:.0} s was used up",
            n, g, cases, budget_s
        ));
        exhaustive = false;
    }
    if !ladder_skipped.is_empty() {
        exhaustive = false;
        caps.push(format!("ladders: {} families had depths skipped after consecutive time-outs", ladder_skipped.len()));
    }
    if slow_not_shrunk > 0 {
        caps.push(format!(
            "shrinking: {} further groups of timed-out/crashing inputs were not shrunk (at most {} groups and {} re-runs per unit) and are not reported as separate violations",
            slow_not_shrunk, SLOW_GROUPS_PER_UNIT, SLOW_EVALS_PER_UNIT
        ));
    }
    if total.failures_total as usize > total.failures.len() {
        caps.push(format!(
            "failures: {} failing inputs in total, {} kept for shrinking (at most 40 per slice and per (kind, site); every (kind, site) is represented)",
            total.failures_total,
            total.failures.len()
        ));
    }

    // Shrink panics / bad spans in children (in-process shrinker), 40 items per job.
    let mut fast_items: Vec<&Failure> = total.failures.iter().filter(|f| !is_slow_kind(&f.kind)).collect();
    fast_items.sort_by(|x, y| (&x.kind, &x.refine, x.text.len(), &x.text).cmp(&(&y.kind, &y.refine, y.text.len(), &y.text)));
    fast_items.dedup_by(|x, y| x.kind == y.kind && x.refine == y.refine && x.text == y.text);
    // at most 300 (shortest) per (kind, refine)
    let mut kept: Vec<&Failure> = vec![];
    let mut per_group: BTreeMap<(String, String), usize> = BTreeMap::new();
    let mut not_shrunk = 0u64;
    for f in fast_items {
        let c = per_group.entry((f.kind.clone(), f.refine.clone())).or_default();
        if *c < 300 {
            *c += 1;
            kept.push(f);
        } else {
            not_shrunk += 1;
        }
    }
    if not_shrunk > 0 {
        caps.push(format!("shrinking: {} further failing inputs of already represented (kind, location) groups not shrunk individually", not_shrunk));
    }
    let shrink_jobs: Vec<(usize, Job)> = kept
        .chunks(40)
        .enumerate()
        .map(|(k, c)| {
            (
                k * 40,
                Job::Shrink {
                    items: c
                        .iter()
                        .map(|f| ShrinkItem {
                            text: f.text.clone(),
                            kind: f.kind.clone(),
                            refine: f.refine.clone(),
                        })
                        .collect(),
                },
            )
        })
        .collect();
    let cores: Mutex<BTreeMap<usize, String>> = Mutex::new(BTreeMap::new());
    let shrink_err: Mutex<Option<String>> = Mutex::new(None);
    let nexts = AtomicUsize::new(0);
    std::thread::scope(|sc| {
        for _ in 0..threads.min(shrink_jobs.len().max(1)) {
            sc.spawn(|| {
                loop {
                    let i = nexts.fetch_add(1, Ordering::SeqCst);
                    if i >= shrink_jobs.len() {
                        break;
                    }
                    let (base, job) = &shrink_jobs[i];
                    let mut notes = JobNotes::default();
                    match runner.run_job(job, &mut notes) {
                        Ok(acc) => {
                            let mut c = cores.lock().unwrap();
                            for (idx, core, _) in acc.cores {
                                c.insert(base + idx as usize, core);
                            }
                        }
                        Err(e) => *shrink_err.lock().unwrap() = Some(e),
                    }
                }
            });
        }
    });
    if let Some(e) = shrink_err.into_inner().unwrap() {
        let _ = std::fs::remove_dir_all(&runner.dir);
        return Err(format!("shrinking: {}", e));
    }
    let cores = cores.into_inner().unwrap();
    if verbose {
        eprintln!("[c18] shrinking of {} inputs done at {:.1}s", kept.len(), budget.elapsed());
    }

    // Violations: one per signature; witness = shortest original (fast kinds) / longest (slow kinds).
    let mut by_sig: BTreeMap<String, (Failure, String, u64)> = BTreeMap::new();
    for (i, f) in kept.iter().enumerate() {
        let core = cores.get(&i).cloned().unwrap_or_else(|| f.text.clone());
        let sig = format!("{}: {}", f.kind, shrink::render_core(&core, false));
        match by_sig.get_mut(&sig) {
            Some(e) => {
                e.2 += 1;
                if (f.text.len(), &f.text) < (e.0.text.len(), &e.0.text) {
                    e.0 = (*f).clone();
                    e.1 = core;
                }
            }
            None => {
                by_sig.insert(sig, ((*f).clone(), core, 1));
            }
        }
    }
    for (f, core) in &slow {
        let sig = format!("{}: {}", f.kind, shrink::render_core(core, true));
        match by_sig.get_mut(&sig) {
            Some(e) => {
                e.2 += 1;
                if (f.text.len(), &f.text) > (e.0.text.len(), &e.0.text) {
                    e.0 = f.clone();
                    e.1 = core.clone();
                }
            }
            None => {
                by_sig.insert(sig, (f.clone(), core.clone(), 1));
            }
        }
    }
    let mut violations = vec![];
    for (sig, (f, core, n)) in &by_sig {
        violations.push(Violation {
            signature: sig.clone(),
            summary: format!(
                "{} — minimal core {} ({} bytes); first seen as: {}; {} shrunk witness(es) reach this core",
                f.observed,
                clip(&serde_json::to_string(core).unwrap(), 200),
                core.len(),
                f.label,
                n
            ),
            replay: json!({
                "kind": f.kind,
                "refine": f.refine,
                "core": core,
                "original": f.text,
                "label": f.label,
                "observed": f.observed,
            }),
        });
    }
    let _ = std::fs::remove_dir_all(&runner.dir);

    let distinct_ok = total.ok_hashes.len();
    let distinct_err_classes = total.err_classes.len();
    let mut samples: Vec<J> = total
        .samples
        .values()
        .take(16)
        .map(|s| json!({"class": s.class, "input": s.input, "case": s.label, "outcome": s.outcome}))
        .collect();
    samples.sort_by_key(|s| s["input"].as_str().map(|x| x.len()).unwrap_or(0));
    let internal: Vec<J> = total
        .internal_msgs
        .iter()
        .map(|(m, (n, ex))| json!({"message": m, "count": n, "shortest_input": clip(ex, 200)}))
        .collect();
    let coverage = json!({
        "evaluations": total.evaluations,
        "distinct_nontrivial": distinct_ok + distinct_err_classes,
        "distinct_inputs_accepted_by_parser": distinct_ok,
        "distinct_parse_error_classes": distinct_err_classes,
        "rule": "Cases are input texts: (i) every string of <= max_tokens tokens over token_alphabet; (ii) for every corpus source every char-boundary prefix and every single-token deletion / duplication / substitution by each alphabet token; (iii) nesting ladders pre open^n mid close^n post for every family and depth listed. The oracle (parse returns, error span inside the input and consistent, compile returns, no panic/crash/time-out) is evaluated on every case. distinct_nontrivial = number of DISTINCT input texts the parser accepted (these reach the compiler) + number of DISTINCT (parse ErrorKind variant, span offset, span length) classes among rejected inputs; distinctness by 64-bit SipHash of the text / of the class.",
        "samples": samples,
        "exhaustive": exhaustive,
        "caps_hit": caps,
        "universe": plan.universe,
        "evaluations_by_part": by_group,
        "evaluations_by_case_kind": total.by_tag,
        "units": n_units,
        "child_processes": children,
        "outcomes": {
            "parse_ok": total.parse_ok,
            "parse_err": total.parse_err,
            "parse_err_by_kind": total.parse_err_kinds,
            "compile_ok": total.compile_ok,
            "compile_err": total.compile_err,
            "compile_err_by_kind": total.compile_err_kinds,
            "internal_errors": total.internal_errors,
            "internal_error_messages": internal,
            "compile_error_span_outside_input_not_judged": total.compile_err_span_outside_input,
            "failing_inputs": total.failures_total,
            "failing_inputs_by_kind": total.failures_by_kind,
            "failing_inputs_by_kind_and_site": total.failures_by_site,
        },
        "ladder_depths_skipped": ladder_skipped,
        "distinct_violation_signatures": by_sig.len(),
    });
    Ok(Report {
        property: "C18",
        level: "exploration",
        coverage,
        assumptions: vec![
            "A time-out is 2 s (parse) / 5 s (compile) of CPU time of the child process while one case is announced (so machine load cannot cause an alarm), with a wall-clock backstop of 60x for a case that blocks without using CPU; which depth of an exponential ladder first crosses the limit is machine dependent, therefore time-out signatures elide the length of long runs.".into(),
            "Cases run on a thread with an 8 MiB stack (the Linux main-thread default that `quiv` runs on); a stack overflow there is reported as a crash.".into(),
            "Compilation uses PackageResolver::inline() (standard library only, no file system), a fresh Program and ModuleCache per case, the core + file builtin registry, and the top-level parameter type nil, as `quiv run`/the REPL do.".into(),
            "Line = 1 + number of '\\n' before the offset; the column may count bytes, chars or UTF-16 units from the line start (1-based). Compile-error spans are not judged (the statement only locates parse errors).".into(),
            "InternalError results of the compiler count as 'an error' and are listed, not judged.".into(),
        ],
        violations,
    })
}

fn clip(s: &str, n: usize) -> String {
    if s.len() <= n {
        return s.to_string();
    }
    let mut k = n;
    while !s.is_char_boundary(k) {
        k -= 1;
    }
    format!("{}…", &s[..k])
}

pub fn replay(replay: &J) -> Result<bool, String> {
    if std::env::var_os("C18_CHILD").is_some() {
        child::child_main();
    }
    let core = replay["core"].as_str().ok_or("replay has no 'core'")?.to_string();
    let original = replay["original"].as_str().unwrap_or("").to_string();
    let kind = replay["kind"].as_str().unwrap_or("?");
    let runner = Runner::new(1, true)?;
    // The child is started through the check's own registered entry (`qv C18 --tier quick`).
    let mut texts = vec![core.clone()];
    if !original.is_empty() && original != core {
        texts.push(original.clone());
    }
    println!("  expected: parse returns Ok or an Err located inside the input within 2 s; if Ok, compile returns Ok or Err within 5 s; no panic, no crash");
    let mut violates = false;
    for (i, t) in texts.iter().enumerate() {
        let mut notes = JobNotes::default();
        let acc = runner.run_job(&Job::Texts { texts: vec![t.clone()] }, &mut notes)?;
        let name = if i == 0 { "minimal core" } else { "original input" };
        println!("  {} ({} bytes): {}", name, t.len(), clip(&serde_json::to_string(t).unwrap(), 240));
        if let Some(f) = acc.failures.first() {
            println!("    observed: VIOLATION {} — {}", f.kind, clip(&f.observed, 400));
            violates = true;
        } else if let Some((_, o, us)) = acc.outcomes.first() {
            println!("    observed: {} [{} us]", clip(&o.describe(), 400), us);
        }
    }
    println!("  recorded kind: {}", kind);
    let _ = std::fs::remove_dir_all(&runner.dir);
    Ok(violates)
}
