//! C08 — runtime type tests accept only members and never reject known members, identically when
//! run directly, after tree-shaking, and merged into an environment after other programs.

use crate::infra::{Budget, Report, Tier, Violation};
use crate::qcompile;
use crate::runsync::{self, Run};
use crate::sim;
use rayon::prelude::*;
use serde_json::{Value as J, json};
use std::collections::BTreeMap;

/// Host-side structural values and types (independent of quiver_core::types).
#[derive(Clone, Debug, PartialEq)]
enum Val {
    Int,
    Bin,
    Tup(Option<&'static str>, Vec<(Option<&'static str>, Val)>),
    Fun,
}

#[derive(Clone, Debug, PartialEq)]
enum Ty {
    Int,
    Bin,
    Tup(Option<&'static str>, Vec<(Option<&'static str>, Ty)>),
    Partial(Option<&'static str>, Vec<(&'static str, Ty)>),
    Union(Vec<Ty>),
    /// the recursive alias 'l = Nil | Cons['int, ^]
    List,
    Fun,
}

fn member(v: &Val, t: &Ty) -> Option<bool> {
    Some(match (v, t) {
        (_, Ty::Union(ts)) => {
            let mut unknown = false;
            for x in ts {
                match member(v, x) {
                    Some(true) => return Some(true),
                    None => unknown = true,
                    _ => {}
                }
            }
            if unknown {
                return None;
            }
            false
        }
        (Val::Int, Ty::Int) => true,
        (Val::Bin, Ty::Bin) => true,
        (Val::Fun, Ty::Fun) => return None,
        (Val::Tup(n, fs), Ty::Tup(tn, tfs)) => {
            if n != tn || fs.len() != tfs.len() {
                return Some(false);
            }
            let mut unknown = false;
            for ((l, fv), (tl, ft)) in fs.iter().zip(tfs.iter()) {
                if l != tl {
                    return Some(false);
                }
                match member(fv, ft) {
                    Some(false) => return Some(false),
                    None => unknown = true,
                    _ => {}
                }
            }
            if unknown {
                return None;
            }
            true
        }
        (Val::Tup(n, fs), Ty::Partial(pn, pfs)) => {
            if pn.is_some() && n != pn {
                return Some(false);
            }
            for (label, ft) in pfs {
                let Some((_, fv)) = fs.iter().find(|(l, _)| l.as_deref() == Some(*label)) else {
                    return Some(false);
                };
                match member(fv, ft) {
                    Some(false) => return Some(false),
                    None => return None,
                    _ => {}
                }
            }
            true
        }
        (Val::Tup(Some("Nil"), fs), Ty::List) if fs.is_empty() => true,
        (Val::Tup(Some("Cons"), fs), Ty::List) if fs.len() == 2 => {
            fs[0].0.is_none() && fs[1].0.is_none() && fs[0].1 == Val::Int && member(&fs[1].1, &Ty::List)?
        }
        _ => false,
    })
}

fn t(name: Option<&'static str>, fields: Vec<(Option<&'static str>, Val)>) -> Val {
    Val::Tup(name, fields)
}

fn values() -> Vec<(&'static str, Val)> {
    let u = |v: Val| (None, v);
    vec![
        ("0", Val::Int),
        ("0x01", Val::Bin),
        ("[]", t(None, vec![])),
        ("Ok", t(Some("Ok"), vec![])),
        ("A", t(Some("A"), vec![])),
        ("A[1]", t(Some("A"), vec![u(Val::Int)])),
        ("A[0x01]", t(Some("A"), vec![u(Val::Bin)])),
        ("B[1]", t(Some("B"), vec![u(Val::Int)])),
        ("[1]", t(None, vec![u(Val::Int)])),
        ("[1, 0x01]", t(None, vec![u(Val::Int), u(Val::Bin)])),
        ("[x: 1]", t(None, vec![(Some("x"), Val::Int)])),
        ("[x: 1, y: 0x01]", t(None, vec![(Some("x"), Val::Int), (Some("y"), Val::Bin)])),
        ("[y: 0x01, x: 1]", t(None, vec![(Some("y"), Val::Bin), (Some("x"), Val::Int)])),
        ("A[x: 1]", t(Some("A"), vec![(Some("x"), Val::Int)])),
        ("A[x: 0x01]", t(Some("A"), vec![(Some("x"), Val::Bin)])),
        ("Nil", t(Some("Nil"), vec![])),
        ("Cons[1, Nil]", t(Some("Cons"), vec![u(Val::Int), u(t(Some("Nil"), vec![]))])),
        (
            "Cons[1, Cons[2, Nil]]",
            t(Some("Cons"), vec![u(Val::Int), u(t(Some("Cons"), vec![u(Val::Int), u(t(Some("Nil"), vec![]))]))]),
        ),
        ("Cons[0x01, Nil]", t(Some("Cons"), vec![u(Val::Bin), u(t(Some("Nil"), vec![]))])),
        ("Cons[1, A]", t(Some("Cons"), vec![u(Val::Int), u(t(Some("A"), vec![]))])),
        ("A[[1]]", t(Some("A"), vec![u(t(None, vec![u(Val::Int)]))])),
        ("[A[1], B[1]]", t(None, vec![u(t(Some("A"), vec![u(Val::Int)])), u(t(Some("B"), vec![u(Val::Int)]))])),
        ("#'int { $ }", Val::Fun),
        ("&__integer_add__", Val::Fun),
        ("A[1, 2]", t(Some("A"), vec![u(Val::Int), u(Val::Int)])),
    ]
}

fn types() -> Vec<(&'static str, Ty)> {
    let u = |x: Ty| (None, x);
    vec![
        ("'int", Ty::Int),
        ("'bin", Ty::Bin),
        ("[]", Ty::Tup(None, vec![])),
        ("Ok", Ty::Tup(Some("Ok"), vec![])),
        ("A", Ty::Tup(Some("A"), vec![])),
        ("A['int]", Ty::Tup(Some("A"), vec![u(Ty::Int)])),
        ("A['bin]", Ty::Tup(Some("A"), vec![u(Ty::Bin)])),
        ("B['int]", Ty::Tup(Some("B"), vec![u(Ty::Int)])),
        ("['int]", Ty::Tup(None, vec![u(Ty::Int)])),
        ("['int, 'bin]", Ty::Tup(None, vec![u(Ty::Int), u(Ty::Bin)])),
        ("[x: 'int]", Ty::Tup(None, vec![(Some("x"), Ty::Int)])),
        ("A[x: 'int]", Ty::Tup(Some("A"), vec![(Some("x"), Ty::Int)])),
        ("(x: 'int)", Ty::Partial(None, vec![("x", Ty::Int)])),
        ("A(x: 'int)", Ty::Partial(Some("A"), vec![("x", Ty::Int)])),
        ("(x: 'int, y: 'bin)", Ty::Partial(None, vec![("x", Ty::Int), ("y", Ty::Bin)])),
        ("(y: 'bin)", Ty::Partial(None, vec![("y", Ty::Bin)])),
        ("('int | 'bin)", Ty::Union(vec![Ty::Int, Ty::Bin])),
        ("(A['int] | B['int])", Ty::Union(vec![Ty::Tup(Some("A"), vec![u(Ty::Int)]), Ty::Tup(Some("B"), vec![u(Ty::Int)])])),
        ("(A | [])", Ty::Union(vec![Ty::Tup(Some("A"), vec![]), Ty::Tup(None, vec![])])),
        ("A[('int | 'bin)]", Ty::Tup(Some("A"), vec![u(Ty::Union(vec![Ty::Int, Ty::Bin]))])),
        ("'l", Ty::List),
        ("Cons['int, 'l]", Ty::Tup(Some("Cons"), vec![u(Ty::Int), u(Ty::List)])),
        ("('l | 'int)", Ty::Union(vec![Ty::List, Ty::Int])),
        ("A[['int]]", Ty::Tup(Some("A"), vec![u(Ty::Tup(None, vec![u(Ty::Int)]))])),
        ("[A['int], (A['int] | B['int])]", Ty::Tup(None, vec![u(Ty::Tup(Some("A"), vec![u(Ty::Int)])), u(Ty::Union(vec![Ty::Tup(Some("A"), vec![u(Ty::Int)]), Ty::Tup(Some("B"), vec![u(Ty::Int)])]))])),
        ("(#'int -> 'int)", Ty::Fun),
        ("(#['int, 'int] -> 'int)", Ty::Fun),
        ("(#['int, 'int] -> ('int | 'bin))", Ty::Fun),
        // a union whose variants each refute one field (a refuted sub-relation must not be
        // remembered as assumed)
        ("(A[('bin | []), 'int] | A['int, ('bin | [])])", Ty::Union(vec![
            Ty::Tup(Some("A"), vec![u(Ty::Union(vec![Ty::Bin, Ty::Tup(None, vec![])])), u(Ty::Int)]),
            Ty::Tup(Some("A"), vec![u(Ty::Int), u(Ty::Union(vec![Ty::Bin, Ty::Tup(None, vec![])]))]),
        ])),
        ("A['int, 'int]", Ty::Tup(Some("A"), vec![u(Ty::Int), u(Ty::Int)])),
    ]
}

const PRELUDE: &str = "'l = Nil | Cons['int, ^]\n";

/// How the value reaches the test: at its most specific type, or widened by a never-taken
/// alternative so that the compiler sees a union.
const STATICS: &[(&str, &str, bool)] = &[
    ("exact", "x = {V}", true),
    ("widened", "x = 1 { =0 => Z9 | {V} }", false),
    ("widened2", "x = 1 { =0 => Z9[0x00] | =2 => 7 | {V} }", false),
];

/// Test forms: `{T}` is the pattern type.
const FORMS: &[(&str, &str)] = &[
    ("type-pattern", "x ={T}"),
    ("as-pattern", "x =({T})y"),
    ("tuple-field", "[x] =[{T}]"),
    ("partial-field", "[k: x] =(k: {T})"),
    ("branch", "x { ={T} => Ok | [] }"),
    ("function-dispatch", "f = #({T} | Q9) { ={T} => Ok | [] }, Q9 f =q, x ={T}"),
];

/// Pool of programs merged into the environment before the program under test (they shift and
/// deduplicate every table index).
const POOL: &[&str] = &[
    "'l = Nil | Cons['int, ^]\nq = Cons[5, Nil], q ='l",
    "a = A[1], b = B[2], [a, b] =[A[n], B[m]]",
    "p = [x: 1, y: 0x02], p =(y: 'bin)",
    "h = #('int | 'bin) { ='int => 1 | 2 }, 0x00 h",
    "%list.new",
    "z = Z9[0x00], z =Z9['bin]",
];

#[derive(Clone)]
struct Case {
    value: &'static str,
    ty: &'static str,
    stat: &'static str,
    form: &'static str,
    source: String,
    member: Option<bool>,
    exact: bool,
}

fn cases() -> Vec<Case> {
    let mut out = vec![];
    for (vs, v) in values() {
        for (ts, ty) in types() {
            let m = member(&v, &ty);
            for (sname, stat, exact) in STATICS {
                for (fname, form) in FORMS {
                    let src = format!(
                        "{}{},\n{}",
                        PRELUDE,
                        stat.replace("{V}", vs),
                        form.replace("{T}", ts)
                    );
                    out.push(Case {
                        value: vs,
                        ty: ts,
                        stat: sname,
                        form: fname,
                        source: src,
                        member: m,
                        exact: *exact,
                    });
                }
            }
        }
    }
    out
}

#[derive(Clone, Debug, PartialEq)]
enum Obs {
    Rejected,
    Accept,
    Reject,
    Other(String),
}

fn verdict_of(render: &str) -> Obs {
    match render {
        "Ok" => Obs::Accept,
        "[]" => Obs::Reject,
        other => Obs::Other(other.to_string()),
    }
}

fn run_direct(unit: &qcompile::CompiledUnit, shaken: bool) -> Obs {
    let bc = if shaken {
        unit.program.to_bytecode_optimized(unit.entry)
    } else {
        unit.bytecode()
    };
    match runsync::run(bc, &qcompile::core_builtins(), 100, false) {
        Run::Value(v, ex) => verdict_of(&crate::c02::render_impl(unit, &v, &ex)),
        Run::Error(e) => Obs::Other(format!("error {:?}", e)),
        Run::Panic(p) => Obs::Other(format!("panic {}", p)),
        Run::Budget => Obs::Other("budget".into()),
        Run::NeedsRuntime => Obs::Other("needs runtime".into()),
    }
}

/// Run `source` in an environment that has first merged the given pool programs, each an
/// independently compiled unit (so every table index of `source` is shifted and deduplicated by
/// `merge_bytecode`).
fn run_merged(source: &str, pool: &[usize]) -> Obs {
    let cfg = sim::system::Config {
        workers: 1,
        quantum: 1000,
        request_early: true,
        io: false,
        defer_effects: false,
    };
    let Ok(mut sys) = sim::system::System::boot(cfg, None) else {
        return Obs::Other("boot".into());
    };
    let builtins = qcompile::core_builtins();
    for i in pool {
        if let Ok(u) = qcompile::compile(POOL[*i], &builtins) {
            let _ = sys.start_background(u.program.to_bytecode_optimized(u.entry));
        }
    }
    let unit = match qcompile::compile(source, &builtins) {
        Ok(u) => u,
        Err(_) => {
            sys.shutdown();
            return Obs::Rejected;
        }
    };
    if let Err(e) = sys.start_entry(unit.program.to_bytecode_optimized(unit.entry)) {
        sys.shutdown();
        return Obs::Other(e);
    }
    let mut n = 0;
    loop {
        let alts = sim::explore::alternatives(&sys);
        let Some(a) = alts.first() else { break };
        let act = a.act.clone();
        if sys.apply(&act).is_err() || !sys.errors.is_empty() || n > 2000 {
            break;
        }
        n += 1;
    }
    let o = sim::outcome(&mut sys);
    let errs = sys.errors.clone();
    sys.shutdown();
    if !errs.is_empty() {
        return Obs::Other(errs.join("; "));
    }
    match o.entry {
        Some(r) => verdict_of(&r),
        None => Obs::Other("no result".into()),
    }
}

/// Static type expression of each listed value (for a test function's parameter type).
fn type_expr_of(value: &str) -> &'static str {
    match value {
        "0" => "'int",
        "0x01" => "'bin",
        "[]" => "[]",
        "Ok" => "Ok",
        "A" => "A",
        "A[1]" => "A['int]",
        "A[0x01]" => "A['bin]",
        "B[1]" => "B['int]",
        "[1]" => "['int]",
        "[1, 0x01]" => "['int, 'bin]",
        "[x: 1]" => "[x: 'int]",
        "[x: 1, y: 0x01]" => "[x: 'int, y: 'bin]",
        "[y: 0x01, x: 1]" => "[y: 'bin, x: 'int]",
        "A[x: 1]" => "A[x: 'int]",
        "A[x: 0x01]" => "A[x: 'bin]",
        "Nil" | "Cons[1, Nil]" | "Cons[1, Cons[2, Nil]]" => "'l",
        "Cons[0x01, Nil]" => "Cons['bin, Nil]",
        "Cons[1, A]" => "Cons['int, A]",
        "A[[1]]" => "A[['int]]",
        "[A[1], B[1]]" => "[A['int], B['int]]",
        "#'int { $ }" | "#'int { [~, 1] __integer_subtract__ }" => "(#'int -> 'int)",
        "&__integer_add__" => "(#['int, 'int] -> 'int)",
        "A[1, 2]" => "A['int, 'int]",
        "#'bin { $ }" => "(#'bin -> 'bin)",
        "&__integer_subtract__" => "(#['int, 'int] -> 'int)",
        _ => "[]",
    }
}

/// Function values that only the late-value configuration uses (the host membership model has
/// no function types; there the oracle is differential).
const LATE_FUNCTION_VALUES: &[&str] = &["#'int { [~, 1] __integer_subtract__ }", "#'bin { $ }", "&__integer_subtract__"];
const LATE_FUNCTION_TYPES: &[&str] = &["(#'int -> 'int)", "(#'bin -> 'bin)", "(#['int, 'int] -> 'int)"];

/// "Late value": the test lives in a function defined (and used once) on an earlier REPL line —
/// an earlier merge into the environment — and the value is built on a later line, which adds
/// new functions / tuple shapes / builtins to the environment after the test was installed. The
/// verdict must equal the verdict of the same lines compiled as one program.
fn late_value_sources(value: &str, ty: &str) -> (Vec<String>, String) {
    let tv = type_expr_of(value);
    let lines = vec![
        PRELUDE.trim_end().to_string(),
        format!("test = #({} | {} | Q9) {{ ={} => Ok | [] }}, Q9 test", ty, tv, ty),
        format!("x = {}, &x test", value),
    ];
    let one = format!("{}test = #({} | {} | Q9) {{ ={} => Ok | [] }}, Q9 test =q,\nx = {}, &x test", PRELUDE, ty, tv, ty, value);
    (lines, one)
}

fn run_late_value(value: &str, ty: &str) -> (Obs, Obs) {
    crate::sim::system::install_panic_recorder();
    let (lines, one) = late_value_sources(value, ty);
    let direct = match std::panic::catch_unwind(|| qcompile::compile(&one, &qcompile::core_builtins())) {
        Ok(Ok(u)) => run_direct(&u, false),
        _ => Obs::Rejected,
    };
    if direct == Obs::Rejected {
        return (direct, Obs::Rejected);
    }
    let Ok(mut s) = sim::session::Session::new(1, Default::default()) else {
        return (direct, Obs::Other("session".into()));
    };
    let mut last = Obs::Other("no line".into());
    for l in &lines {
        last = match s.eval(l) {
            sim::session::Eval::Value(v, _) => verdict_of(&v),
            sim::session::Eval::NoCode => Obs::Other("no code".into()),
            sim::session::Eval::ParseError(e) | sim::session::Eval::CompileError(e) => Obs::Other(format!("line rejected: {}", e)),
            sim::session::Eval::RuntimeError(e) => Obs::Other(format!("error {}", e)),
            sim::session::Eval::Broken(e) => Obs::Other(format!("broken {}", e)),
        };
    }
    s.close();
    (direct, last)
}

struct Outcome {
    case: Case,
    direct: Obs,
    shaken: Obs,
    merged: Vec<(Vec<usize>, Obs)>,
}

fn evaluate(case: &Case, pools: &[Vec<usize>]) -> Outcome {
    crate::sim::system::install_panic_recorder();
    let unit = std::panic::catch_unwind(|| qcompile::compile(&case.source, &qcompile::core_builtins()));
    let (direct, shaken) = match unit {
        Ok(Ok(u)) => (run_direct(&u, false), run_direct(&u, true)),
        _ => (Obs::Rejected, Obs::Rejected),
    };
    let mut merged = vec![];
    if direct != Obs::Rejected {
        for p in pools {
            merged.push((p.clone(), run_merged(&case.source, p)));
        }
    }
    Outcome {
        case: case.clone(),
        direct,
        shaken,
        merged,
    }
}

fn pool_sequences(max_len: usize) -> Vec<Vec<usize>> {
    let mut out: Vec<Vec<usize>> = vec![vec![]];
    let mut frontier: Vec<Vec<usize>> = vec![vec![]];
    for _ in 0..max_len {
        let mut next = vec![];
        for f in &frontier {
            for i in 0..POOL.len() {
                if f.contains(&i) {
                    continue;
                }
                let mut g = f.clone();
                g.push(i);
                next.push(g);
            }
        }
        out.extend(next.iter().cloned());
        frontier = next;
    }
    out
}

pub fn run(tier: Tier) -> Result<Report, String> {
    let thorough = tier == Tier::Thorough;
    let budget = Budget::new(if thorough { 700.0 } else { 40.0 });
    let all = cases();
    // merged configuration: every case after each single pool program (quick: a stride of the
    // cases and 3 pool histories; thorough: all cases, all sequences of <= 2 pool programs)
    let pools_quick: Vec<Vec<usize>> = vec![vec![0], vec![4, 1], vec![5, 3, 2]];
    let pools_thorough = pool_sequences(2);
    let outcomes: Vec<Outcome> = all
        .par_iter()
        .enumerate()
        .filter_map(|(i, c)| {
            if budget.exhausted() {
                return None;
            }
            let pools: Vec<Vec<usize>> = if thorough {
                if i % 4 == 0 { pools_thorough[1..].to_vec() } else { vec![vec![0, 1], vec![4, 5]] }
            } else if i % 16 == 0 {
                pools_quick.clone()
            } else {
                vec![]
            };
            Some(evaluate(c, &pools))
        })
        .collect();
    let covered = outcomes.len();
    let mut violations: BTreeMap<String, Violation> = BTreeMap::new();
    let mut rejected = 0u64;
    let mut accepted_tests = 0u64;
    let mut rejected_tests = 0u64;
    let mut obligations_accept = 0u64;
    let mut merged_runs = 0u64;
    let mut nontrivial = 0u64;
    let mut samples = vec![];
    for o in &outcomes {
        let c = &o.case;
        let tag = |what: &str| format!("{}|{} {} {}|{}", what, c.value, c.stat, c.form, c.ty);
        let mut add = |sig: String, summary: String| {
            violations.entry(sig.clone()).or_insert(Violation {
                signature: sig,
                summary,
                replay: json!({"engine": "c08", "source": c.source, "value": c.value, "type": c.ty, "static": c.stat, "form": c.form,
                               "member": c.member, "exact": c.exact}),
            });
        };
        match &o.direct {
            Obs::Rejected => {
                rejected += 1;
                continue;
            }
            Obs::Accept => {
                accepted_tests += 1;
                if c.member == Some(false) {
                    add(
                        tag("accepts-non-member"),
                        format!("`{}` ({} value, {}) accepted the value {} although it does not inhabit {}", c.source.replace('\n', " ⏎ "), c.stat, c.form, c.value, c.ty),
                    );
                }
            }
            Obs::Reject => {
                rejected_tests += 1;
                if c.exact && c.member == Some(true) {
                    obligations_accept += 1;
                    add(
                        tag("rejects-known-member"),
                        format!("`{}` ({}) rejected the value {} whose compile-time type is contained in {}", c.source.replace('\n', " ⏎ "), c.form, c.value, c.ty),
                    );
                }
            }
            Obs::Other(x) => {
                add(
                    tag("test-did-not-yield-verdict"),
                    format!("`{}` yielded {} instead of Ok / []", c.source.replace('\n', " ⏎ "), x),
                );
            }
        }
        if c.exact && c.member == Some(true) && o.direct == Obs::Accept {
            obligations_accept += 1;
        }
        if o.shaken != o.direct {
            add(
                tag("tree-shaken-differs"),
                format!("`{}`: direct {:?}, tree-shaken {:?}", c.source.replace('\n', " ⏎ "), o.direct, o.shaken),
            );
        }
        for (p, m) in &o.merged {
            merged_runs += 1;
            if *m != o.direct {
                add(
                    tag("merged-differs"),
                    format!("`{}`: direct {:?}, merged after pool programs {:?} {:?}", c.source.replace('\n', " ⏎ "), o.direct, p, m),
                );
            }
        }
        nontrivial += 1;
        if samples.len() < 4 && c.form == "branch" && c.stat == "widened" && o.direct == Obs::Accept {
            samples.push(json!({"source": c.source, "value": c.value, "pattern_type": c.ty, "verdict": "Ok", "host_membership": c.member}));
        }
    }
    // receive-source form: a typed receive must take the earliest message of its type
    let mut recv_cases = 0u64;
    let msgs = [("1", "'int"), ("0x01", "'bin"), ("A[1]", "A['int]"), ("B[1]", "B['int]"), ("[x: 1]", "[x: 'int]"), ("Cons[1, Nil]", "'l")];
    for (m1, _t1) in msgs.iter() {
        for (m2, t2) in msgs.iter() {
            if m1 == m2 {
                continue;
            }
            let any = "('int | 'bin | A['int] | B['int] | [x: 'int] | 'l)";
            let src = format!(
                "{p}'m = {any}\nr = @{{ a = ! [#{t2}], b = !#'m, [a, b] }},\n{m1} r,\n{m2} r,\n!r",
                p = PRELUDE, any = any, t2 = t2, m1 = m1, m2 = m2
            );
            recv_cases += 1;
            let want = format!("[{}, {}]", m2, m1);
            let got = run_process_program(&src);
            if got != want {
                let sig = format!("typed-receive|{} then {}|{}", m1, m2, t2);
                violations.entry(sig.clone()).or_insert(Violation {
                    signature: sig,
                    summary: format!("receiver `! [#{}]` with mailbox [{}, {}] then `!any` reported {} instead of {}", t2, m1, m2, got, want),
                    replay: json!({"engine": "c08", "source": src, "want": want}),
                });
            }
        }
    }
    // process values: a process reaches the test through a union-typed variable; verdict as
    // compiled = verdict tree-shaken (the compatibility table derives a process value's type
    // from the function it runs and needs that type's table entry to survive the shake)
    let mut proc_cases = 0u64;
    let proc_types = ["(@'int)", "(@'bin)", "('int | (@'int))", "(@'int -> 'int)", "(@'int -> 'bin)", "'int", "(#'int -> 'int)"];
    let proc_forms = ["x ={T}", "x =({T})y", "x { ={T} => Ok | [] }", "[x] =[{T}]"];
    for ty in proc_types.iter() {
        for form in proc_forms.iter() {
            let src = format!("p = @{{ !'int }},\nx = 1 {{ =0 => 5 | &p }},\n{}", form.replace("{T}", ty));
            proc_cases += 1;
            let direct = run_process_program_as(&src, false);
            let shaken = run_process_program_as(&src, true);
            if direct != shaken {
                let sig = format!("tree-shaken-differs|process value {}|{}", form, ty);
                violations.entry(sig.clone()).or_insert(Violation {
                    signature: sig,
                    summary: format!("`{}`: as compiled {}, tree-shaken {}", src.replace('\n', " ⏎ "), direct, shaken),
                    replay: json!({"engine": "c08", "kind": "process-value", "source": src}),
                });
            }
        }
    }
    // late-value configuration (see run_late_value)
    let mut late_pairs: Vec<(String, String)> = vec![];
    for (vs, _) in values() {
        for (ts, _) in types() {
            late_pairs.push((vs.to_string(), ts.to_string()));
        }
        for ts in LATE_FUNCTION_TYPES {
            late_pairs.push((vs.to_string(), ts.to_string()));
        }
    }
    for vs in LATE_FUNCTION_VALUES {
        for (ts, _) in types() {
            late_pairs.push((vs.to_string(), ts.to_string()));
        }
        for ts in LATE_FUNCTION_TYPES {
            late_pairs.push((vs.to_string(), ts.to_string()));
        }
    }
    late_pairs.sort();
    late_pairs.dedup();
    let late: Vec<((String, String), Option<(Obs, Obs)>)> = late_pairs
        .par_iter()
        .map(|(v, t)| ((v.clone(), t.clone()), if budget.exhausted() { None } else { Some(run_late_value(v, t)) }))
        .collect();
    let mut late_run = 0u64;
    let mut late_rejected = 0u64;
    let mut late_verdicts = 0u64;
    for ((v, t), r) in &late {
        let Some((direct, sess)) = r else { continue };
        late_run += 1;
        if *direct == Obs::Rejected {
            late_rejected += 1;
            continue;
        }
        if matches!(direct, Obs::Accept | Obs::Reject) {
            late_verdicts += 1;
        }
        if direct != sess {
            let sig = format!("late-value-differs|{}|{}", v, t);
            let (lines, one) = late_value_sources(v, t);
            violations.entry(sig.clone()).or_insert(Violation {
                signature: sig,
                summary: format!("test `={}` installed on an earlier REPL line, value {} built on a later line: the session yields {:?}, the same lines as one program yield {:?}", t, v, sess, direct),
                replay: json!({"engine": "c08", "kind": "late-value", "value": v, "type": t, "lines": lines, "one_program": one}),
            });
        }
    }
    let coverage = json!({
        "late_value_cases": late_run, "late_value_rejected_by_compiler": late_rejected, "late_value_with_verdict": late_verdicts,
        "process_value_programs": proc_cases,
        "evaluations": covered as u64 + recv_cases + late_run + proc_cases,
        "distinct_nontrivial": nontrivial,
        "rule": "every (value from 23 literal values, how it reaches the test: exact type / widened by a never-taken alternative (2 ways), pattern type from 26 type expressions incl. unions, partials, named/unnamed tuples, the recursive list alias, a function type, test form from 6: type pattern, as-pattern, typed tuple field, partial field, block branch, function dispatch) as its own program, run directly, tree-shaken, and (stride) as the last line of a session that first merged pool programs; plus 30 typed-receive programs. Non-trivial = accepted by the compiler and yielding a verdict.",
        "exhaustive": covered == all.len(),
        "cases": all.len(),
        "values": values().len(), "pattern_types": types().len(), "static_forms": STATICS.len(), "test_forms": FORMS.len(),
        "rejected_by_compiler_as_statically_decided": rejected,
        "runtime_accepts": accepted_tests,
        "runtime_rejects": rejected_tests,
        "member_must_accept_obligations_checked": obligations_accept,
        "merged_runs": merged_runs,
        "typed_receive_programs": recv_cases,
        "pool_programs": POOL.len(),
        "caps_hit": {"wall_budget_exhausted": budget.exhausted()},
        "samples": samples,
    });
    Ok(Report {
        property: "C08",
        level: "exploration",
        coverage,
        assumptions: vec![
            "membership is decided by a host-side structural model of the 23 values and 26 types (no literal types exist, so for a value at its most specific type, containment of that type in the pattern type is equivalent to membership of the value)".into(),
            "function-typed patterns are 'unknown' for function values and never alarm".into(),
            "resource types are exercised by C14's scenarios, not here".into(),
        ],
        violations: violations.into_values().collect(),
    })
}

fn run_process_program(src: &str) -> String {
    run_process_program_as(src, false)
}

fn run_process_program_as(src: &str, shaken: bool) -> String {
    let unit = match qcompile::compile(src, &qcompile::core_builtins()) {
        Ok(u) => u,
        Err(e) => return format!("compile error {:?}", e),
    };
    let bytecode = if shaken { unit.program.to_bytecode_optimized(unit.entry) } else { unit.bytecode() };
    let cfg = sim::system::Config {
        workers: 2,
        quantum: 1000,
        request_early: true,
        io: false,
        defer_effects: false,
    };
    struct Null;
    impl sim::explore::Monitor for Null {
        fn after(&mut self, _: &mut sim::system::System, _: &sim::system::Act) -> Vec<(String, String)> {
            vec![]
        }
        fn terminal(&mut self, _: &mut sim::system::System, _: bool) -> Vec<(String, String)> {
            vec![]
        }
    }
    let mut mon = Null;
    match sim::explore::run_once(&cfg, &bytecode, &[], &mut mon, true) {
        Ok(r) => {
            let mut sys = r.sys.unwrap();
            let o = sim::outcome(&mut sys);
            sys.shutdown();
            o.entry.unwrap_or_else(|| "<no result>".into())
        }
        Err(e) => format!("machinery {}", e),
    }
}

pub fn replay(replay: &J) -> Result<bool, String> {
    if replay["kind"].as_str() == Some("process-value") {
        let src = replay["source"].as_str().ok_or("no source")?;
        let (d, s) = (run_process_program_as(src, false), run_process_program_as(src, true));
        println!("  source:\n{}\n  as compiled {}, tree-shaken {}", src, d, s);
        return Ok(d != s);
    }
    if replay["kind"].as_str() == Some("late-value") {
        let v = replay["value"].as_str().ok_or("no value")?;
        let t = replay["type"].as_str().ok_or("no type")?;
        let (direct, sess) = run_late_value(v, t);
        println!("  lines: {:?}\n  observed: session {:?}, one program {:?}", late_value_sources(v, t).0, sess, direct);
        return Ok(direct != Obs::Rejected && direct != sess);
    }
    let src = replay["source"].as_str().ok_or("no source")?;
    println!("  source:\n{}", src);
    if let Some(want) = replay["want"].as_str() {
        let got = run_process_program(src);
        println!("  observed: {}  expected: {}", got, want);
        return Ok(got != want);
    }
    let member = replay["member"].as_bool();
    let exact = replay["exact"].as_bool().unwrap_or(false);
    let case = Case {
        value: "",
        ty: "",
        stat: "",
        form: "",
        source: src.to_string(),
        member,
        exact,
    };
    let o = evaluate(&case, &[vec![0], vec![4, 1], vec![5, 3, 2]]);
    println!("  host membership: {:?} (exact static type: {})", member, exact);
    println!("  observed: direct {:?}, tree-shaken {:?}, merged {:?}", o.direct, o.shaken, o.merged);
    let bad = (o.direct == Obs::Accept && member == Some(false))
        || (o.direct == Obs::Reject && exact && member == Some(true))
        || (o.direct != Obs::Rejected && o.shaken != o.direct)
        || o.merged.iter().any(|(_, m)| o.direct != Obs::Rejected && *m != o.direct)
        || matches!(o.direct, Obs::Other(_));
    Ok(bad)
}
