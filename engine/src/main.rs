#![allow(dead_code, unused_variables, unused_imports, clippy::all)]
mod bcverify;
mod c08;
mod c01;
mod typemember;
mod c02;
mod refeval;
mod runsync;
mod c07;
mod corpus;
mod progen;
mod infra;
mod qcompile;
mod render;
mod sim;
mod c09;
mod c10;
mod c13;
mod c17;
// REGISTRY (modules): one `mod cNN;` line per Engine-B/C check
mod c19;
mod c16;
mod c20;
mod c18;
mod c12;
mod c11;

use infra::Tier;
use std::time::Instant;

fn usage() -> ! {
    eprintln!("usage: qv <ID> --tier quick|thorough | qv <ID> --replay <file> | qv probe <source> [W] [Q]");
    std::process::exit(2);
}

fn run_check(id: &str, tier: Tier) -> Result<infra::Report, String> {
    match id {
        "C03" => sim::checks::c03(tier),
        "C04" => sim::checks::c04(tier),
        "C06" => sim::checks::c06(tier),
        "C05" => sim::checks::c05(tier),
        "C15" => sim::checks::c15(tier),
        "C14" => sim::checks::c14(tier),
        "C07" => c07::run(tier),
        "C02" => c02::run(tier),
        "C08" => c08::run(tier),
        "C01" => c01::run(tier),
        "C11" => c11::run(tier),
        "C12" => c12::run(tier),
        "C18" => c18::run(tier),
        "C20" => c20::run(tier),
        "C16" => c16::run(tier),
        "C19" => c19::run(tier),
        "C09" => c09::run(tier),
        "C10" => c10::run(tier),
        "C13" => c13::run(tier),
        "C17" => c17::run(tier),
        // REGISTRY (run): "CNN" => cNN::run(tier),
        _ => Err(format!("no check registered for {}", id)),
    }
}

fn run_replay(id: &str, path: &std::path::Path) -> i32 {
    let j = infra::read_replay(path);
    let replay = &j["replay"];
    println!("replaying {} ({})", path.display(), j["signature"].as_str().unwrap_or("?"));
    println!("  recorded: {}", j["summary"].as_str().unwrap_or(""));
    let r = match replay["engine"].as_str() {
        Some("repl-heap") => sim::replheap::replay(replay),
        Some("sim") => {
            let (mon, oracle) = sim::checks::monitor_for(id);
            sim::driver::replay(replay, mon, oracle, true)
        }
        _ => match id {
            "C07" => c07::replay(replay),
            "C02" => c02::replay(replay),
            "C08" => c08::replay(replay),
            "C01" => c01::replay(replay),
            "C11" => c11::replay(replay),
            "C12" => c12::replay(replay),
            "C18" => c18::replay(replay),
            "C20" => c20::replay(replay),
            "C16" => c16::replay(replay),
            "C19" => c19::replay(replay),
            "C09" => c09::replay(replay),
            "C10" => c10::replay(replay),
            "C13" => c13::replay(replay),
            "C17" => c17::replay(replay),
            // REGISTRY (replay): "CNN" => cNN::replay(replay),
            _ => Err(format!("no replay handler for {}", id)),
        },
    };
    match r {
        Ok(true) => {
            println!("VIOLATION property={} replay={}", id, path.display());
            1
        }
        Ok(false) => {
            println!("replay no longer violates {}", id);
            0
        }
        Err(e) => {
            eprintln!("machinery: {}", e);
            2
        }
    }
}

fn main() {
    let args: Vec<String> = std::env::args().collect();
    if args.len() < 2 {
        usage();
    }
    sim::system::install_panic_recorder();
    // the repository's own worker threads get 256 MiB stacks (value traversals recurse)
    let _ = rayon::ThreadPoolBuilder::new().stack_size(256 << 20).build_global();
    let started = Instant::now();
    match args[1].as_str() {
        "probe" => {
            let src = args.get(2).cloned().unwrap_or_else(|| usage());
            let w: usize = args.get(3).and_then(|s| s.parse().ok()).unwrap_or(2);
            let q: usize = args.get(4).and_then(|s| s.parse().ok()).unwrap_or(1000);
            probe(&src, w, q);
        }
        "probe-scenarios" => probe_scenarios(),
        "probe-explicit" => probe_explicit(&args[2], args.get(3).and_then(|s| s.parse().ok()).unwrap_or(2), args.get(4).and_then(|s| s.parse().ok()).unwrap_or(1000), args.get(5).and_then(|s| s.parse().ok()).unwrap_or(200000)),
        "judge" => {
            for src in &args[2..] {
                println!("{:?}\n  ref: {:?}", src, refeval::evaluate(src, 20000));
                match c02::judge(src) {
                    c02::Verdict::Disagree { kind, expected, observed } => println!("  DISAGREE {}: expected {} observed {}", kind, expected, observed),
                    c02::Verdict::Agree { value, .. } => println!("  agree {}", value),
                    c02::Verdict::Rejected => println!("  rejected"),
                    c02::Verdict::Abstain(w) => println!("  abstain {}", w),
                    _ => println!("  other"),
                }
            }
        }
        "judge01" => {
            for src in &args[2..] {
                let src = src.replace("\\n", "\n");
                match c01::judge(&src) {
                    c01::Verdict::Unsound { kind, detail } => {
                        let core = c01::shrink(&src, kind);
                        println!("UNSOUND {}: {}\n  core: {}\n  class: {:?}", kind, detail, core, c01::construct_class(&core));
                    }
                    c01::Verdict::Rejected => println!("rejected"),
                    c01::Verdict::Value { member, ty, value } => println!("value {} : {} ({:?})", value, ty, member),
                    c01::Verdict::DomainError(e) => println!("domain error {}", e),
                    _ => println!("other"),
                }
            }
        }
        "list-contexts" => {
            let (v, capped) = progen::in_contexts(args.get(3).and_then(|s| s.parse().ok()).unwrap_or(2), 10_000_000);
            println!("total {} capped {}", v.len(), capped);
            for p in v.iter().filter(|p| p.contains(args[2].as_str())).take(60) { println!("{}", p); }
        }
        "gen-counts" => {
            let n: usize = args.get(2).and_then(|s| s.parse().ok()).unwrap_or(3);
            println!("{:?}", progen::counts(n));
            for p in progen::programs(2, 100000).iter().step_by(37).take(40) { println!("{}", p); }
        }
        "session" => {
            let mut s = sim::session::Session::new(2, Default::default()).unwrap();
            for line in &args[2..] {
                let t = Instant::now();
                let r = s.eval(line);
                println!("{:?}  => {:?}   [{:?}]", line, r, t.elapsed());
            }
            println!("vars: {:?}", s.variables());
            s.close();
        }
        id if id.starts_with('C') => {
            let mut tier = match std::env::var("VERIF_TIER").as_deref() {
                Ok("thorough") => Tier::Thorough,
                _ => Tier::Quick,
            };
            let mut replay: Option<String> = None;
            let mut i = 2;
            while i < args.len() {
                match args[i].as_str() {
                    "--tier" => {
                        tier = match args.get(i + 1).map(|s| s.as_str()) {
                            Some("quick") => Tier::Quick,
                            Some("thorough") => Tier::Thorough,
                            _ => usage(),
                        };
                        i += 2;
                    }
                    "--replay" => {
                        replay = args.get(i + 1).cloned();
                        i += 2;
                    }
                    _ => usage(),
                }
            }
            let id_static: &str = id;
            if let Some(path) = replay {
                std::process::exit(run_replay(id_static, std::path::Path::new(&path)));
            }
            match run_check(id_static, tier) {
                Ok(report) => std::process::exit(infra::finish(report, tier, started)),
                Err(e) => {
                    eprintln!("machinery: {} check failed to run: {}", id_static, e);
                    std::process::exit(2);
                }
            }
        }
        _ => usage(),
    }
}

fn probe(src: &str, workers: usize, quantum: usize) {
    let unit = match qcompile::compile(src, &qcompile::core_builtins()) {
        Ok(u) => u,
        Err(e) => {
            println!("compile failed: {:?}", e);
            return;
        }
    };
    let cfg = sim::system::Config {
        workers,
        quantum,
        request_early: true,
        io: false,
        defer_effects: false,
    };
    let mut mon = sim::monitors::StdMonitor {
        heap: true,
        conserve: true,
        ..Default::default()
    };
    let r = sim::explore::run_once(&cfg, &unit.bytecode(), &[], &mut mon, true).unwrap();
    let mut sys = r.sys.unwrap();
    println!("actions: {}", r.labels.join(" "));
    println!("findings: {:?}", r.findings);
    println!("outcome: {:#?}", sim::outcome(&mut sys));
    sys.shutdown();
}

fn probe_scenarios() {
    let mut all = sim::scenarios::messaging_all(true);
    all.extend(sim::scenarios::bin_all());
    all.extend(sim::scenarios::select_mix_all(false));
    all.extend(sim::scenarios::fail_all());
    all.extend(sim::scenarios::res_all());
    let filter = std::env::args().nth(2);
    for sc in all {
        if let Some(f) = &filter { if !sc.id.contains(f.as_str()) { continue; } }
        println!("=== {}\n{}", sc.id, sc.source);
        for (w, q) in [(1, 1000), (2, 1), (3, 2)] {
            match sim::driver::compile_scenario(&sc) {
                Err(e) => {
                    println!("  COMPILE ERROR {}", e);
                    break;
                }
                Ok(unit) => {
                    let cfg = sim::system::Config { workers: w, quantum: q, request_early: true, io: sc.io, defer_effects: false };
                    let mut mon = sim::monitors::StdMonitor { heap: true, conserve: true, ..Default::default() };
                    let r = sim::explore::run_once(&cfg, &unit.bytecode(), &[], &mut mon, true).unwrap();
                    let mut sys = r.sys.unwrap();
                    let o = sim::outcome(&mut sys);
                    println!("  W{}q{}: {} actions, findings {:?}, entry {:?} procs {:?} errs {:?}", w, q, r.labels.len(), r.findings, o.entry, o.procs, o.errors);
                    sys.shutdown();
                }
            }
        }
    }
}

fn probe_explicit(filter: &str, workers: usize, quantum: usize, cap: usize) {
    let mut all = sim::scenarios::messaging_all(true);
    all.extend(sim::scenarios::bin_all());
    all.extend(sim::scenarios::fail_all());
    for sc in all {
        if !sc.id.contains(filter) {
            continue;
        }
        let unit = sim::driver::compile_scenario(&sc).unwrap();
        let cfg = sim::system::Config { workers, quantum, request_early: true, io: sc.io, defer_effects: false };
        let mut stats = sim::explore::Stats::default();
        let mut findings = vec![];
        let budget = infra::Budget::new(120.0);
        let mut make = || -> Box<dyn sim::explore::Monitor> { Box::new(sim::monitors::StdMonitor { conserve: true, ..Default::default() }) };
        let mut outcomes = std::collections::BTreeSet::new();
        let mut on_terminal = |sys: &mut sim::system::System| { outcomes.insert(sim::outcome(sys)); };
        let t = Instant::now();
        let c = sim::explore::explore_states(&cfg, &unit.bytecode(), &mut make, &mut stats, &mut findings, 10, cap, &mut on_terminal, &budget);
        println!("{} {}: complete={:?} states={} transitions={} terminal_runs={} max_depth={} outcomes={} findings={} in {:.1}s",
            sc.id, cfg.label(), c, stats.states, stats.transitions, stats.runs, stats.max_depth, outcomes.len(), findings.len(), t.elapsed().as_secs_f64());
    }
}
