//! Corpus extraction: plain string literals passed to `.evaluate(` in quiver-tests/tests/*.rs
//! (a small Rust-literal scanner) and the bodies of the std modules.

use std::collections::BTreeSet;
use std::path::Path;

#[derive(Clone, Debug)]
pub struct CorpusItem {
    /// e.g. `tests/tuples.rs#12` or `std/list.qv`
    pub origin: String,
    pub source: String,
}

#[derive(Default, Debug, Clone)]
pub struct ScanStats {
    pub files: usize,
    pub evaluate_calls: usize,
    pub plain_literals: usize,
    pub format_templates: usize,
    pub other_non_literal: usize,
    pub then_evaluate_calls: usize,
    pub duplicates: usize,
}

/// Parse a Rust string literal starting at `i` (which points at `"`, or `r`). Returns the decoded
/// string and the index one past the literal.
fn parse_literal(b: &[u8], i: usize) -> Option<(String, usize)> {
    if b.get(i) == Some(&b'r') {
        // raw string r"..." / r#"..."#
        let mut j = i + 1;
        let mut hashes = 0;
        while b.get(j) == Some(&b'#') {
            hashes += 1;
            j += 1;
        }
        if b.get(j) != Some(&b'"') {
            return None;
        }
        j += 1;
        let start = j;
        loop {
            if j >= b.len() {
                return None;
            }
            if b[j] == b'"' {
                let mut k = 0;
                while k < hashes && b.get(j + 1 + k) == Some(&b'#') {
                    k += 1;
                }
                if k == hashes {
                    let s = String::from_utf8(b[start..j].to_vec()).ok()?;
                    return Some((s, j + 1 + hashes));
                }
            }
            j += 1;
        }
    }
    if b.get(i) != Some(&b'"') {
        return None;
    }
    let mut out: Vec<u8> = vec![];
    let mut j = i + 1;
    loop {
        let c = *b.get(j)?;
        match c {
            b'"' => return Some((String::from_utf8(out).ok()?, j + 1)),
            b'\\' => {
                let e = *b.get(j + 1)?;
                j += 2;
                match e {
                    b'n' => out.push(b'\n'),
                    b't' => out.push(b'\t'),
                    b'r' => out.push(b'\r'),
                    b'0' => out.push(0),
                    b'\\' => out.push(b'\\'),
                    b'"' => out.push(b'"'),
                    b'\'' => out.push(b'\''),
                    b'x' => {
                        let hx = std::str::from_utf8(b.get(j..j + 2)?).ok()?;
                        out.push(u8::from_str_radix(hx, 16).ok()?);
                        j += 2;
                    }
                    b'u' => {
                        if b.get(j) != Some(&b'{') {
                            return None;
                        }
                        let end = b[j..].iter().position(|c| *c == b'}')? + j;
                        let hx = std::str::from_utf8(&b[j + 1..end]).ok()?;
                        let ch = char::from_u32(u32::from_str_radix(hx, 16).ok()?)?;
                        let mut buf = [0u8; 4];
                        out.extend_from_slice(ch.encode_utf8(&mut buf).as_bytes());
                        j = end + 1;
                    }
                    b'\n' => {
                        // line continuation: skip leading whitespace of the next line
                        while matches!(b.get(j), Some(b' ' | b'\t' | b'\n' | b'\r')) {
                            j += 1;
                        }
                    }
                    _ => return None,
                }
            }
            _ => {
                out.push(c);
                j += 1;
            }
        }
    }
}

fn skip_ws(b: &[u8], mut i: usize) -> usize {
    while matches!(b.get(i), Some(b' ' | b'\t' | b'\n' | b'\r')) {
        i += 1;
    }
    i
}

pub fn scan_rust_file(text: &str, origin: &str, stats: &mut ScanStats, out: &mut Vec<CorpusItem>) {
    let b = text.as_bytes();
    let needle = b".evaluate(";
    let mut i = 0;
    let mut ordinal = 0;
    while i + needle.len() <= b.len() {
        if &b[i..i + needle.len()] != needle {
            i += 1;
            continue;
        }
        // ignore occurrences in `//` comments
        let line_start = b[..i].iter().rposition(|c| *c == b'\n').map(|p| p + 1).unwrap_or(0);
        let line = &b[line_start..i];
        if line.windows(2).any(|w| w == b"//") {
            i += needle.len();
            continue;
        }
        stats.evaluate_calls += 1;
        ordinal += 1;
        let arg = skip_ws(b, i + needle.len());
        match parse_literal(b, arg) {
            Some((s, end)) => {
                // the literal must be the whole argument
                let mut k = skip_ws(b, end);
                if b.get(k) == Some(&b',') {
                    k = skip_ws(b, k + 1);
                }
                if b.get(k) == Some(&b')') {
                    stats.plain_literals += 1;
                    out.push(CorpusItem {
                        origin: format!("{}#{}", origin, ordinal),
                        source: s,
                    });
                } else {
                    stats.other_non_literal += 1;
                }
                i = end;
            }
            None => {
                let rest = &b[arg..(arg + 12).min(b.len())];
                if rest.starts_with(b"&format!") || rest.starts_with(b"format!") {
                    stats.format_templates += 1;
                } else {
                    stats.other_non_literal += 1;
                }
                i += needle.len();
            }
        }
    }
    stats.then_evaluate_calls += text.matches("then_evaluate(").count();
}

pub fn test_corpus(repo: &Path) -> Result<(Vec<CorpusItem>, ScanStats), String> {
    let dir = repo.join("quiver-tests/tests");
    let mut files: Vec<_> = std::fs::read_dir(&dir)
        .map_err(|e| format!("{}: {}", dir.display(), e))?
        .filter_map(|e| e.ok().map(|e| e.path()))
        .filter(|p| p.extension().map(|e| e == "rs").unwrap_or(false))
        .collect();
    files.sort();
    let mut stats = ScanStats::default();
    let mut items = vec![];
    for f in &files {
        let text = std::fs::read_to_string(f).map_err(|e| format!("{}: {}", f.display(), e))?;
        stats.files += 1;
        let origin = format!("tests/{}", f.file_name().unwrap().to_string_lossy());
        scan_rust_file(&text, &origin, &mut stats, &mut items);
    }
    // dedup by source text, keeping the first origin
    let mut seen = BTreeSet::new();
    let mut out = vec![];
    for it in items {
        if seen.insert(it.source.clone()) {
            out.push(it);
        } else {
            stats.duplicates += 1;
        }
    }
    Ok((out, stats))
}

pub fn std_modules(repo: &Path) -> Result<Vec<CorpusItem>, String> {
    let dir = repo.join("std");
    let mut files: Vec<_> = std::fs::read_dir(&dir)
        .map_err(|e| format!("{}: {}", dir.display(), e))?
        .filter_map(|e| e.ok().map(|e| e.path()))
        .filter(|p| p.extension().map(|e| e == "qv").unwrap_or(false))
        .collect();
    files.sort();
    let mut out = vec![];
    for f in files {
        let text = std::fs::read_to_string(&f).map_err(|e| format!("{}: {}", f.display(), e))?;
        out.push(CorpusItem {
            origin: format!("std/{}", f.file_name().unwrap().to_string_lossy()),
            source: text,
        });
    }
    Ok(out)
}

/// Source with string literals and `//` comments blanked (for syntactic feature detection).
pub fn strip_strings_and_comments(src: &str) -> String {
    let b = src.as_bytes();
    let mut out = String::with_capacity(src.len());
    let mut i = 0;
    while i < b.len() {
        match b[i] {
            b'"' => {
                out.push('"');
                i += 1;
                while i < b.len() && b[i] != b'"' {
                    if b[i] == b'\\' {
                        i += 1;
                    }
                    i += 1;
                }
                out.push('"');
                i += 1;
            }
            b'/' if b.get(i + 1) == Some(&b'/') => {
                while i < b.len() && b[i] != b'\n' {
                    i += 1;
                }
            }
            c => {
                out.push(c as char);
                i += 1;
            }
        }
    }
    out
}

/// Why a source is excluded from the process-free deterministic corpus (None = keep).
pub fn exclusion(src: &str) -> Option<&'static str> {
    let s = strip_strings_and_comments(src);
    if s.contains('@') {
        return Some("spawn_or_process_type");
    }
    if s.contains('!') {
        return Some("select_receive_await_timeout");
    }
    for k in [
        "__file_", "__directory_", "__dns_", "__tcp_", "__filesystem_", "%file", "%fs", "%dns", "%tcp", "%socket",
        "%io",
    ] {
        if s.contains(k) {
            return Some("io_builtin_or_module");
        }
    }
    None
}
