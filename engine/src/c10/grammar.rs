//! Exhaustive program generators for C10: all programs of a small core grammar with at most `n`
//! nodes (terms + patterns + type expressions), cores embedded in packaging-relevant contexts, and
//! a family of module-shaped records.

use std::collections::HashMap;

const ATOMS: &[&str] = &[
    "0", "1", "2", "0x", "0x01", "\"a\"", "A", "B", "[]", "Ok", "~", "a", "f", "$", ".x", ".0", "&a", "&f",
    "__integer_add__", "&__integer_add__", "&__binary_concat__",
];
const PATS1: &[&str] = &["a", "f", "_", "0", "0x01", "\"a\"", "A", "'int", "&a", "*"];
const TYPES1: &[&str] = &["'int", "'bin", "A", "[]"];
const TYPES2: &[&str] = &["B['int]", "(x: 'int)"];
const TYPES3: &[&str] = &["('int | A)"];

#[derive(Default)]
pub struct Gen {
    term: HashMap<usize, Vec<String>>,
    chain: HashMap<usize, Vec<String>>,
    step: HashMap<usize, Vec<String>>,
    seq: HashMap<usize, Vec<String>>,
    expr: HashMap<usize, Vec<String>>,
    pat: HashMap<usize, Vec<String>>,
}

fn types(n: usize) -> &'static [&'static str] {
    match n {
        1 => TYPES1,
        2 => TYPES2,
        3 => TYPES3,
        _ => &[],
    }
}

impl Gen {
    pub fn pat(&mut self, n: usize) -> Vec<String> {
        if n == 0 {
            return vec![];
        }
        if let Some(v) = self.pat.get(&n) {
            return v.clone();
        }
        let mut out: Vec<String> = vec![];
        if n == 1 {
            out.extend(PATS1.iter().map(|s| s.to_string()));
        } else {
            // one sub-pattern
            for p in self.pat(n - 1) {
                out.push(format!("[{}]", p));
                out.push(format!("A[{}]", p));
                out.push(format!("[x: {}]", p));
                out.push(format!("(x: {})", p));
            }
            // type-ascribed binder: type + binder
            for t in types(n - 1) {
                out.push(format!("({})a", t));
            }
            // two sub-patterns / alternation
            for i in 1..n - 1 {
                let ps = self.pat(i);
                let qs = self.pat(n - 1 - i);
                for p in &ps {
                    for q in &qs {
                        out.push(format!("[{}, {}]", p, q));
                        out.push(format!("({} | {})", p, q));
                    }
                }
            }
        }
        self.pat.insert(n, out.clone());
        out
    }

    fn fields(&mut self, n: usize) -> Vec<String> {
        // 1 or 2 fields (each a chain), unlabelled or labelled x / x,y
        let mut out = vec![];
        for c in self.chain(n) {
            out.push(c.clone());
            out.push(format!("x: {}", c));
        }
        for i in 1..n {
            let cs = self.chain(i);
            let ds = self.chain(n - i);
            for c in &cs {
                for d in &ds {
                    out.push(format!("{}, {}", c, d));
                    out.push(format!("x: {}, y: {}", c, d));
                }
            }
        }
        out
    }

    pub fn term(&mut self, n: usize) -> Vec<String> {
        if n == 0 {
            return vec![];
        }
        if let Some(v) = self.term.get(&n) {
            return v.clone();
        }
        let mut out: Vec<String> = vec![];
        if n == 1 {
            out.extend(ATOMS.iter().map(|s| s.to_string()));
        } else {
            for f in self.fields(n - 1) {
                out.push(format!("[{}]", f));
                out.push(format!("A[{}]", f));
                out.push(format!("B[{}]", f));
            }
            for e in self.expr(n - 1) {
                out.push(format!("{{ {} }}", e));
                out.push(format!("#{{ {} }}", e));
            }
            for tn in 1..n {
                for t in types(tn) {
                    if tn == n - 1 {
                        out.push(format!("#{}", t));
                    }
                    if n - 1 > tn {
                        for e in self.expr(n - 1 - tn) {
                            out.push(format!("#{} {{ {} }}", t, e));
                        }
                    }
                }
            }
            for p in self.pat(n - 1) {
                out.push(format!("={}", p));
            }
        }
        self.term.insert(n, out.clone());
        out
    }

    pub fn chain(&mut self, n: usize) -> Vec<String> {
        if n == 0 {
            return vec![];
        }
        if let Some(v) = self.chain.get(&n) {
            return v.clone();
        }
        let mut out = self.term(n);
        for i in 1..n {
            let ts = self.term(i);
            let cs = self.chain(n - i);
            for t in &ts {
                for c in &cs {
                    out.push(format!("{} {}", t, c));
                }
            }
        }
        self.chain.insert(n, out.clone());
        out
    }

    pub fn step(&mut self, n: usize) -> Vec<String> {
        if n == 0 {
            return vec![];
        }
        if let Some(v) = self.step.get(&n) {
            return v.clone();
        }
        let mut out = self.chain(n);
        for i in 1..n {
            let ps = self.pat(i);
            let cs = self.chain(n - i);
            for p in &ps {
                for c in &cs {
                    out.push(format!("{} = {}", p, c));
                }
            }
        }
        self.step.insert(n, out.clone());
        out
    }

    pub fn seq(&mut self, n: usize) -> Vec<String> {
        if n == 0 {
            return vec![];
        }
        if let Some(v) = self.seq.get(&n) {
            return v.clone();
        }
        let mut out = self.step(n);
        for i in 1..n {
            let ss = self.step(i);
            let rest = self.seq(n - i);
            for s in &ss {
                for r in &rest {
                    out.push(format!("{}, {}", s, r));
                }
            }
        }
        self.seq.insert(n, out.clone());
        out
    }

    pub fn expr(&mut self, n: usize) -> Vec<String> {
        if n == 0 {
            return vec![];
        }
        if let Some(v) = self.expr.get(&n) {
            return v.clone();
        }
        let mut out = self.seq(n);
        for i in 1..n {
            let xs = self.seq(i);
            let ys = self.seq(n - i);
            for x in &xs {
                for y in &ys {
                    out.push(format!("| {} | {}", x, y));
                    out.push(format!("{} => {}", x, y));
                }
            }
        }
        self.expr.insert(n, out.clone());
        out
    }

    /// All programs with exactly `n` nodes.
    pub fn programs(&mut self, n: usize) -> Vec<String> {
        self.seq(n)
    }
}

/// Contexts a core is embedded in (the core always sits in a block of its own).
pub const CONTEXTS: &[(&str, &str)] = &[
    ("closure-capture", "a = { CORE }, #{ &a }"),
    ("capture-and-apply", "a = { CORE }, g = #'int { [&a, ~] }, [&g, 5 g]"),
    ("record-of-core-and-thunk", "[x: { CORE }, y: #{ { CORE } }]"),
    ("type-dispatch", "{ CORE } { | =A => B | =('int)n => A[n] | ='bin => 0x02 | =[] => 0 | [~] }"),
    ("nested-closures", "a = { CORE }, #{ #{ [&a, 0x03] } }"),
    ("two-captures", "a = { CORE }, b = 7, #'int { [&b, ~, &a] }"),
];

pub fn embed(core: &str, ctx: &str) -> String {
    ctx.replace("CORE", core)
}

/// Module-shaped records: optional prelude binding captured by function-valued fields.
pub fn module_family() -> Vec<String> {
    let preludes = ["3", "0x02", "B[1]", "#{ 4 }"];
    let fields = [
        "1",
        "0x01",
        "\"a\"",
        "A[2]",
        "[y: 0]",
        "&__integer_add__",
        "#{ 7 }",
        "#'int { [~, 1] __integer_add__ }",
        "#{ &a }",
        "#'int { [&a, ~] }",
        "#{ #{ &a } }",
        "&a",
        "#{ [&a, &b] }",
        "#'int { [&b, ~, &a] }",
    ];
    let mut out = vec![];
    for p in preludes {
        for f in fields {
            out.push(format!("a = {}, b = 0x05, [x: {}]", p, f));
        }
        for f in fields {
            for g in fields {
                out.push(format!("a = {}, b = 0x05, [x: {}, y: {}]", p, f, g));
            }
        }
    }
    out
}
