//! Index-free ("structural") rendering of runtime values for C10.
//!
//! Every packaging step (tree-shake, merge, capture injection) renumbers the constant / function /
//! tuple / type / builtin tables, so a value such as `Function(7, [..])` or `Builtin(3)` cannot be
//! compared by index across two packagings. Here a function value is rendered as a fingerprint of
//! the function *it denotes in its own table set*: captures count, callable type, and the
//! instruction list with every table operand replaced by what it refers to (the constant's value,
//! the tuple's name/labels/field types, the type's structure, the builtin's name, the referenced
//! function's own fingerprint). Two packagings of one program must produce the same rendering.

use quiver_core::bytecode::{Bytecode, Constant, Function, Instruction};
use quiver_core::program::Program;
use quiver_core::types::{BuiltinInfo, TupleTypeInfo, Type};
use quiver_core::value::{Binary, Value};
use std::cell::RefCell;
use std::collections::{BTreeMap, HashMap};

#[derive(Clone, Copy)]
pub struct Tables<'a> {
    pub constants: &'a [Constant],
    pub functions: &'a [Function],
    pub builtins: &'a [BuiltinInfo],
    pub tuples: &'a [TupleTypeInfo],
    pub types: &'a [Type],
}

impl<'a> Tables<'a> {
    pub fn of_bytecode(b: &'a Bytecode) -> Self {
        Tables {
            constants: &b.constants,
            functions: &b.functions,
            builtins: &b.builtins,
            tuples: &b.tuples,
            types: &b.types,
        }
    }
    pub fn of_program(p: &'a Program) -> Self {
        Tables {
            constants: p.get_constants(),
            functions: p.get_functions(),
            builtins: p.get_builtins(),
            tuples: p.get_tuples(),
            types: p.get_types(),
        }
    }
}

fn h(s: &str) -> String {
    format!("{:016x}", (crate::sim::explore::hash128(s) >> 64) as u64 ^ crate::sim::explore::hash128(s) as u64)
}

pub struct Canon<'a> {
    pub t: Tables<'a>,
    type_memo: RefCell<HashMap<usize, String>>,
    tuple_memo: RefCell<HashMap<usize, String>>,
    fn_memo: RefCell<HashMap<usize, String>>,
    fn_stack: RefCell<Vec<usize>>,
    depth: RefCell<usize>,
    /// Render function values opaquely (`#fn`). Used where the two sides are two different
    /// *compilations* of the same text (a REPL line after other lines): inferred types, tuple
    /// field types and even the capture list (a free name in dead code that an earlier line
    /// happens to bind) may legitimately differ there, so only the data part is compared.
    pub ignore_fn_types: bool,
}

impl<'a> Canon<'a> {
    pub fn new(t: Tables<'a>) -> Self {
        Canon {
            t,
            type_memo: RefCell::new(HashMap::new()),
            tuple_memo: RefCell::new(HashMap::new()),
            fn_memo: RefCell::new(HashMap::new()),
            fn_stack: RefCell::new(vec![]),
            depth: RefCell::new(0),
            ignore_fn_types: false,
        }
    }

    pub fn loose(t: Tables<'a>) -> Self {
        let mut c = Canon::new(t);
        c.ignore_fn_types = true;
        c
    }

    fn fn_type(&self, type_id: usize) -> String {
        if self.ignore_fn_types { "-".to_string() } else { self.type_fp(type_id) }
    }

    /// Structural fingerprint of a type id (ids form a DAG; recursion is `Type::Cycle(depth)`).
    pub fn type_fp(&self, id: usize) -> String {
        if let Some(s) = self.type_memo.borrow().get(&id) {
            return s.clone();
        }
        {
            let mut d = self.depth.borrow_mut();
            if *d > 400 {
                return format!("type-too-deep:{}", id);
            }
            *d += 1;
        }
        let s = match self.t.types.get(id) {
            None => format!("type?{}", id),
            Some(Type::Integer) => "int".to_string(),
            Some(Type::Binary) => "bin".to_string(),
            Some(Type::Reference) => "ref".to_string(),
            Some(Type::Cycle(d)) => format!("cycle{}", d),
            Some(Type::Variable(n)) => format!("var:{}", n),
            Some(Type::Resource(n)) => format!("res:{}", n),
            Some(Type::Tuple(t)) => format!("tup:{}", self.tuple_fp(*t)),
            Some(Type::Partial { name, fields }) => {
                let mut s = format!("partial:{:?}(", name);
                for (n, t) in fields {
                    s.push_str(&format!("{}:{},", n, self.type_fp(*t)));
                }
                s.push(')');
                h(&s)
            }
            Some(Type::Callable {
                parameter,
                result,
                receive,
            }) => h(&format!(
                "fn({})->{}~{}",
                self.type_fp(*parameter),
                self.type_fp(*result),
                self.type_fp(*receive)
            )),
            Some(Type::Union(ids)) => {
                // Variant order carries no meaning for membership: sort and dedup.
                let mut v: Vec<String> = ids.iter().map(|i| self.type_fp(*i)).collect();
                v.sort();
                v.dedup();
                h(&format!("union[{}]", v.join("|")))
            }
            Some(Type::Process { send, receive }) => h(&format!(
                "proc({:?},{:?})",
                send.map(|i| self.type_fp(i)),
                receive.map(|i| self.type_fp(i))
            )),
        };
        *self.depth.borrow_mut() -= 1;
        self.type_memo.borrow_mut().insert(id, s.clone());
        s
    }

    /// Readable structural text of a type (debugging aid; unions in table order).
    pub fn type_text(&self, id: usize, depth: usize) -> String {
        if depth > 12 {
            return "…".into();
        }
        match self.t.types.get(id) {
            None => format!("type?{}", id),
            Some(Type::Integer) => "'int".into(),
            Some(Type::Binary) => "'bin".into(),
            Some(Type::Reference) => "'ref".into(),
            Some(Type::Cycle(d)) => format!("μ{}", d),
            Some(Type::Variable(n)) => format!("'{}", n),
            Some(Type::Resource(n)) => format!("\\{}", n),
            Some(Type::Tuple(t)) => match self.t.tuples.get(*t) {
                None => format!("tuple?{}", t),
                Some(info) => format!(
                    "{}[{}]",
                    info.name.clone().unwrap_or_default(),
                    info.fields
                        .iter()
                        .map(|(n, t)| format!("{}{}", n.as_ref().map(|n| format!("{}: ", n)).unwrap_or_default(), self.type_text(*t, depth + 1)))
                        .collect::<Vec<_>>()
                        .join(", ")
                ),
            },
            Some(Type::Partial { name, fields }) => format!(
                "{}({})",
                name.clone().unwrap_or_default(),
                fields.iter().map(|(n, t)| format!("{}: {}", n, self.type_text(*t, depth + 1))).collect::<Vec<_>>().join(", ")
            ),
            Some(Type::Callable { parameter, result, receive }) => format!(
                "(#{} -> {} ~{})",
                self.type_text(*parameter, depth + 1),
                self.type_text(*result, depth + 1),
                self.type_text(*receive, depth + 1)
            ),
            Some(Type::Union(ids)) => format!("({})", ids.iter().map(|i| self.type_text(*i, depth + 1)).collect::<Vec<_>>().join(" | ")),
            Some(Type::Process { send, receive }) => format!(
                "@({:?},{:?})",
                send.map(|i| self.type_text(i, depth + 1)),
                receive.map(|i| self.type_text(i, depth + 1))
            ),
        }
    }

    pub fn tuple_fp(&self, id: usize) -> String {
        if let Some(s) = self.tuple_memo.borrow().get(&id) {
            return s.clone();
        }
        let s = match self.t.tuples.get(id) {
            None => format!("tuple?{}", id),
            Some(info) => {
                let mut s = format!("{:?}[", info.name);
                for (n, t) in &info.fields {
                    s.push_str(&format!("{:?}:{},", n, self.type_fp(*t)));
                }
                s.push(']');
                h(&s)
            }
        };
        self.tuple_memo.borrow_mut().insert(id, s.clone());
        s
    }

    pub fn const_str(&self, id: usize) -> String {
        match self.t.constants.get(id) {
            None => format!("const?{}", id),
            Some(Constant::Integer(i)) => i.to_string(),
            Some(Constant::Binary(b)) => {
                format!("0x{}", b.iter().map(|b| format!("{:02x}", b)).collect::<String>())
            }
        }
    }

    pub fn builtin_name(&self, id: usize) -> String {
        match self.t.builtins.get(id) {
            None => format!("builtin?{}", id),
            Some(b) => format!(
                "{}({}->{})",
                b.name,
                self.type_fp(b.param_type),
                self.type_fp(b.result_type)
            ),
        }
    }

    /// Human-readable, index-free listing of a function (used in summaries / replays).
    pub fn func_listing(&self, idx: usize) -> Vec<String> {
        let Some(f) = self.t.functions.get(idx) else {
            return vec![format!("fn?{}", idx)];
        };
        let mut out = vec![format!("captures={} type={}", f.captures, self.fn_type(f.type_id))];
        for ins in &f.instructions {
            out.push(match ins {
                Instruction::Constant(i) => format!("Constant {}", self.const_str(*i)),
                Instruction::Tuple(i) => format!("Tuple {}", self.tuple_fp(*i)),
                Instruction::IsType(i) => format!("IsType {}", self.type_fp(*i)),
                Instruction::Function(i) => format!("Function {}", self.func_fp(*i)),
                Instruction::Builtin(i) => format!("Builtin {}", self.builtin_name(*i)),
                Instruction::Process(p, i) => format!("Process {} {}", p, self.func_fp(*i)),
                other => format!("{:?}", other),
            });
        }
        out
    }

    pub fn func_fp(&self, idx: usize) -> String {
        if let Some(s) = self.fn_memo.borrow().get(&idx) {
            return s.clone();
        }
        if self.fn_stack.borrow().contains(&idx) {
            return "rec".to_string();
        }
        if self.t.functions.get(idx).is_none() {
            return format!("fn?{}", idx);
        }
        self.fn_stack.borrow_mut().push(idx);
        let s = h(&self.func_listing(idx).join(";"));
        self.fn_stack.borrow_mut().pop();
        self.fn_memo.borrow_mut().insert(idx, s.clone());
        s
    }

    /// The instruction sequence `Program::value_to_instructions` is specified to emit for a value,
    /// in index-free form.
    fn value_instrs(&self, v: &Value, heap: &[Vec<u8>], refs: &mut BTreeMap<u64, usize>, out: &mut Vec<String>) {
        match v {
            Value::Integer(_) | Value::Binary(_) => out.push(format!("Constant {}", self.render(v, heap, refs))),
            Value::Tuple(id, fields) => {
                for f in fields.iter() {
                    self.value_instrs(f, heap, refs, out);
                }
                out.push(format!("Tuple {}", self.tuple_fp(*id)));
            }
            Value::Function(idx, caps) => out.push(format!("Function {}", self.closure_fp(*idx, caps, heap, refs))),
            Value::Builtin(i) => out.push(format!("Builtin {}", self.builtin_name(*i))),
            other => out.push(format!("Opaque {}", self.render(other, heap, refs))),
        }
    }

    /// Fingerprint of a closure in *normal form*: a closure `Function(f, [c1..ck])` and the
    /// capture-free function that `inject_function_captures(f, [c1..ck])` is specified to build
    /// (for each capture: the instructions reconstructing it, `Store`; then f's body; captures 0;
    /// f's type) denote the same callable, and both get the fingerprint of the latter. This is
    /// what lets a result be compared across the capture-injection step without loosening
    /// anything: the captured values stay part of the fingerprint.
    pub fn closure_fp(&self, idx: usize, caps: &[Value], heap: &[Vec<u8>], refs: &mut BTreeMap<u64, usize>) -> String {
        if caps.is_empty() {
            return self.func_fp(idx);
        }
        let Some(f) = self.t.functions.get(idx) else { return format!("fn?{}", idx) };
        if f.captures != caps.len() {
            return format!("closure-arity-mismatch:{}:{}vs{}", self.func_fp(idx), f.captures, caps.len());
        }
        let listing = self.func_listing(idx);
        let mut out = vec![format!("captures=0 type={}", self.fn_type(f.type_id))];
        for c in caps {
            self.value_instrs(c, heap, refs, &mut out);
            out.push("Store".to_string());
        }
        out.extend(listing.into_iter().skip(1));
        h(&out.join(";"))
    }

    pub fn bytes(&self, b: &Binary, heap: &[Vec<u8>]) -> Option<Vec<u8>> {
        match b {
            Binary::Heap(i) => heap.get(*i).cloned(),
            Binary::Constant(i) => match self.t.constants.get(*i) {
                Some(Constant::Binary(b)) => Some(b.clone()),
                _ => None,
            },
        }
    }

    pub fn render(&self, v: &Value, heap: &[Vec<u8>], refs: &mut BTreeMap<u64, usize>) -> String {
        match v {
            Value::Integer(i) => i.to_string(),
            Value::Binary(b) => match self.bytes(b, heap) {
                Some(bytes) => format!(
                    "0x{}",
                    bytes.iter().map(|b| format!("{:02x}", b)).collect::<String>()
                ),
                None => format!("<dangling {:?}>", b),
            },
            Value::Reference(r) => {
                let next = refs.len();
                let k = *refs.entry(*r).or_insert(next);
                format!("&ref{}", k)
            }
            Value::Tuple(id, fields) => {
                let (name, labels) = match self.t.tuples.get(*id) {
                    Some(t) => (t.name.clone(), t.fields.iter().map(|(n, _)| n.clone()).collect()),
                    None => (Some(format!("T?{}", id)), vec![]),
                };
                let labels: Vec<Option<String>> = labels;
                if self.t.tuples.get(*id).map(|t| t.fields.len() != fields.len()).unwrap_or(false) {
                    return format!(
                        "<tuple {:?} arity {} vs table arity {}>",
                        name,
                        fields.len(),
                        labels.len()
                    );
                }
                let inner: Vec<String> = fields
                    .iter()
                    .enumerate()
                    .map(|(i, f)| match labels.get(i).cloned().flatten() {
                        Some(l) => format!("{}: {}", l, self.render(f, heap, refs)),
                        None => self.render(f, heap, refs),
                    })
                    .collect();
                match (name, inner.is_empty()) {
                    (Some(n), true) => n,
                    (Some(n), false) => format!("{}[{}]", n, inner.join(", ")),
                    (None, _) => format!("[{}]", inner.join(", ")),
                }
            }
            Value::Function(idx, caps) => {
                if self.ignore_fn_types {
                    "#fn".to_string()
                } else {
                    format!("#fn<{}>", self.closure_fp(*idx, caps, heap, refs))
                }
            }
            Value::Builtin(i) => match self.t.builtins.get(*i) {
                Some(b) => format!("__{}__", b.name),
                None => format!("__builtin?{}__", i),
            },
            Value::Process(pid, _) => format!("@{}", pid),
            Value::Resource(id, ty) => format!("\\#{}:{}", id, ty),
        }
    }
}

/// Does the value mention anything that cannot be re-emitted as instructions / compared across
/// runs (process ids, resources, refs)?
pub fn opaque_kinds(v: &Value, out: &mut (bool, bool, bool)) {
    match v {
        Value::Process(..) => out.0 = true,
        Value::Resource(..) => out.1 = true,
        Value::Reference(_) => out.2 = true,
        Value::Tuple(_, f) => f.iter().for_each(|x| opaque_kinds(x, out)),
        Value::Function(_, c) => c.iter().for_each(|x| opaque_kinds(x, out)),
        _ => {}
    }
}

pub fn has_function(v: &Value) -> bool {
    match v {
        Value::Function(..) | Value::Builtin(_) => true,
        Value::Tuple(_, f) => f.iter().any(has_function),
        _ => false,
    }
}
