//! Deterministic shrinking of failing (program, path) cases to a minimal core = the signature.

use super::{Ctx, Failure, PathSpec, Verdict, base, observe_case as observe, violation_of};
use crate::infra::{Tier, Violation};
use rayon::prelude::*;
use std::collections::{BTreeMap, BTreeSet};

#[derive(Clone, Debug)]
struct Tok {
    ws: String,
    text: String,
}

fn tokenize(src: &str) -> Vec<Tok> {
    let b: Vec<char> = src.chars().collect();
    let mut out = vec![];
    let mut i = 0;
    while i < b.len() {
        let mut ws = String::new();
        loop {
            while i < b.len() && b[i].is_whitespace() {
                ws.push(b[i]);
                i += 1;
            }
            // comments are dropped by the first shrink step (they become whitespace)
            if i + 1 < b.len() && b[i] == '/' && b[i + 1] == '/' {
                while i < b.len() && b[i] != '\n' {
                    i += 1;
                }
                continue;
            }
            break;
        }
        if i >= b.len() {
            break;
        }
        let c = b[i];
        let mut text = String::new();
        if c == '"' {
            text.push(c);
            i += 1;
            while i < b.len() && b[i] != '"' {
                if b[i] == '\\' && i + 1 < b.len() {
                    text.push(b[i]);
                    i += 1;
                }
                text.push(b[i]);
                i += 1;
            }
            if i < b.len() {
                text.push('"');
                i += 1;
            }
        } else if c.is_alphanumeric() || c == '_' {
            while i < b.len() && (b[i].is_alphanumeric() || b[i] == '_' || b[i] == '?') {
                text.push(b[i]);
                i += 1;
            }
        } else {
            text.push(c);
            i += 1;
        }
        out.push(Tok { ws, text });
    }
    out
}

fn render(toks: &[Tok]) -> String {
    let mut s = String::new();
    for (i, t) in toks.iter().enumerate() {
        if i > 0 {
            if t.ws.contains('\n') {
                s.push('\n');
            } else if !t.ws.is_empty() {
                s.push(' ');
            }
        }
        s.push_str(&t.text);
    }
    s
}

fn is_open(t: &str) -> bool {
    matches!(t, "[" | "{" | "(")
}
fn is_close(t: &str) -> bool {
    matches!(t, "]" | "}" | ")")
}

/// Matching bracket pairs (open index, close index), outermost first / larger first.
fn groups(toks: &[Tok]) -> Vec<(usize, usize)> {
    let mut stack = vec![];
    let mut out = vec![];
    for (i, t) in toks.iter().enumerate() {
        if is_open(&t.text) {
            stack.push(i);
        } else if is_close(&t.text) {
            if let Some(o) = stack.pop() {
                out.push((o, i));
            }
        }
    }
    out.sort_by_key(|(o, c)| (std::cmp::Reverse(c - o), *o));
    out
}

/// Elements of the token range [lo, hi) split at depth-0 separators (`,`, `|`, a line break).
/// Returns (start, end) ranges that include one adjacent separator token where there is one.
fn elements(toks: &[Tok], lo: usize, hi: usize) -> Vec<(usize, usize)> {
    let mut depth = 0i32;
    let mut starts = vec![lo];
    let mut seps: Vec<Option<usize>> = vec![]; // separator token index ending element k (None = line break)
    for i in lo..hi {
        let t = &toks[i].text;
        if is_open(t) {
            depth += 1;
        } else if is_close(t) {
            depth -= 1;
        } else if depth == 0 && (t == "," || t == "|") {
            seps.push(Some(i));
            starts.push(i + 1);
            continue;
        }
        if depth == 0 && i > lo && toks[i].ws.contains('\n') && *starts.last().unwrap() != i && !is_close(t) {
            seps.push(None);
            starts.push(i);
        }
    }
    let mut out = vec![];
    for (k, s) in starts.iter().enumerate() {
        let e = if k + 1 < starts.len() { starts[k + 1] } else { hi };
        if *s >= e {
            continue;
        }
        out.push((*s, e));
        // also the variant that drops the *preceding* separator instead (for the last element)
        if k + 1 == starts.len() && k > 0 {
            if let Some(Some(sep)) = seps.get(k - 1) {
                out.push((*sep, e));
            }
        }
    }
    out
}

fn without(toks: &[Tok], lo: usize, hi: usize, replacement: Option<&str>) -> Vec<Tok> {
    let mut v: Vec<Tok> = toks[..lo].to_vec();
    if let Some(r) = replacement {
        v.push(Tok { ws: toks[lo].ws.clone(), text: r.to_string() });
    }
    if hi < toks.len() {
        let mut first = toks[hi].clone();
        if replacement.is_none() && toks[lo].ws.contains('\n') && !first.ws.contains('\n') {
            first.ws = toks[lo].ws.clone();
        }
        if first.ws.is_empty() && replacement.is_none() && !toks[lo].ws.is_empty() {
            first.ws = toks[lo].ws.clone();
        }
        v.push(first);
        v.extend_from_slice(&toks[hi + 1..]);
    }
    v
}

/// All one-step reductions of `src`, larger reductions first.
fn candidates(src: &str) -> Vec<String> {
    let toks = tokenize(src);
    let mut out: Vec<String> = vec![];
    let mut seen = BTreeSet::new();
    let mut push = |v: Vec<Tok>, out: &mut Vec<String>| {
        let s = render(&v);
        if !s.trim().is_empty() && s != src && seen.insert(s.clone()) {
            out.push(s);
        }
    };
    // normalised rendering itself (drops comments, collapses whitespace)
    push(toks.clone(), &mut out);
    // top-level elements, then elements inside every group
    for (s, e) in elements(&toks, 0, toks.len()) {
        push(without(&toks, s, e, None), &mut out);
    }
    let gs = groups(&toks);
    for (o, c) in &gs {
        push(without(&toks, *o, c + 1, Some("0")), &mut out);
        push(without(&toks, *o, c + 1, Some("[]")), &mut out);
        push(without(&toks, *o, c + 1, None), &mut out);
        // group with its one-token prefix (`#`, a name, `=`)
        if *o > 0 {
            push(without(&toks, o - 1, c + 1, Some("0")), &mut out);
            push(without(&toks, o - 1, c + 1, None), &mut out);
        }
        // unwrap
        let mut v = toks.clone();
        v.remove(*c);
        v.remove(*o);
        push(v, &mut out);
        for (s, e) in elements(&toks, o + 1, *c) {
            push(without(&toks, s, e, None), &mut out);
        }
    }
    for i in 0..toks.len() {
        push(without(&toks, i, i + 1, None), &mut out);
        let t = &toks[i].text;
        if t.chars().all(|c| c.is_ascii_digit()) && t != "0" {
            push(without(&toks, i, i + 1, Some("0")), &mut out);
        }
        if t.starts_with('"') && t.len() > 2 {
            push(without(&toks, i, i + 1, Some("\"\"")), &mut out);
        }
        if t.starts_with("0x") && t.len() > 2 {
            push(without(&toks, i, i + 1, Some("0x")), &mut out);
        }
    }
    out
}

struct Oracle<'a> {
    ctx: &'a Ctx,
    calls: usize,
    max_calls: usize,
}

impl Oracle<'_> {
    fn fails(&mut self, source: &str, path: &PathSpec) -> bool {
        if self.calls >= self.max_calls {
            return false;
        }
        self.calls += 1;
        let Ok(b) = base(source, &self.ctx.builtins) else { return false };
        matches!(observe(source, &b, path, self.ctx).verdict, Verdict::Differ)
    }
}

fn with_history(path: &PathSpec, keep: &[bool]) -> PathSpec {
    match path {
        PathSpec::Merge { history, shaken } => PathSpec::Merge {
            history: history.iter().zip(keep).filter(|(_, k)| **k).map(|(h, _)| h.clone()).collect(),
            shaken: *shaken,
        },
        PathSpec::Repl { history } => PathSpec::Repl {
            history: history.iter().zip(keep).filter(|(_, k)| **k).map(|(h, _)| h.clone()).collect(),
        },
        PathSpec::Import { form, fields, arg } => PathSpec::Import {
            form: form.clone(),
            fields: fields.iter().zip(keep).filter(|(_, k)| **k).map(|(h, _)| h.clone()).collect(),
            arg: arg.clone(),
        },
        other => other.clone(),
    }
}

fn history_len(path: &PathSpec) -> usize {
    match path {
        PathSpec::Merge { history, .. } => history.len(),
        PathSpec::Repl { history } => history.len(),
        PathSpec::Import { fields, .. } => fields.len(),
        _ => 0,
    }
}

/// Shrink one failing case; returns (minimal source, minimal path, oracle calls, confirmed).
fn shrink_one(f: &Failure, ctx: &Ctx, max_calls: usize) -> Option<(String, PathSpec, usize)> {
    let mut o = Oracle { ctx, calls: 0, max_calls };
    let mut src = f.source.clone();
    let mut path = f.path.clone();
    if !o.fails(&src, &path) {
        return None; // not reproducible from scratch: not reported
    }
    // 1. history: drop elements, last first, to a fixpoint
    loop {
        let n = history_len(&path);
        let mut changed = false;
        for i in (0..n).rev() {
            let mut keep = vec![true; history_len(&path)];
            if i >= keep.len() {
                continue;
            }
            keep[i] = false;
            let p2 = with_history(&path, &keep);
            if o.fails(&src, &p2) {
                path = p2;
                changed = true;
            }
        }
        if !changed {
            break;
        }
    }
    // 2. program text
    loop {
        let mut changed = false;
        for cand in candidates(&src) {
            if cand.len() > src.len() + 2 {
                continue;
            }
            if o.fails(&cand, &path) {
                src = cand;
                changed = true;
                break;
            }
        }
        if !changed || o.calls >= o.max_calls {
            break;
        }
    }
    Some((src, path, o.calls))
}

pub fn report(failures: &[Failure], ctx: &Ctx, tier: Tier) -> (Vec<Violation>, usize) {
    if failures.is_empty() {
        return (vec![], 0);
    }
    let (per_class, max_calls) = match tier {
        Tier::Quick => (8usize, 300usize),
        Tier::Thorough => (24, 1200),
    };
    let mut by_class: BTreeMap<String, Vec<&Failure>> = BTreeMap::new();
    for f in failures {
        by_class.entry(f.path.class()).or_default().push(f);
    }
    let mut chosen: Vec<&Failure> = vec![];
    let mut unshrunk = 0usize;
    for (_, v) in by_class.iter_mut() {
        v.sort_by(|a, b| {
            (history_len(&a.path), a.source.len(), &a.source, a.path.label())
                .cmp(&(history_len(&b.path), b.source.len(), &b.source, b.path.label()))
        });
        v.dedup_by(|a, b| a.source == b.source && a.path == b.path);
        let n = v.len();
        if n <= per_class {
            chosen.extend(v.iter().cloned());
        } else {
            // the smallest half of the quota, the rest evenly spread over the remainder
            let head = per_class / 2;
            chosen.extend(v[..head].iter().cloned());
            let rest = per_class - head;
            let step = ((n - head) / rest).max(1);
            let mut taken = 0;
            let mut i = head;
            while i < n && taken < rest {
                chosen.push(v[i]);
                taken += 1;
                i += step;
            }
            unshrunk += n - head - taken;
        }
    }
    let results: Vec<Option<Violation>> = chosen
        .par_iter()
        .map(|f| {
            let (src, path, calls) = shrink_one(f, ctx, max_calls)?;
            let minimal = Failure {
                source: src.clone(),
                origin: f.origin.clone(),
                path: path.clone(),
                expected: String::new(),
                observed: String::new(),
            };
            // observations of the minimal case for the summary
            let (exp, obs) = match base(&src, &ctx.builtins) {
                Ok(b) => {
                    let out = observe(&src, &b, &path, ctx);
                    (out.expected.show(), out.observed.show())
                }
                Err(_) => (f.expected.clone(), f.observed.clone()),
            };
            let minimal = Failure { expected: exp, observed: obs, ..minimal };
            let signature = format!("{} :: {}", path.label(), src);
            Some(violation_of(
                &minimal,
                signature,
                &format!(" (shrunk from {:?} in {} oracle calls)", f.source.chars().take(120).collect::<String>(), calls),
            ))
        })
        .collect();
    let mut seen = BTreeSet::new();
    let mut out = vec![];
    for v in results.into_iter().flatten() {
        if seen.insert(v.signature.clone()) {
            out.push(v);
        }
    }
    let _ = unshrunk;
    (out, chosen.len())
}
