//! The packaging paths of C10 and the observation each yields.

use super::canon::{Canon, Tables};
use crate::qcompile::{self, CompileFail, CompiledUnit, E};
use crate::sim::explore::alternatives;
use crate::sim::session::Session;
use crate::sim::system::{Config, System, take_panic};
use quiver_core::builtins::BuiltinRegistry;
use quiver_core::bytecode::Bytecode;
use quiver_core::compatibility::{
    CompatibilityInput, compute_canonical_tuples, compute_param_compatibility, compute_type_compatibility,
};
use quiver_core::error::Error;
use quiver_core::executor::{Executor, ProgramUpdate};
use quiver_core::value::Value;
use quiver_environment::{ReplError, RequestResult};
use std::collections::{BTreeMap, HashMap};
use std::panic::{AssertUnwindSafe, catch_unwind};

/// What one variant run was observed to do.
#[derive(Clone, Debug, PartialEq, Eq)]
pub enum Obs {
    /// (index-free canonical rendering, repository's own formatting)
    Val(String, String),
    /// (error kind = enum variant name, full debug text)
    Err(String, String),
    Panic(String),
    /// no result within the instruction / action budget
    NoResult(String),
    /// the variant could not be built at all (compile error of a wrapper etc.)
    Unbuildable(String),
    /// the packaging step itself misbehaved (unstable serialisation, REPL rejection, CLI output)
    Broken(String),
}

impl Obs {
    /// The part that the oracle compares.
    pub fn key(&self) -> String {
        match self {
            Obs::Val(c, _) => format!("value {}", c),
            Obs::Err(k, _) => format!("runtime-error {}", k),
            Obs::Panic(m) => format!("PANIC {}", m),
            Obs::NoResult(m) => format!("no-result {}", m),
            Obs::Unbuildable(m) => format!("unbuildable {}", m),
            Obs::Broken(m) => format!("BROKEN {}", m),
        }
    }
    pub fn show(&self) -> String {
        match self {
            Obs::Val(c, o) => format!("value {} (repo format: {})", c, o),
            Obs::Err(_, d) => format!("runtime error {}", d),
            other => other.key(),
        }
    }
    pub fn is_val(&self) -> bool {
        matches!(self, Obs::Val(..))
    }
}

pub fn error_kind(e: &Error) -> String {
    let d = format!("{:?}", e);
    d.split(|c: char| !c.is_alphanumeric()).next().unwrap_or("").to_string()
}

pub fn panic_text() -> String {
    let p = take_panic();
    // strip the location's line/column so that signatures do not depend on them too finely
    p.lines().next().unwrap_or("").to_string() + &p.lines().skip(1).take(1).map(|l| format!(" | {}", l)).collect::<String>()
}

/// `catch_unwind` returning the recorded panic text.
pub fn guarded<T>(f: impl FnOnce() -> T) -> Result<T, String> {
    catch_unwind(AssertUnwindSafe(f)).map_err(|_| panic_text())
}

/// Compile top-level code into a nilary entry function, like `qcompile::compile_with` and the
/// CLI's `compile_and_extract_entry`, with one difference: the top-level parameter type is the
/// id of the registered nil *type* (what the REPL passes for its first line). The CLI and
/// `qcompile` pass `quiver_core::types::NIL`, which is a *tuple* id (0) and denotes whatever type
/// happens to be registered first (see the final report: top-level `=a` then compiles to `[]`).
fn compile_top(
    source: &str,
    builtins: &BuiltinRegistry<E>,
    modules: HashMap<Vec<String>, String>,
) -> Result<CompiledUnit, CompileFail> {
    use quiver_compiler::compiler::ModuleCache;
    use quiver_compiler::{Compiler, PackageResolver};
    use quiver_core::bytecode::Function;
    use quiver_core::program::Program;
    use quiver_core::types::Type;
    let ast = quiver_compiler::parse(source).map_err(|e| CompileFail::Parse(format!("{}", e)))?;
    let mut program = Program::new();
    let mut module_cache = ModuleCache::new();
    let resolver = if modules.is_empty() { PackageResolver::inline() } else { PackageResolver::memory(modules) };
    let nil_type_id = program.register_type(Type::nil());
    let compiled = Compiler::compile(
        ast,
        &HashMap::new(),
        &mut module_cache,
        &resolver,
        &mut program,
        nil_type_id,
        &HashMap::new(),
        builtins,
        None,
    )
    .map_err(|e| CompileFail::Compile(format!("{:?}", e.error)))?;
    let callable = program.register_type(Type::Callable {
        parameter: nil_type_id,
        result: compiled.result_type,
        receive: compiled.receive_type,
    });
    let entry = program.register_function(Function {
        instructions: compiled.instructions,
        captures: 0,
        type_id: callable,
    });
    Ok(CompiledUnit {
        program,
        entry,
        result_type: compiled.result_type,
        receive_type: compiled.receive_type,
    })
}

pub fn compile(source: &str, builtins: &BuiltinRegistry<E>) -> Result<CompiledUnit, CompileFail> {
    compile_with(source, builtins, HashMap::new())
}

pub fn compile_with(
    source: &str,
    builtins: &BuiltinRegistry<E>,
    modules: HashMap<Vec<String>, String>,
) -> Result<CompiledUnit, CompileFail> {
    match guarded(|| compile_top(source, builtins, modules)) {
        Ok(r) => r,
        Err(p) => Err(CompileFail::Panic(p)),
    }
}

/// The CLI's way (tuple id NIL passed as the parameter *type* id), kept for the fixed probe.
pub fn compile_cli_way(source: &str, builtins: &BuiltinRegistry<E>) -> Result<CompiledUnit, CompileFail> {
    match guarded(|| qcompile::compile(source, builtins)) {
        Ok(r) => r,
        Err(p) => Err(CompileFail::Panic(p)),
    }
}

/// Instruction budget of one synchronous run: `MAX_SLICES` slices of 1000 units.
pub const MAX_SLICES: usize = 3000;

pub enum SyncEnd {
    Done(Result<(Value, Vec<Vec<u8>>), Error>, Executor<E>, usize),
    Budget,
}

/// `quiver_core::execute_bytecode_sync` with a bounded number of slices (same calls, same order;
/// the debug-only refcount audit is another property's business and is left out).
pub fn exec_sync_raw(bytecode: Bytecode, builtins: &BuiltinRegistry<E>, max_slices: usize) -> Result<SyncEnd, Error> {
    let entry = bytecode
        .entry
        .ok_or_else(|| Error::InvalidArgument("Bytecode has no entry point".to_string()))?;
    let mut executor = Executor::new(builtins.clone(), false, 0);
    if bytecode.tuples.len() < 2 {
        return Err(Error::InvalidArgument("Bytecode must have at least NIL and OK tuples".into()));
    }
    let input = CompatibilityInput {
        types: &bytecode.types,
        tuples: &bytecode.tuples,
        functions: &bytecode.functions,
        builtins: &bytecode.builtins,
        resource_names: &bytecode.resources,
    };
    let type_compatibility = compute_type_compatibility(&input);
    let canonical_tuples = compute_canonical_tuples(&bytecode.tuples);
    let (function_param_compatibility, builtin_param_compatibility) = compute_param_compatibility(&input);
    let program_update = ProgramUpdate {
        constants: bytecode.constants,
        functions: bytecode.functions,
        tuples: bytecode.tuples[2..].to_vec(),
        types: bytecode.types,
        builtins: bytecode.builtins,
        resources: bytecode.resources,
        type_compatibility,
        function_param_compatibility,
        builtin_param_compatibility,
        canonical_tuples,
    };
    executor.update_program(program_update);
    executor.spawn_process(0, Some(entry), vec![], Value::nil(), vec![], false)?;
    for slice in 0..max_slices {
        let (did_work, _action) = executor.step(1000, 0);
        let process = executor
            .get_process(0)
            .ok_or(Error::InvalidArgument("Process disappeared".to_string()))?;
        if let Some(result) = &process.result {
            let r = match result {
                Ok(v) => executor.extract_heap_data(v),
                Err(e) => Err(e.clone()),
            };
            return Ok(SyncEnd::Done(r, executor, slice + 1));
        }
        if !did_work {
            return Ok(SyncEnd::Budget);
        }
    }
    Ok(SyncEnd::Budget)
}

pub struct SyncOut {
    pub obs: Obs,
    pub value: Option<(Value, Vec<Vec<u8>>)>,
    pub executor: Option<Executor<E>>,
    pub slices: usize,
}

pub fn render_loose(t: Tables, v: &Value, heap: &[Vec<u8>]) -> String {
    let c = Canon::loose(t);
    let mut refs = BTreeMap::new();
    c.render(v, heap, &mut refs)
}

pub fn render_against(t: Tables, v: &Value, heap: &[Vec<u8>]) -> String {
    let c = Canon::new(t);
    let mut refs = BTreeMap::new();
    c.render(v, heap, &mut refs)
}

/// Run bytecode synchronously and observe. Values are rendered against the bytecode's own tables.
pub fn run_sync(bytecode: &Bytecode, builtins: &BuiltinRegistry<E>) -> SyncOut {
    run_sync_within(bytecode, builtins, MAX_SLICES)
}

/// Slice budget for a variant of a program whose reference run took `slices` slices.
pub fn slice_limit(slices: usize) -> usize {
    (20 + 4 * slices).min(MAX_SLICES)
}

pub fn run_sync_within(bytecode: &Bytecode, builtins: &BuiltinRegistry<E>, max_slices: usize) -> SyncOut {
    let bc = bytecode.clone();
    match guarded(|| exec_sync_raw(bc, builtins, max_slices)) {
        Err(p) => SyncOut { obs: Obs::Panic(p), value: None, executor: None, slices: 0 },
        Ok(Err(e)) => SyncOut {
            obs: Obs::Err(error_kind(&e), format!("{:?}", e)),
            value: None,
            executor: None,
            slices: 0,
        },
        Ok(Ok(SyncEnd::Budget)) => SyncOut {
            obs: Obs::NoResult(format!("within {} slices of 1000 units", max_slices)),
            value: None,
            executor: None,
            slices: max_slices,
        },
        Ok(Ok(SyncEnd::Done(Err(e), ex, n))) => SyncOut {
            obs: Obs::Err(error_kind(&e), format!("{:?}", e)),
            value: None,
            executor: Some(ex),
            slices: n,
        },
        Ok(Ok(SyncEnd::Done(Ok((v, heap)), ex, n))) => {
            let rendered = guarded(|| {
                let canon = render_against(Tables::of_bytecode(bytecode), &v, &heap);
                let lookup = quiver_core::format::BytecodeBinaryLookup {
                    constants: &bytecode.constants,
                    heap: &heap,
                };
                let own = quiver_core::format::format_value(&v, bytecode, &lookup);
                (canon, own)
            });
            match rendered {
                Ok((canon, own)) => SyncOut {
                    obs: Obs::Val(canon, own),
                    value: Some((v, heap)),
                    executor: Some(ex),
                    slices: n,
                },
                Err(p) => SyncOut { obs: Obs::Panic(format!("while rendering: {}", p)), value: None, executor: None, slices: n },
            }
        }
    }
}

/// A shaken bytecode whose own tables mention ids outside themselves (or ids that reach
/// themselves) is reported as a failure of the shake; running or merging it would make the
/// runtime walk dangling type ids (out-of-bounds panics, unbounded recursion).
fn closed(bc: Bytecode) -> Result<Bytecode, String> {
    match crate::bcverify::verify_tables(&crate::bcverify::Tables::of_bytecode(&bc)).into_iter().next() {
        None => Ok(bc),
        Some(problem) => Err(format!("tree-shaken tables are not closed: {}", problem)),
    }
}

pub fn shake(unit: &CompiledUnit) -> Result<Bytecode, String> {
    guarded(|| unit.program.to_bytecode_optimized(unit.entry)).and_then(closed)
}

/// JSON write -> read; Err describes an instability of the representation itself.
pub fn json_round_trip(bc: &Bytecode, pretty: bool) -> Result<Bytecode, String> {
    let s = if pretty { serde_json::to_string_pretty(bc) } else { serde_json::to_string(bc) }
        .map_err(|e| format!("serialise: {}", e))?;
    let back: Bytecode = serde_json::from_str(&s).map_err(|e| format!("deserialise: {}", e))?;
    let s2 = if pretty { serde_json::to_string_pretty(&back) } else { serde_json::to_string(&back) }
        .map_err(|e| format!("re-serialise: {}", e))?;
    if s != s2 {
        let at = s.bytes().zip(s2.bytes()).position(|(a, b)| a != b).unwrap_or(s.len().min(s2.len()));
        return Err(format!(
            "re-serialisation differs at byte {}: ...{}... vs ...{}...",
            at,
            &s[at.saturating_sub(30)..(at + 30).min(s.len())],
            &s2[at.saturating_sub(30)..(at + 30).min(s2.len())]
        ));
    }
    Ok(back)
}

// ---------------------------------------------------------------------------------------------
// A real Environment (2 workers, default schedule) that programs are merged into one by one.

pub struct Host {
    pub sys: Option<System>,
    /// scheduler-action budget of the next `run`
    pub limit: usize,
}

impl Drop for Host {
    fn drop(&mut self) {
        if let Some(s) = self.sys.take() {
            s.shutdown();
        }
    }
}

pub const MAX_ACTIONS: usize = 4000;
/// Default budget (history programs: pool members and generated programs, all of one slice).
pub const HISTORY_LIMIT: usize = 60;

pub fn settle(sys: &mut System) -> Result<(), String> {
    settle_within(sys, MAX_ACTIONS)
}

/// Scheduler-action budget for a variant of a program whose reference run took `slices` slices
/// (every action runs at most one slice; starting and answering a process takes ~10 actions).
/// Kept tight because the simulator fingerprints the whole worker state after every action, so a
/// variant that recurses forever costs time quadratic in this budget.
pub fn action_limit(slices: usize) -> usize {
    // measured on the unchanged tree: at most 10 actions for references of <= 2 slices, 347 for
    // the longest reference (~330 slices)
    (40 + 2 * slices).min(MAX_ACTIONS)
}

pub static MAX_SEEN_SMALL: std::sync::atomic::AtomicUsize = std::sync::atomic::AtomicUsize::new(0);
pub static MAX_SEEN_ACTIONS: std::sync::atomic::AtomicUsize = std::sync::atomic::AtomicUsize::new(0);

pub fn settle_within(sys: &mut System, max_actions: usize) -> Result<(), String> {
    let r = settle_within_inner(sys, max_actions);
    r
}

fn settle_within_inner(sys: &mut System, max_actions: usize) -> Result<(), String> {
    let mut guard = 0usize;
    loop {
        let alts = alternatives(sys);
        let Some(a) = alts.first() else {
            MAX_SEEN_ACTIONS.fetch_max(guard, std::sync::atomic::Ordering::Relaxed);
            MAX_SEEN_SMALL.fetch_max(guard * 100 / max_actions.max(1), std::sync::atomic::Ordering::Relaxed);
            break;
        };
        let act = a.act.clone();
        sys.apply(&act)?;
        if !sys.errors.is_empty() {
            return Err(sys.errors.join("; "));
        }
        guard += 1;
        // every reference run ends within 1000 slices of 1000 units; a variant that needs more
        // than 4000 scheduler actions (each at most one such slice) is reported as not finishing
        if guard > max_actions {
            return Err(format!("did not settle within {} actions", max_actions));
        }
    }
    Ok(())
}

impl Host {
    pub fn new() -> Result<Host, String> {
        let cfg = Config {
            workers: 2,
            quantum: 1000,
            request_early: true,
            io: false,
            defer_effects: false,
        };
        let sys = guarded(|| System::boot(cfg, None)).map_err(|p| format!("System::boot panicked: {}", p))??;
        Ok(Host { sys: Some(sys), limit: HISTORY_LIMIT })
    }

    /// Merge `bc` into the environment (`start_process`), run it to completion, observe its result.
    pub fn run(&mut self, bc: Bytecode) -> Obs {
        let sys = self.sys.as_mut().unwrap();
        let started = guarded(|| sys.env.start_process(Some(bc)));
        let pid = match started {
            Err(p) => return Obs::Panic(format!("in start_process/merge_bytecode: {}", p)),
            Ok(Err(e)) => return Obs::Unbuildable(format!("start_process: {:?}", e)),
            Ok(Ok(pid)) => pid,
        };
        let id = match sys.env.request_result(pid, None) {
            Ok(id) => id,
            Err(e) => return Obs::Unbuildable(format!("request_result: {:?}", e)),
        };
        let limit = self.limit;
        if let Err(e) = guarded(|| settle_within(sys, limit)).unwrap_or_else(|p| Err(format!("panic: {}", p))) {
            if e.contains("panicked") || e.starts_with("panic") {
                return Obs::Panic(e);
            }
            return Obs::NoResult(e);
        }
        match sys.env.poll_request(id) {
            Ok(Some(RequestResult::Result(Ok((v, heap)), _))) => {
                let r = guarded(|| {
                    let canon = render_against(Tables::of_program(sys.env.get_program()), &v, &heap);
                    let own = sys.env.format_value(&v, &heap);
                    (canon, own)
                });
                match r {
                    Ok((c, o)) => Obs::Val(c, o),
                    Err(p) => Obs::Panic(format!("while rendering: {}", p)),
                }
            }
            Ok(Some(RequestResult::Result(Err(e), _))) => Obs::Err(error_kind(&e), format!("{:?}", e)),
            Ok(Some(_)) => Obs::Unbuildable("unexpected request result".into()),
            Ok(None) => Obs::NoResult("request never answered".into()),
            Err(e) => Obs::Unbuildable(format!("poll_request: {:?}", e)),
        }
    }
}

// ---------------------------------------------------------------------------------------------
// REPL session (each line is compiled against the accumulated program and merged).

pub struct Repl {
    pub s: Option<Session>,
    pub limit: usize,
}

impl Drop for Repl {
    fn drop(&mut self) {
        if let Some(s) = self.s.take() {
            s.close();
        }
    }
}

pub enum LineEnd {
    Obs(Obs),
    NoCode,
    Rejected(String),
}

impl Repl {
    pub fn new(modules: HashMap<Vec<String>, String>) -> Result<Repl, String> {
        let s = guarded(|| Session::new(2, modules)).map_err(|p| format!("Session::new panicked: {}", p))??;
        Ok(Repl { s: Some(s), limit: HISTORY_LIMIT })
    }

    pub fn eval(&mut self, source: &str) -> LineEnd {
        let s = self.s.as_mut().unwrap();
        let types = {
            let id = match s.sys.env.request_process_types() {
                Ok(id) => id,
                Err(e) => return LineEnd::Obs(Obs::Unbuildable(format!("request_process_types: {:?}", e))),
            };
            if let Err(e) = settle(&mut s.sys) {
                return LineEnd::Obs(Obs::NoResult(e));
            }
            match s.sys.env.poll_request(id) {
                Ok(Some(RequestResult::ProcessTypes(t))) => t,
                _ => return LineEnd::Obs(Obs::Unbuildable("process types".into())),
            }
        };
        let r = guarded(|| s.repl.evaluate(&mut s.sys.env, source, types));
        let r = match r {
            Ok(r) => r,
            Err(p) => return LineEnd::Obs(Obs::Panic(format!("in Repl::evaluate: {}", p))),
        };
        match r {
            Err(ReplError::Parser(e)) => LineEnd::Rejected(format!("parse: {}", e)),
            Err(ReplError::Compiler(e)) => LineEnd::Rejected(format!("compile: {:?}", e)),
            Err(ReplError::Runtime(e)) => LineEnd::Obs(Obs::Err(error_kind(&e), format!("{:?}", e))),
            Err(ReplError::Environment(e)) => LineEnd::Obs(Obs::Unbuildable(format!("{:?}", e))),
            Ok(None) => LineEnd::NoCode,
            Ok(Some(id)) => {
                let limit = self.limit;
                if let Err(e) = guarded(|| settle_within(&mut s.sys, limit)).unwrap_or_else(|p| Err(format!("panic: {}", p))) {
                    if e.contains("panic") {
                        return LineEnd::Obs(Obs::Panic(e));
                    }
                    return LineEnd::Obs(Obs::NoResult(e));
                }
                match s.sys.env.poll_request(id) {
                    Ok(Some(RequestResult::Result(Ok((v, heap)), _))) => {
                        let r = guarded(|| {
                            // a REPL line is a separate compilation: function types are left out
                            let canon = render_loose(Tables::of_program(s.sys.env.get_program()), &v, &heap);
                            let own = s.sys.env.format_value(&v, &heap);
                            (canon, own)
                        });
                        LineEnd::Obs(match r {
                            Ok((c, o)) => Obs::Val(c, o),
                            Err(p) => Obs::Panic(format!("while rendering: {}", p)),
                        })
                    }
                    Ok(Some(RequestResult::Result(Err(e), _))) => {
                        LineEnd::Obs(Obs::Err(error_kind(&e), format!("{:?}", e)))
                    }
                    Ok(Some(_)) => LineEnd::Obs(Obs::Unbuildable("unexpected request result".into())),
                    Ok(None) => LineEnd::Obs(Obs::NoResult("line did not produce a result".into())),
                    Err(e) => LineEnd::Obs(Obs::Unbuildable(format!("{:?}", e))),
                }
            }
        }
    }
}

// ---------------------------------------------------------------------------------------------
// Source-level wrappers

/// Split `src` into (leading type-alias lines, rest) when the aliases are all at the top; `None`
/// when aliases occur after the first expression (then the program is not wrapped).
pub fn hoist_aliases(src: &str) -> Option<(String, String)> {
    use quiver_compiler::ast::Statement;
    let ast = quiver_compiler::parse(src).ok()?;
    let n_alias = ast.statements.iter().filter(|s| matches!(s, Statement::TypeAlias { .. })).count();
    if n_alias == 0 {
        return Some((String::new(), src.to_string()));
    }
    let lines: Vec<&str> = src.lines().collect();
    for k in 1..lines.len() {
        let head = lines[..k].join("\n");
        let tail = lines[k..].join("\n");
        if tail.trim().is_empty() {
            break;
        }
        let Ok(h) = quiver_compiler::parse(&head) else { continue };
        if h.statements.len() != n_alias || !h.statements.iter().all(|s| matches!(s, Statement::TypeAlias { .. })) {
            continue;
        }
        let Ok(t) = quiver_compiler::parse(&tail) else { continue };
        if t.statements.is_empty() || t.statements.iter().any(|s| matches!(s, Statement::TypeAlias { .. })) {
            continue;
        }
        return Some((head, tail));
    }
    None
}

#[derive(Clone, Copy, Debug, PartialEq, Eq, PartialOrd, Ord, Hash)]
pub enum Wrapper {
    /// `#{ P }` — the entry function is P itself
    Entry,
    /// `zz_v = [] { P }, #{ &zz_v }` — P's value becomes a capture of the entry (capture injection)
    ValueCapture,
    /// `zz_f = #{ P }, #{ [] zz_f }` — a function value is the capture
    FnCapture,
}

impl Wrapper {
    pub fn name(self) -> &'static str {
        match self {
            Wrapper::Entry => "entry",
            Wrapper::ValueCapture => "value-capture",
            Wrapper::FnCapture => "fn-capture",
        }
    }
    pub fn from_name(s: &str) -> Option<Wrapper> {
        [Wrapper::Entry, Wrapper::ValueCapture, Wrapper::FnCapture].into_iter().find(|w| w.name() == s)
    }
    pub fn all() -> [Wrapper; 3] {
        [Wrapper::Entry, Wrapper::ValueCapture, Wrapper::FnCapture]
    }
}

pub fn wrap(src: &str, w: Wrapper) -> Option<String> {
    let (aliases, body) = hoist_aliases(src)?;
    let pre = if aliases.is_empty() { String::new() } else { format!("{}\n", aliases) };
    Some(match w {
        Wrapper::Entry => format!("{}#{{\n{}\n}}", pre, body),
        Wrapper::ValueCapture => format!("{}zz_v = [] {{\n{}\n}}\n#{{ &zz_v }}", pre, body),
        Wrapper::FnCapture => format!("{}zz_f = #{{\n{}\n}}\n#{{ [] zz_f }}", pre, body),
    })
}

/// What `quiv compile` produces for a source that evaluates to a function: compile, evaluate,
/// inject captures, tree-shake. `Err(obs)` when the wrapper itself does not evaluate to a function.
pub fn package_entry(wrapped: &str, builtins: &BuiltinRegistry<E>) -> Result<(Bytecode, usize), Obs> {
    let mut unit = match compile(wrapped, builtins) {
        Ok(u) => u,
        Err(e) => return Err(Obs::Unbuildable(format!("wrapper does not compile: {:?}", e))),
    };
    let out = run_sync(&unit.bytecode(), builtins);
    let (v, _heap) = match out.value {
        Some(v) => v,
        None => return Err(out.obs),
    };
    let ex = out.executor.unwrap();
    // NB: `v` here went through extract_heap_data (heap indices compacted); capture injection in
    // the CLI uses the raw result. Re-read the raw result from the executor to do exactly that.
    let raw = ex.get_process(0).and_then(|p| p.result.clone()).and_then(|r| r.ok()).unwrap_or(v);
    match raw {
        Value::Function(idx, caps) => {
            let n = caps.len();
            let entry = if !caps.is_empty() {
                match guarded(|| unit.program.inject_function_captures(idx, (*caps).clone(), &ex)) {
                    Ok(e) => e,
                    Err(p) => return Err(Obs::Panic(format!("in inject_function_captures: {}", p))),
                }
            } else {
                idx
            };
            match guarded(|| unit.program.to_bytecode_optimized(entry)).and_then(closed) {
                Ok(bc) => Ok((bc, n)),
                Err(p) => Err(Obs::Panic(format!("in to_bytecode_optimized: {}", p))),
            }
        }
        _ => Err(Obs::Unbuildable("wrapper did not evaluate to a function".into())),
    }
}
