//! C20 — "The num module computes exactly and propagates absence".
//!
//! Bounded-exhaustive: every exported operation of `std/num.qv` is applied to every operand
//! (tuple) of a fixed alphabet of integers (small, > 64 bit), rationals, single-radical surds and
//! nil, through the real parser + compiler + VM (a warm REPL session per worker process), and the
//! canonical rendering of the result is compared with host-side exact arithmetic in Q and
//! Q(sqrt n) (`oracle.rs`). The field and order laws are evaluated on all triples of a
//! sub-alphabet, both through depth-2/3 expressions (oracle-checked) and on the observed results.

mod oracle;
mod pool;

use crate::infra::{Budget, Report, Tier, Violation};
use num_bigint::BigInt;
use num_traits::{One, Signed, Zero};
use oracle::{Alg, BINARY, Expect, Expr, Mode, Op, Q, UNARY, Val};
use pool::{Outcome, Pool, Worker};
use rayon::prelude::*;
use serde_json::{Value as J, json};
use std::collections::{BTreeMap, BTreeSet, HashMap, HashSet};
use std::sync::Mutex;
use std::time::Duration;

// ------------------------------------------------------------------------------------------
// Universe
// ------------------------------------------------------------------------------------------

fn big(s: &str) -> BigInt {
    s.parse().unwrap()
}

fn pow2(k: u32) -> BigInt {
    BigInt::one() << k
}

struct Universe {
    ints: Vec<BigInt>,
    rat_p: Vec<BigInt>,
    rat_q: Vec<BigInt>,
    /// Fraction and decimal literal sources (construction phase).
    literals: Vec<String>,
    /// Constructor expressions of the surd operands.
    surd_ctors: Vec<Expr>,
    /// Radicands handed to `sqrt` by the constructors.
    radicands: Vec<i64>,
    /// The operand alphabet N (distinct canonical values, simplest first).
    operands: Vec<Val>,
    /// The sub-alphabet for the law triples (simplest first).
    law_operands: Vec<Val>,
    /// Quick tier only: the subset of S whose triples are also run in the precise typing mode.
    precise_triple_operands: Vec<Val>,
}

fn q(n: i64, d: i64) -> Q {
    Q::new(BigInt::from(n), BigInt::from(d))
}

fn qb(n: BigInt, d: i64) -> Q {
    Q::new(n, BigInt::from(d))
}

fn lit_q(x: &Q) -> Expr {
    Expr::Lit(Val::lowered(x))
}

/// `a + b * sqrt(r)` built with the module's own `sqrt`, `neg`, `mul`, `add`.
fn surd_ctor(a: &Q, b: &Q, r: i64) -> Expr {
    let root = Expr::op1(Op::Sqrt, Expr::Lit(Val::int(r)));
    let term = if *b == q(1, 1) {
        root
    } else if *b == q(-1, 1) {
        Expr::op1(Op::Neg, root)
    } else {
        Expr::op2(Op::Mul, lit_q(b), root)
    };
    if a.is_zero() {
        term
    } else {
        Expr::op2(Op::Add, lit_q(a), term)
    }
}

fn decimal_source(v: &Q) -> Option<String> {
    // terminating decimal expansion of n/d (d = 2^a 5^b), at most 40 fractional digits
    let mut d = v.d.clone();
    let (mut a, mut b) = (0u32, 0u32);
    let (two, five) = (BigInt::from(2), BigInt::from(5));
    while (&d % &two).is_zero() {
        d = d / &two;
        a += 1;
    }
    while (&d % &five).is_zero() {
        d = d / &five;
        b += 1;
    }
    if !d.is_one() {
        return None;
    }
    let k = a.max(b).max(1);
    if k > 40 {
        return None;
    }
    let scaled = v.n.abs() * num_traits::pow(BigInt::from(10), k as usize) / &v.d;
    let digits = scaled.to_string();
    let digits = if digits.len() <= k as usize {
        format!("{}{}", "0".repeat(k as usize + 1 - digits.len()), digits)
    } else {
        digits
    };
    let (i, f) = digits.split_at(digits.len() - k as usize);
    Some(format!("{}{}.{}", if v.n.is_negative() { "-" } else { "" }, i, f))
}

impl Universe {
    fn new(tier: Tier) -> Result<Universe, String> {
        let h63 = pow2(63);
        let h64p1: BigInt = pow2(64) + BigInt::one();
        let e30 = big("1000000000000000000000000000000");
        let ints: Vec<BigInt> = vec![
            BigInt::from(0),
            BigInt::from(1),
            BigInt::from(-1),
            BigInt::from(2),
            BigInt::from(-2),
            BigInt::from(3),
            BigInt::from(6),
            BigInt::from(7),
            h63.clone(),
            -h63.clone(),
            h64p1.clone(),
            e30.clone(),
        ];
        let (rat_p, rat_q): (Vec<BigInt>, Vec<BigInt>) = match tier {
            Tier::Quick => (
                vec![
                    BigInt::from(0),
                    BigInt::from(1),
                    BigInt::from(-1),
                    BigInt::from(2),
                    BigInt::from(3),
                    BigInt::from(-6),
                    h64p1.clone(),
                    e30.clone(),
                ],
                vec![
                    BigInt::from(1),
                    BigInt::from(2),
                    BigInt::from(-3),
                    BigInt::from(6),
                    h63.clone(),
                    e30.clone(),
                ],
            ),
            // supersets of the quick tier's alphabets
            Tier::Thorough => (
                ints.iter().cloned().chain([BigInt::from(-6)]).collect(),
                ints.iter().filter(|i| !i.is_zero()).cloned().chain([BigInt::from(-3)]).collect(),
            ),
        };

        // distinct rational values, and their literal spellings
        let mut rationals: Vec<Val> = vec![];
        let mut literals: Vec<String> = vec![];
        for p in &rat_p {
            for d in &rat_q {
                let v = Val::rat(&Q::new(p.clone(), d.clone()));
                if !rationals.contains(&v) {
                    rationals.push(v);
                }
                if d.is_positive() {
                    literals.push(format!("{}/{}", p, d)); // `-6/3` is `-` digits `/` digits
                }
            }
        }
        for s in [
            "0.5", "-0.5", "1.5", "-1.5", "0.25", "0.30", "1.0", "-0.0", "0.1", "0.2", "0.3", "3.14159", "2.50",
            "4/2", "6/3", "-9/3", "2/4", "-2/4", "1/3", "141/100", "0/5",
            "123456789012345678901234567890.000000000000000000001",
            "1/9223372036854775807",
            "18446744073709551617/18446744073709551617",
        ] {
            literals.push(s.to_string());
        }
        for r in &rationals {
            if let Val::Rat(n, d) = r {
                if let Some(s) = decimal_source(&Q::new(n.clone(), d.clone())) {
                    literals.push(s);
                }
            }
        }
        let mut seen = HashSet::new();
        literals.retain(|l| seen.insert(l.clone()));

        // surds: a + b sqrt r
        let mut specs: Vec<(Q, Q, i64)> = vec![
            (q(0, 1), q(1, 1), 2),
            (q(0, 1), q(-1, 1), 2),
            (q(1, 1), q(1, 1), 2),
            (q(1, 1), q(-1, 1), 2),
            (q(3, 1), q(-2, 1), 2),
            (q(7, 1), q(-5, 1), 2),
            (q(0, 1), q(1, 2), 2),
            (q(-1, 2), q(2, 3), 2),
            (q(0, 1), q(1, 1), 8),
            (q(0, 1), q(1, 1), 3),
            (q(-1, 1), q(1, 1), 3),
            (q(0, 1), q(1, 1), 12),
            (q(0, 1), q(1, 1), 5),
            (q(0, 1), qb(e30.clone(), 1), 2),
            (qb(h64p1.clone(), 1), q(-1, 3), 5),
        ];
        if tier == Tier::Thorough {
            let a_s = [q(0, 1), q(1, 1), q(-1, 1), q(1, 2), q(-3, 1), q(7, 1)];
            let b_s = [q(1, 1), q(-1, 1), q(2, 1), q(1, 2), q(-2, 3), q(-5, 1)];
            for a in &a_s {
                for b in &b_s {
                    specs.push((a.clone(), b.clone(), 2));
                }
            }
            for (a, b) in [(q(1, 2), q(1, 2)), (q(2, 1), q(-1, 1)), (q(-3, 1), q(2, 1)), (q(0, 1), q(-2, 3))] {
                specs.push((a.clone(), b.clone(), 3));
                specs.push((a, b, 5));
            }
            specs.push((q(1, 1), q(-1, 2), 8));
            specs.push((q(-7, 1), q(2, 1), 12));
            specs.push((qb(-h63.clone(), 1), qb(h64p1.clone(), 6), 3));
        }
        let mut surd_ctors: Vec<Expr> = specs.iter().map(|(a, b, r)| surd_ctor(a, b, *r)).collect();
        // the golden ratio, built by division: (1 + sqrt 5) / 2
        surd_ctors.push(Expr::op2(
            Op::Div,
            Expr::op2(Op::Add, Expr::Lit(Val::int(1)), Expr::op1(Op::Sqrt, Expr::Lit(Val::int(5)))),
            Expr::Lit(Val::int(2)),
        ));
        let mut surds: Vec<Val> = vec![];
        for c in &surd_ctors {
            match oracle::expect(c) {
                Expect::Exact(v) if v.is_surd() => {
                    if !surds.contains(&v) {
                        surds.push(v)
                    }
                }
                other => return Err(format!("surd constructor {} does not denote a surd: {:?}", c.text(), other)),
            }
        }

        let mut operands: Vec<Val> = vec![Val::Nil];
        operands.extend(ints.iter().cloned().map(Val::Int));
        operands.extend(rationals.iter().cloned());
        operands.extend(surds.iter().cloned());
        operands.sort_by_key(oracle::rank);

        let r = |n: BigInt, d: i64| Val::rat(&qb(n, d));
        let s = |a: Q, b: Q, n: i64| Alg { a, b, n: BigInt::from(n) }.collapse();
        let mut law_operands: Vec<Val> = vec![
            Val::Nil,
            Val::int(0),
            Val::int(1),
            Val::int(-2),
            Val::int(7),
            Val::Int(h64p1.clone()),
            r(BigInt::from(1), 2),
            r(BigInt::from(-2), 3),
            r(BigInt::from(2), 1),
            r(e30.clone(), -3),
            s(q(0, 1), q(1, 1), 2),
            s(q(1, 1), q(-1, 1), 2),
            s(q(-1, 2), q(2, 3), 2),
            s(q(0, 1), q(1, 1), 3),
        ];
        if tier == Tier::Thorough {
            law_operands.extend([
                Val::int(-1),
                Val::int(3),
                Val::Int(-h63.clone()),
                Val::Int(e30.clone()),
                r(BigInt::from(0), 1),
                r(BigInt::from(-1), 6),
                r(h64p1.clone(), 6),
                s(q(3, 1), q(-2, 1), 2),
                s(q(0, 1), q(1, 2), 2),
                s(q(-1, 1), q(1, 1), 3),
            ]);
        }
        law_operands.sort_by_key(oracle::rank);
        let mut precise_triple_operands = vec![
            Val::Nil,
            Val::int(7),
            r(BigInt::from(-2), 3),
            s(q(0, 1), q(1, 1), 2),
            s(q(-1, 2), q(2, 3), 2),
            s(q(0, 1), q(1, 1), 3),
        ];
        precise_triple_operands.sort_by_key(oracle::rank);
        for v in law_operands.iter().chain(precise_triple_operands.iter()) {
            if !operands.contains(v) {
                return Err(format!("law operand {} is not in the operand alphabet", v.render()));
            }
        }
        Ok(Universe {
            ints,
            rat_p,
            rat_q,
            literals,
            surd_ctors,
            radicands: vec![2, 3, 5, 8, 12],
            operands,
            law_operands,
            precise_triple_operands,
        })
    }
}

// ------------------------------------------------------------------------------------------
// Batches: one source line evaluating a tuple of expressions
// ------------------------------------------------------------------------------------------

#[derive(Clone, Copy, Debug, PartialEq, Eq, Hash, PartialOrd, Ord)]
enum Phase {
    Construct,
    Unary,
    Binary,
    Triple,
}

impl Phase {
    fn name(self) -> &'static str {
        match self {
            Phase::Construct => "construct",
            Phase::Unary => "unary",
            Phase::Binary => "binary",
            Phase::Triple => "triple",
        }
    }
}

/// One operand tuple (or one chunk of closed construction expressions) with the expressions
/// evaluated on it. `comps` is the literal form: what is judged, memoised, shrunk and replayed.
struct Cell {
    phase: Phase,
    mode: Mode,
    comps: Vec<Expr>,
    /// Bulk evaluation (wide mode): the same expressions over template parameters, as the source
    /// of a function `'opt.. -> [results]`, and the operands it is applied to.
    template: Option<(String, Vec<Val>)>,
}

/// Source of a template function over `arity` parameters of type `'o` (= `'opt`).
fn template_source(arity: usize, comps: &[Expr]) -> String {
    let params = if arity == 1 {
        "'o".to_string()
    } else {
        format!("[{}]", vec!["'o"; arity].join(", "))
    };
    format!(
        "#{} {{ [{}] }}",
        params,
        comps.iter().map(|c| c.source(Mode::Wide)).collect::<Vec<_>>().join(", ")
    )
}

/// The body of one program evaluating `cells` (all of one mode): template definitions, then a
/// tuple with one tuple of results per cell.
fn program_source(cells: &[&Cell]) -> String {
    let mut templates: Vec<&str> = vec![];
    let mut cell_srcs = vec![];
    for c in cells {
        match &c.template {
            Some((t, args)) => {
                let i = match templates.iter().position(|x| *x == t.as_str()) {
                    Some(i) => i,
                    None => {
                        templates.push(t.as_str());
                        templates.len() - 1
                    }
                };
                let a = if args.len() == 1 {
                    args[0].render()
                } else {
                    format!("[{}]", args.iter().map(|v| v.render()).collect::<Vec<_>>().join(", "))
                };
                cell_srcs.push(format!("{} t{}", a, i));
            }
            None => cell_srcs.push(format!(
                "[{}]",
                c.comps.iter().map(|e| e.source(c.mode)).collect::<Vec<_>>().join(", ")
            )),
        }
    }
    let mut src = String::new();
    for (i, t) in templates.iter().enumerate() {
        src.push_str(&format!("t{} = {}\n", i, t));
    }
    src.push_str(&format!("[{}]", cell_srcs.join(", ")));
    src
}

/// Evaluate cells in one program. If the program as a whole does not produce the expected shape
/// (one expression raised a runtime error, say) the cells are evaluated one per program, and a
/// cell that still fails has every expression evaluated on its own in literal form.
fn run_cells(w: &mut Worker, cells: &[&Cell], programs: &mut usize, hung: &mut bool) -> Vec<Vec<Outcome>> {
    *programs += 1;
    let whole = w.eval(&program_source(cells));
    let single = cells.len() == 1 && cells[0].comps.len() == 1 && cells[0].template.is_none();
    if whole == Outcome::Hang && !single {
        // Narrowing a hang down costs a watchdog period per step: it is done once per run, for
        // the first hung program (`narrow_hang`); here the program is only marked.
        *hung = true;
        return cells.iter().map(|c| vec![Outcome::NotRun; c.comps.len()]).collect();
    }
    if let Outcome::Value(text) = &whole {
        if let Some(parts) = oracle::split_tuple(text) {
            if parts.len() == cells.len() {
                let per_cell: Vec<Option<Vec<String>>> = parts.iter().map(|p| oracle::split_tuple(p)).collect();
                if per_cell
                    .iter()
                    .zip(cells.iter())
                    .all(|(p, c)| p.as_ref().map(|p| p.len()) == Some(c.comps.len()))
                {
                    return per_cell
                        .into_iter()
                        .map(|p| p.unwrap().into_iter().map(Outcome::Value).collect())
                        .collect();
                }
            }
        }
    }
    if single {
        // `[e]` did not evaluate to a one-element tuple: judge `e` on its own
        *programs += 1;
        return vec![vec![w.eval(&cells[0].comps[0].source(cells[0].mode))]];
    }
    if cells.len() > 1 {
        return cells.iter().map(|c| run_cells(w, &[*c], programs, hung).pop().unwrap()).collect();
    }
    let c = cells[0];
    vec![c
        .comps
        .iter()
        .map(|e| {
            *programs += 1;
            w.eval(&e.source(c.mode))
        })
        .collect()]
}

/// What a hung program could be narrowed down to.
enum Hung {
    /// This expression hangs on its own (literal form).
    Expr(Mode, Expr),
    /// Only this program as a whole was seen to hang.
    Program(Mode, String, Expr),
}

/// Bisect a hung program (evaluations are forced past the hang limit; at most ~10 of them).
fn narrow_hang(w: &mut Worker, cells: &[&Cell]) -> Hung {
    let mode = cells[0].mode;
    let whole = Hung::Program(mode, program_source(cells), cells[0].comps[0].clone());
    let hangs = |w: &mut Worker, src: &str| w.eval_forced(src) == Outcome::Hang;
    let mut set: Vec<&Cell> = cells.to_vec();
    while set.len() > 1 {
        let (l, r) = set.split_at(set.len() / 2);
        if hangs(w, &program_source(l)) {
            set = l.to_vec();
        } else if hangs(w, &program_source(r)) {
            set = r.to_vec();
        } else {
            return whole;
        }
    }
    let cell = set[0];
    let as_cell = |comps: &[Expr]| Cell {
        phase: cell.phase,
        mode,
        comps: comps.to_vec(),
        template: None,
    };
    let mut comps: Vec<Expr> = cell.comps.clone();
    if !hangs(w, &program_source(&[&as_cell(&comps)])) {
        return Hung::Program(mode, program_source(&[cell]), cell.comps[0].clone());
    }
    while comps.len() > 1 {
        let (l, r) = comps.split_at(comps.len() / 2);
        if hangs(w, &program_source(&[&as_cell(l)])) {
            comps = l.to_vec();
        } else if hangs(w, &program_source(&[&as_cell(r)])) {
            comps = r.to_vec();
        } else {
            return Hung::Program(mode, program_source(&[&as_cell(&comps)]), comps[0].clone());
        }
    }
    if hangs(w, &comps[0].source(mode)) {
        Hung::Expr(mode, comps.remove(0))
    } else {
        Hung::Program(mode, program_source(&[&as_cell(&comps)]), comps[0].clone())
    }
}

fn lit(v: &Val) -> Expr {
    Expr::Lit(v.clone())
}

fn unary_components(x: &Expr) -> Vec<Expr> {
    let mut v: Vec<Expr> = UNARY.iter().map(|op| Expr::op1(*op, x.clone())).collect();
    let one = Expr::Lit(Val::int(1));
    let zero = Expr::Lit(Val::int(0));
    let x = || x.clone();
    // a * (1/a) = 1, a + (-a) = 0, -(-a) = a, a/a = 1, |a| >= 0, sqrt(a*a) = |a|, sqrt(a)^2 = a
    v.push(Expr::op2(Op::Mul, x(), Expr::op2(Op::Div, one.clone(), x())));
    v.push(Expr::op2(Op::Add, x(), Expr::op1(Op::Neg, x())));
    v.push(Expr::op1(Op::Neg, Expr::op1(Op::Neg, x())));
    v.push(Expr::op2(Op::Div, x(), x()));
    v.push(Expr::op2(Op::Ge, Expr::op1(Op::Abs, x()), zero));
    v.push(Expr::op1(Op::Sqrt, Expr::op2(Op::Mul, x(), x())));
    v.push(Expr::op2(Op::Mul, Expr::op1(Op::Sqrt, x()), Expr::op1(Op::Sqrt, x())));
    v.push(Expr::op2(Op::Eq, Expr::op1(Op::Floor, x()), Expr::op1(Op::Ceil, x())));
    v
}

fn binary_components(x: &Expr, y: &Expr) -> Vec<Expr> {
    BINARY.iter().map(|op| Expr::op2(*op, x.clone(), y.clone())).collect()
}

/// Indices into `triple_components`.
mod tc {
    pub const ADD_L: usize = 0;
    pub const ADD_R: usize = 1;
    pub const MUL_L: usize = 2;
    pub const MUL_R: usize = 3;
    pub const DIS_L: usize = 4;
    pub const DIS_R: usize = 5;
    pub const RDIS_L: usize = 6;
    pub const RDIS_R: usize = 7;
    pub const SUB_L: usize = 8;
    pub const SUB_R: usize = 9;
    pub const DIV_L: usize = 10;
    pub const DIV_R: usize = 11;
    pub const ADD_SUB: usize = 12;
    pub const MUL_DIV: usize = 13;
    pub const LT_ADD: usize = 14;
    pub const LT_MUL: usize = 15;
    pub const EQ_ADD: usize = 16;
    pub const EQ_MUL: usize = 17;
    pub const EQ_DIS: usize = 18;
    pub const CLAMP: usize = 19;
}

fn triple_components(a: &Expr, b: &Expr, c: &Expr) -> Vec<Expr> {
    let (a, b, c) = (a.clone(), b.clone(), c.clone());
    let add = |x: &Expr, y: &Expr| Expr::op2(Op::Add, x.clone(), y.clone());
    let sub = |x: &Expr, y: &Expr| Expr::op2(Op::Sub, x.clone(), y.clone());
    let mul = |x: &Expr, y: &Expr| Expr::op2(Op::Mul, x.clone(), y.clone());
    let div = |x: &Expr, y: &Expr| Expr::op2(Op::Div, x.clone(), y.clone());
    let lt = |x: &Expr, y: &Expr| Expr::op2(Op::Lt, x.clone(), y.clone());
    let eq = |x: &Expr, y: &Expr| Expr::op2(Op::Eq, x.clone(), y.clone());
    let add_l = add(&add(&a, &b), &c);
    let add_r = add(&a, &add(&b, &c));
    let mul_l = mul(&mul(&a, &b), &c);
    let mul_r = mul(&a, &mul(&b, &c));
    let dis_l = mul(&a, &add(&b, &c));
    let dis_r = add(&mul(&a, &b), &mul(&a, &c));
    vec![
        add_l.clone(),
        add_r.clone(),
        mul_l.clone(),
        mul_r.clone(),
        dis_l.clone(),
        dis_r.clone(),
        mul(&add(&a, &b), &c),
        add(&mul(&a, &c), &mul(&b, &c)),
        sub(&sub(&a, &b), &c),
        sub(&a, &add(&b, &c)),
        div(&div(&a, &b), &c),
        div(&a, &mul(&b, &c)),
        add(&sub(&a, &b), &b),
        mul(&div(&a, &b), &b),
        lt(&add(&a, &c), &add(&b, &c)),
        lt(&mul(&a, &c), &mul(&b, &c)),
        eq(&add_l, &add_r),
        eq(&mul_l, &mul_r),
        eq(&dis_l, &dis_r),
        Expr::Op(Op::Clamp, vec![a.clone(), b.clone(), c.clone()]),
    ]
}

// ------------------------------------------------------------------------------------------
// Judging one observation
// ------------------------------------------------------------------------------------------

#[derive(Clone, Debug, PartialEq, Eq)]
enum Verdict {
    Pass,
    Abstained(&'static str),
    Fail { class: &'static str, expected: String },
}

fn expected_text(e: &Expect) -> String {
    match e {
        Expect::Exact(v) => v.render(),
        Expect::OneOf(vs) => vs.iter().map(|v| v.render()).collect::<Vec<_>>().join(" or "),
        Expect::Abstain(r) => format!("<not determined: {}>", r),
        Expect::Skip(r) => format!("<not run: {}>", r),
    }
}

fn judge(exp: &Expect, out: &Outcome) -> Verdict {
    // An abort/hang inside the repository code is a finding whatever the documentation says.
    match out {
        Outcome::Broken(_) => {
            return Verdict::Fail {
                class: "broken",
                expected: expected_text(exp),
            };
        }
        Outcome::Hang => {
            return Verdict::Fail {
                class: "hang",
                expected: expected_text(exp),
            };
        }
        Outcome::NotRun => return Verdict::Abstained("not run: hang limit of this run reached"),
        _ => {}
    }
    let alts: Vec<&Val> = match exp {
        Expect::Abstain(r) | Expect::Skip(r) => return Verdict::Abstained(r),
        Expect::Exact(v) => vec![v],
        Expect::OneOf(vs) => vs.iter().collect(),
    };
    let fail = |class: &'static str| Verdict::Fail {
        class,
        expected: expected_text(exp),
    };
    let text = match out {
        Outcome::Value(t) => t,
        Outcome::Runtime(_) => return fail("runtime-error"),
        Outcome::Compile(_) => return fail("compile-error"),
        Outcome::Parse(_) => return fail("parse-error"),
        Outcome::Broken(_) | Outcome::Hang | Outcome::NotRun => unreachable!(),
    };
    if alts.iter().any(|v| v.render() == *text) {
        return Verdict::Pass;
    }
    let Ok(obs) = Val::parse(text) else {
        return fail("malformed-result");
    };
    let want = alts[0];
    if *want == Val::Ok || obs == Val::Ok {
        return fail("wrong-verdict");
    }
    if alts.iter().all(|v| v.is_nil()) {
        return fail("expected-nil");
    }
    if obs.is_nil() {
        return fail("unexpected-nil");
    }
    match Alg::of(&obs) {
        Some(o) if alts.iter().any(|v| Alg::of(v).as_ref() == Some(&o)) => fail("wrong-form"),
        _ => fail("wrong-value"),
    }
}

#[derive(Clone, Debug)]
struct Failure {
    phase: Phase,
    mode: Mode,
    expr: Expr,
    class: &'static str,
    observed: String,
    expected: String,
    /// When the observation came from a bulk (template) program: that cell's program, and the
    /// index of the expression in its result tuple.
    bulk: Option<(String, usize)>,
}

// ------------------------------------------------------------------------------------------
// The evaluation context (memo of everything evaluated; live evaluation for the shrinker)
// ------------------------------------------------------------------------------------------

/// 128-bit key of (typing mode, literal-form source): the memo of a thorough run holds more than
/// a million entries whose sources are hundreds of bytes long.
type Key = (u64, u64);

fn key_of(mode: Mode, src: &str) -> Key {
    use std::hash::{Hash, Hasher};
    let mut h1 = std::collections::hash_map::DefaultHasher::new();
    (mode, 0x9e37u16, src).hash(&mut h1);
    let mut h2 = std::collections::hash_map::DefaultHasher::new();
    (src, 0x51edu16, mode, src.len()).hash(&mut h2);
    (h1.finish(), h2.finish())
}

struct Ctx {
    memo: Mutex<HashMap<Key, Outcome>>,
    pool: Pool,
}

impl Ctx {
    fn get(&self, mode: Mode, src: &str) -> Option<Outcome> {
        self.memo.lock().unwrap().get(&key_of(mode, src)).cloned()
    }
    fn put(&self, mode: Mode, src: &str, o: Outcome) {
        if o == Outcome::NotRun {
            return;
        }
        self.memo.lock().unwrap().insert(key_of(mode, src), o);
    }
    fn lookup(&self, mode: Mode, e: &Expr) -> Option<Outcome> {
        self.get(mode, &e.source(mode))
    }
    fn eval(&self, mode: Mode, e: &Expr) -> Result<Outcome, String> {
        let src = e.source(mode);
        if let Some(o) = self.get(mode, &src) {
            return Ok(o);
        }
        let o = self.pool.with(|w| w.eval(&src))?;
        self.put(mode, &src, o.clone());
        Ok(o)
    }
    /// Evaluate the not yet known ones among `exprs` together in one program (literal form).
    fn prefetch(&self, mode: Mode, exprs: &[Expr]) -> Result<(), String> {
        let todo: Vec<Expr> = exprs
            .iter()
            .filter(|e| !matches!(oracle::expect(e), Expect::Skip(_)) && self.lookup(mode, e).is_none())
            .cloned()
            .collect();
        if todo.len() < 2 {
            return Ok(());
        }
        let cell = Cell {
            phase: Phase::Construct,
            mode,
            comps: todo,
            template: None,
        };
        let (mut n, mut hung) = (0usize, false);
        let mut outs = self.pool.with(|w| run_cells(w, &[&cell], &mut n, &mut hung))?;
        for (e, o) in cell.comps.iter().zip(outs.pop().unwrap_or_default()) {
            self.put(mode, &e.source(mode), o);
        }
        Ok(())
    }
    /// Evaluate in literal form now, bypassing (and then updating) the memo.
    fn eval_fresh(&self, mode: Mode, e: &Expr) -> Result<Outcome, String> {
        let src = e.source(mode);
        let o = self.pool.with(|w| w.eval(&src))?;
        self.put(mode, &src, o.clone());
        Ok(o)
    }
    /// As `fails`, but only from what has been evaluated already (`None` when unknown).
    fn fails_known(&self, mode: Mode, e: &Expr) -> Option<&'static str> {
        let exp = oracle::expect(e);
        if matches!(exp, Expect::Skip(_)) {
            return None;
        }
        match judge(&exp, &self.lookup(mode, e)?) {
            Verdict::Fail { class, .. } => Some(class),
            _ => None,
        }
    }
    /// Does `(mode, e)` fail, and with which class? `None` when it passes, is not determined by
    /// the documentation, or must not be run.
    fn fails(&self, mode: Mode, e: &Expr) -> Result<Option<&'static str>, String> {
        let exp = oracle::expect(e);
        if matches!(exp, Expect::Skip(_)) {
            return Ok(None);
        }
        let out = self.eval(mode, e)?;
        Ok(match judge(&exp, &out) {
            Verdict::Fail { class, .. } => Some(class),
            _ => None,
        })
    }
}

// ------------------------------------------------------------------------------------------
// Shrinking to a minimal core
// ------------------------------------------------------------------------------------------

fn subtrees<'a>(e: &'a Expr, out: &mut Vec<&'a Expr>) {
    if let Expr::Op(_, args) = e {
        for a in args {
            out.push(a);
            subtrees(a, out);
        }
    }
}

/// All expressions obtained by replacing exactly one node (pre-order index `target`) via `f`.
fn replace_node(e: &Expr, target: usize, counter: &mut usize, f: &dyn Fn(&Expr) -> Option<Expr>) -> Option<Expr> {
    let me = *counter;
    *counter += 1;
    if me == target {
        return f(e);
    }
    if let Expr::Op(op, args) = e {
        for (i, a) in args.iter().enumerate() {
            if *counter > target {
                return None;
            }
            if let Some(n) = replace_node(a, target, counter, f) {
                let mut na = args.clone();
                na[i] = n;
                return Some(Expr::Op(*op, na));
            }
        }
    }
    None
}

fn node_at(e: &Expr, target: usize) -> Option<Expr> {
    let found = std::cell::RefCell::new(None);
    let mut c = 0usize;
    let _ = replace_node(e, target, &mut c, &|n| {
        *found.borrow_mut() = Some(n.clone());
        None
    });
    found.into_inner()
}

fn candidates(e: &Expr, alphabet: &[Val], literals: &[String]) -> Vec<Expr> {
    let mut out: Vec<Expr> = vec![];
    // 1. hoist an operation subtree to the root (smallest first)
    let mut subs = vec![];
    subtrees(e, &mut subs);
    let mut hoists: Vec<&Expr> = subs.iter().copied().filter(|s| matches!(s, Expr::Op(..))).collect();
    hoists.sort_by_key(|s| s.nodes());
    out.extend(hoists.into_iter().cloned());
    let n = e.nodes();
    // 2. replace an inner operation by the literal of its documented value
    for t in 1..n {
        let mut c = 0usize;
        if let Some(x) = replace_node(e, t, &mut c, &|node| match node {
            Expr::Op(..) => match oracle::expect(node) {
                Expect::Exact(v) if v != Val::Ok => Some(Expr::Lit(v)),
                _ => None,
            },
            _ => None,
        }) {
            out.push(x);
        }
    }
    // 3. canonical operand order: swap two literal operands of one operation when that makes the
    //    operand list simpler-first
    for t in 0..n {
        let Some(Expr::Op(op, args)) = node_at(e, t) else { continue };
        for i in 0..args.len() {
            for j in i + 1..args.len() {
                if let (Expr::Lit(x), Expr::Lit(y)) = (&args[i], &args[j]) {
                    if oracle::rank(y) < oracle::rank(x) {
                        let mut na = args.clone();
                        na.swap(i, j);
                        let swapped = Expr::Op(op, na);
                        let mut c = 0usize;
                        if let Some(x) = replace_node(e, t, &mut c, &|_| Some(swapped.clone())) {
                            out.push(x);
                        }
                    }
                }
            }
        }
    }
    // 4. replace a leaf by a simpler operand of the alphabet / a simpler literal spelling
    for t in 0..n {
        let Some(node) = node_at(e, t) else { continue };
        match node {
            Expr::Lit(v) => {
                let r = oracle::rank(&v);
                for cand in alphabet {
                    if oracle::rank(cand) >= r {
                        break;
                    }
                    let mut c = 0usize;
                    if let Some(x) = replace_node(e, t, &mut c, &|_| Some(Expr::Lit(cand.clone()))) {
                        out.push(x);
                    }
                }
            }
            Expr::Src(s) => {
                for l in literals {
                    if (l.len(), l) >= (s.len(), &s) {
                        continue;
                    }
                    let mut c = 0usize;
                    if let Some(x) = replace_node(e, t, &mut c, &|_| Some(Expr::Src(l.clone()))) {
                        out.push(x);
                    }
                }
            }
            Expr::Op(..) | Expr::Param(..) => {}
        }
    }
    out
}

/// Shrink to a fixpoint. A candidate is kept when it fails with the same class; a hoisted
/// sub-expression is also kept when it fails with another class (a part that violates the property
/// on its own is the better witness), and shrinking continues with that class. With `live = false`
/// only what has already been evaluated is consulted (unknown candidates are passed over).
fn shrink(
    ctx: &Ctx,
    mode: Mode,
    start: &Expr,
    class: &'static str,
    alphabet: &[Val],
    literals: &[String],
    live: bool,
    budget: &Budget,
) -> Result<(Expr, &'static str), String> {
    let mut cur = start.clone();
    let mut class = class;
    loop {
        if live && budget.exhausted() {
            return Ok((cur, class));
        }
        let mut changed = false;
        let mut hoists = vec![];
        subtrees(&cur, &mut hoists);
        let hoists: HashSet<Expr> = hoists.into_iter().filter(|h| matches!(h, Expr::Op(..))).cloned().collect();
        let cands = candidates(&cur, alphabet, literals);
        'outer: for chunk in cands.chunks(16) {
            if live {
                ctx.prefetch(mode, chunk)?;
            }
            for cand in chunk {
                let verdict = if live {
                    ctx.fails(mode, cand)?
                } else {
                    ctx.fails_known(mode, cand)
                };
                match verdict {
                    Some(c) if c == class || hoists.contains(cand) => {
                        cur = cand.clone();
                        class = c;
                        changed = true;
                        break 'outer;
                    }
                    _ => {}
                }
            }
        }
        if !changed {
            return Ok((cur, class));
        }
    }
}

fn kind_pattern(e: &Expr) -> String {
    let mut l = vec![];
    e.leaves(&mut l);
    l.iter()
        .map(|v| match v {
            Val::Int(n) if n.bits() > 64 => "bigint",
            v => v.kind(),
        })
        .collect::<Vec<_>>()
        .join(",")
}

fn root_op(e: &Expr) -> &'static str {
    match e {
        Expr::Op(op, _) => op.name(),
        Expr::Lit(_) => "literal",
        Expr::Src(_) => "source-literal",
        Expr::Param(..) => "parameter",
    }
}

// ------------------------------------------------------------------------------------------
// Laws on observed results
// ------------------------------------------------------------------------------------------

#[derive(Default, Clone)]
struct LawCount {
    held: usize,
    undefined: usize,
    component_failed: usize,
    violated: usize,
}

struct Laws<'a> {
    ctx: &'a Ctx,
    counts: BTreeMap<&'static str, LawCount>,
    violations: Vec<(String, String, J)>, // signature, summary, replay
    failed: &'a HashSet<Key>,
}

/// An observed component: `None` if it was not run or failed its own oracle comparison.
#[derive(Clone, Debug, PartialEq)]
enum Obs {
    Missing,
    Failed,
    Val(Val),
}

impl<'a> Laws<'a> {
    fn obs(&self, mode: Mode, e: &Expr) -> Obs {
        if let Expr::Lit(v) = e {
            return Obs::Val(v.clone()); // an operand itself
        }
        let src = e.source(mode);
        if self.failed.contains(&key_of(mode, &src)) {
            return Obs::Failed;
        }
        match self.ctx.get(mode, &src).as_ref() {
            Some(Outcome::Value(t)) => match Val::parse(t) {
                Ok(v) => Obs::Val(v),
                Err(_) => Obs::Failed,
            },
            Some(_) => Obs::Failed,
            None => Obs::Missing,
        }
    }
    /// Record one instance. `sides`: the observed components the instance rests on;
    /// `defined`: whether the law says anything here; `holds`: evaluated lazily on the values.
    fn instance(
        &mut self,
        law: &'static str,
        mode: Mode,
        operands: &[&Val],
        exprs: &[&Expr],
    ) {
        let defined = |v: &[Val]| law_check(law, v).0;
        let holds = |v: &[Val]| law_check(law, v).1;
        let mut vals = vec![];
        let mut missing = false;
        let mut failed = false;
        for e in exprs {
            match self.obs(mode, e) {
                Obs::Missing => missing = true,
                Obs::Failed => failed = true,
                Obs::Val(v) => vals.push(v),
            }
        }
        if missing {
            return; // not enumerated (budget cap or skipped): not an instance
        }
        let c = self.counts.entry(law).or_default();
        if failed {
            c.component_failed += 1;
            return;
        }
        if !defined(&vals) {
            c.undefined += 1;
            return;
        }
        if holds(&vals) {
            c.held += 1;
            return;
        }
        c.violated += 1;
        let ops: Vec<String> = operands.iter().map(|v| v.render()).collect();
        let sig = format!("law-violated: {}({})", law, ops.join(", "));
        let summary = format!(
            "{} [{} types]: {}",
            sig,
            mode.name(),
            exprs
                .iter()
                .zip(vals.iter())
                .map(|(e, v)| format!("{} = {}", e.text(), v.render()))
                .collect::<Vec<_>>()
                .join("; ")
        );
        let replay = json!({
            "kind": "law",
            "law": law,
            "mode": mode.name(),
            "exprs": exprs.iter().map(|e| e.to_json()).collect::<Vec<_>>(),
            "operands": ops,
        });
        // enumeration is simplest-first: keep only the first witness per (law, mode)
        if !self
            .violations
            .iter()
            .any(|(s, _, r)| s.starts_with(&format!("law-violated: {}(", law)) && r["mode"] == mode.name())
        {
            self.violations.push((sig, summary, replay));
        }
    }
}

fn same_number(x: &Val, y: &Val) -> bool {
    match (Alg::of(x), Alg::of(y)) {
        (Some(a), Some(b)) => a == b,
        _ => false,
    }
}

fn is_num(v: &Val) -> bool {
    matches!(v, Val::Int(_) | Val::Rat(..) | Val::Surd(..))
}

fn truth(v: &Val) -> bool {
    *v == Val::Ok
}

/// The law predicates, shared by the run and by `replay`.
fn law_check(law: &str, vals: &[Val]) -> (bool, bool) {
    // returns (defined, holds)
    match law {
        "add-assoc" | "mul-assoc" | "distrib-left" | "distrib-right" | "sub-assoc" | "div-assoc" | "add-comm"
        | "mul-comm" | "add-sub-cancel" | "mul-div-cancel" | "neg-involution" => (
            is_num(&vals[0]) && is_num(&vals[1]),
            same_number(&vals[0], &vals[1]),
        ),
        "additive-inverse" | "self-subtraction" => (is_num(&vals[0]), same_number(&vals[0], &Val::int(0))),
        "multiplicative-inverse" | "self-division" => (is_num(&vals[0]), same_number(&vals[0], &Val::int(1))),
        // vals = [lt, eq, gt, le, ge] of a comparable pair
        "trichotomy" => (
            true,
            [&vals[0], &vals[1], &vals[2]].iter().filter(|v| truth(v)).count() == 1
                && truth(&vals[3]) == (truth(&vals[0]) || truth(&vals[1]))
                && truth(&vals[4]) == (truth(&vals[2]) || truth(&vals[1])),
        ),
        // vals = [lt(a,b), gt(b,a), eq(a,b), eq(b,a)]
        "order-antisymmetry" => (
            true,
            truth(&vals[0]) == truth(&vals[1]) && truth(&vals[2]) == truth(&vals[3]),
        ),
        // vals = [lt(a,b), lt(b,c), lt(a,c)]
        "order-transitivity" => (
            truth(&vals[0]) && truth(&vals[1]),
            truth(&vals[2]),
        ),
        // vals = [lt(a,b), lt(a+c, b+c)]
        "order-add-compat" => (true, truth(&vals[0]) == truth(&vals[1])),
        // vals = [lt(a,b), gt(a,b), lt(ac, bc), sign(c)]
        "order-mul-compat" => (
            true,
            match &vals[3] {
                Val::Int(s) if s.is_positive() => truth(&vals[2]) == truth(&vals[0]),
                Val::Int(s) if s.is_negative() => truth(&vals[2]) == truth(&vals[1]),
                _ => !truth(&vals[2]),
            },
        ),
        _ => (false, false),
    }
}

// ------------------------------------------------------------------------------------------
// run
// ------------------------------------------------------------------------------------------

fn worker_count() -> usize {
    std::thread::available_parallelism().map(|n| n.get()).unwrap_or(4).clamp(2, 16)
}

fn nontrivial(e: &Expr) -> bool {
    let mut l = vec![];
    e.leaves(&mut l);
    !l.is_empty()
        && !l.iter().any(|v| v.is_nil())
        && l.iter().any(|v| match v {
            Val::Int(n) => n.bits() > 64,
            Val::Rat(..) | Val::Surd(..) => true,
            _ => false,
        })
}

pub fn run(tier: Tier) -> Result<Report, String> {
    if std::env::var_os(pool::CHILD_ENV).is_some() {
        pool::child_main();
    }
    let budget = Budget::new(match tier {
        Tier::Quick => 20.0,
        Tier::Thorough => 540.0,
    });
    let timing = std::env::var_os("QV_C20_TIMING").is_some();
    let t0 = std::time::Instant::now();
    let lap = |what: &str| {
        if timing {
            eprintln!("[c20 timing] {:>8.2}s {}", t0.elapsed().as_secs_f64(), what);
        }
    };
    let uni = Universe::new(tier)?;
    let workers = worker_count();
    let ctx = Ctx {
        memo: Mutex::new(HashMap::new()),
        pool: Pool::new(
            workers,
            Duration::from_secs(match tier {
                Tier::Quick => 10,
                Tier::Thorough => 30,
            }),
        )?,
    };
    let threads = rayon::ThreadPoolBuilder::new()
        .num_threads(workers)
        .build()
        .map_err(|e| e.to_string())?;

    lap("workers started");
    // ---- enumerate ------------------------------------------------------------------------
    // Wide typing mode: everything, evaluated in bulk through template functions.
    // Precise typing mode (literal operands inline at every call site; ~0.7 ms of compilation per
    // call site): everything in the thorough tier; in the quick tier all constructions, all
    // unary cells, the pairs of the law alphabet S and the triples of a 6-element subset of S.
    let modes = [Mode::Wide, Mode::Precise];
    let precise_pairs: Vec<Val> = match tier {
        Tier::Quick => uni.law_operands.clone(),
        Tier::Thorough => uni.operands.clone(),
    };
    let precise_triples: Vec<Val> = match tier {
        Tier::Quick => uni.precise_triple_operands.clone(),
        Tier::Thorough => uni.law_operands.clone(),
    };
    let mut cells: Vec<Cell> = vec![];
    let mut skipped_cost = 0usize;
    let mut skipped_samples: Vec<String> = vec![];
    // keep the expressions that may be run; returns them with their indices
    let mut keep = |comps: Vec<Expr>, count: bool| -> (Vec<Expr>, Vec<usize>) {
        let mut kept = vec![];
        let mut idx = vec![];
        for (i, c) in comps.into_iter().enumerate() {
            if let Expect::Skip(_) = oracle::expect(&c) {
                if count {
                    skipped_cost += 1;
                    if skipped_samples.len() < 5 {
                        skipped_samples.push(c.text());
                    }
                }
            } else {
                kept.push(c);
                idx.push(i);
            }
        }
        (kept, idx)
    };
    let pick = |all: Vec<Expr>, idx: &[usize]| -> Vec<Expr> { idx.iter().map(|i| all[*i].clone()).collect() };
    let (p1, p2a, p2b, p3a, p3b, p3c) = (
        Expr::Param(0, 1),
        Expr::Param(0, 2),
        Expr::Param(1, 2),
        Expr::Param(0, 3),
        Expr::Param(1, 3),
        Expr::Param(2, 3),
    );
    for mode in modes {
        let wide = mode == Mode::Wide;
        // A. constructions: div of every (p, q), every literal spelling, every surd constructor
        let mut cons: Vec<Expr> = vec![];
        for p in &uni.rat_p {
            for d in uni.rat_q.iter().chain([BigInt::zero()].iter()) {
                cons.push(Expr::op2(Op::Div, Expr::Lit(Val::Int(p.clone())), Expr::Lit(Val::Int(d.clone()))));
            }
        }
        cons.extend(uni.literals.iter().map(|l| Expr::Src(l.clone())));
        cons.extend(uni.surd_ctors.iter().cloned());
        for chunk in cons.chunks(12) {
            let (comps, _) = keep(chunk.to_vec(), true);
            cells.push(Cell { phase: Phase::Construct, mode, comps, template: None });
        }
        // B. unary operations and one-operand identities on N
        for x in &uni.operands {
            let (comps, idx) = keep(unary_components(&lit(x)), true);
            let template = wide.then(|| (template_source(1, &pick(unary_components(&p1), &idx)), vec![x.clone()]));
            cells.push(Cell { phase: Phase::Unary, mode, comps, template });
        }
        // C. binary operations on N x N
        let pair_alphabet = if wide { &uni.operands } else { &precise_pairs };
        for x in pair_alphabet {
            for y in pair_alphabet {
                let (comps, idx) = keep(binary_components(&lit(x), &lit(y)), true);
                let template =
                    wide.then(|| (template_source(2, &pick(binary_components(&p2a, &p2b), &idx)), vec![x.clone(), y.clone()]));
                cells.push(Cell { phase: Phase::Binary, mode, comps, template });
            }
        }
        // D. depth-2/3 expressions of the laws, and clamp, on S x S x S
        let triple_alphabet = if wide { &uni.law_operands } else { &precise_triples };
        for a in triple_alphabet {
            for b in triple_alphabet {
                for c in triple_alphabet {
                    let (comps, idx) = keep(triple_components(&lit(a), &lit(b), &lit(c)), true);
                    let template = wide.then(|| {
                        (
                            template_source(3, &pick(triple_components(&p3a, &p3b, &p3c), &idx)),
                            vec![a.clone(), b.clone(), c.clone()],
                        )
                    });
                    cells.push(Cell { phase: Phase::Triple, mode, comps, template });
                }
            }
        }
    }
    cells.retain(|c| !c.comps.is_empty());
    // Programs: consecutive cells of one (mode, phase); wide first, so that a time cap cuts the
    // (narrower) precise-mode part.
    let chunk_size = |c: &Cell| match (c.mode, c.phase) {
        (Mode::Wide, Phase::Construct) => 2,
        (Mode::Wide, Phase::Unary) => 8,
        (Mode::Wide, Phase::Binary) => 32,
        (Mode::Wide, Phase::Triple) => 12,
        (Mode::Precise, Phase::Construct) => 1,
        (Mode::Precise, Phase::Unary) => 2,
        (Mode::Precise, Phase::Binary) => 4,
        (Mode::Precise, Phase::Triple) => 2,
    };
    let mut programs: Vec<Vec<usize>> = vec![];
    for (i, c) in cells.iter().enumerate() {
        match programs.last_mut() {
            Some(p) if cells[p[0]].mode == c.mode && cells[p[0]].phase == c.phase && p.len() < chunk_size(c) => p.push(i),
            _ => programs.push(vec![i]),
        }
    }
    let planned_programs = programs.len();
    let planned_evaluations: usize = cells.iter().map(|b| b.comps.len()).sum();

    lap("enumerated");
    // ---- evaluate in waves ----------------------------------------------------------------
    let seed = crate::infra::seed().unsigned_abs() as usize;
    let wave = 4 * workers;
    let nwaves = programs.len().div_ceil(wave);
    let mut results: Vec<Option<Vec<Outcome>>> = (0..cells.len()).map(|_| None).collect();
    let mut programs_run = 0usize;
    let mut hung_programs: Vec<usize> = vec![];
    let mut caps_hit: Vec<String> = vec![];
    let mut waves_done = 0usize;
    for wv in 0..nwaves {
        if pool::hang_limit_reached() {
            caps_hit.push(format!(
                "hang limit: {} programs ran into the watchdog; nothing was evaluated after that (stopped before program {} of {})",
                pool::MAX_HANGS,
                wv * wave,
                programs.len()
            ));
            break;
        }
        if budget.exhausted() {
            let first = &cells[programs[wv * wave][0]];
            caps_hit.push(format!(
                "time budget: stopped before program {} of {} (reached {} typing mode, phase {}; everything before it is complete)",
                wv * wave,
                programs.len(),
                first.mode.name(),
                first.phase.name()
            ));
            break;
        }
        let lo = wv * wave;
        let hi = (lo + wave).min(programs.len());
        let len = hi - lo;
        // the seed only rotates the order in which the slices of a wave are handed out
        let order: Vec<usize> = (0..len).map(|i| lo + (i + seed) % len).collect();
        let outs: Vec<(usize, Result<(Vec<Vec<Outcome>>, usize, bool), String>)> = threads.install(|| {
            order
                .par_iter()
                .map(|&pi| {
                    let cs: Vec<&Cell> = programs[pi].iter().map(|&ci| &cells[ci]).collect();
                    (
                        pi,
                        ctx.pool.with(|w| {
                            let (mut n, mut hung) = (0usize, false);
                            let r = run_cells(w, &cs, &mut n, &mut hung);
                            (r, n, hung)
                        }),
                    )
                })
                .collect()
        });
        for (pi, r) in outs {
            let (o, n, hung) = r?;
            if hung {
                hung_programs.push(pi);
            }
            programs_run += n;
            for (ci, oc) in programs[pi].iter().zip(o.into_iter()) {
                results[*ci] = Some(oc);
            }
        }
        waves_done += 1;
    }
    // A hang is a finding: the first hung program (in enumeration order) is narrowed down.
    hung_programs.sort();
    let mut hang_violation: Option<Violation> = None;
    if let Some(&pi) = hung_programs.first() {
        let cs: Vec<&Cell> = programs[pi].iter().map(|&ci| &cells[ci]).collect();
        let others = hung_programs.len() - 1;
        hang_violation = Some(match ctx.pool.with(|w| narrow_hang(w, &cs))? {
            Hung::Expr(mode, e) => Violation {
                signature: format!("hang: {} @{}-types", e.text(), mode.name()),
                summary: format!(
                    "`{}` does not answer within the watchdog limit (documented {}); {} further program(s) of the enumeration hung and were not narrowed down",
                    e.source(mode),
                    expected_text(&oracle::expect(&e)),
                    others
                ),
                replay: json!({ "kind": "expr", "mode": mode.name(), "class": "hang", "expr": e.to_json(), "source": e.source(mode) }),
            },
            Hung::Program(mode, program, first) => Violation {
                signature: format!("hang: program beginning with {} @{}-types", first.text(), mode.name()),
                summary: format!(
                    "the program `{}` does not answer within the watchdog limit although its parts do; {} further program(s) hung",
                    program, others
                ),
                replay: json!({ "kind": "bulk", "mode": mode.name(), "class": "hang", "program": program, "index": 0, "expr": first.to_json() }),
            },
        });
    }
    let batches = &cells;

    lap("evaluated");
    // ---- judge ------------------------------------------------------------------------------
    let mut evaluations = 0usize;
    let mut not_run_hang_limit = 0usize;
    let mut passed = 0usize;
    let mut abstained: BTreeMap<&'static str, usize> = BTreeMap::new();
    let mut per_phase: BTreeMap<&'static str, usize> = BTreeMap::new();
    let mut per_op: BTreeMap<&'static str, usize> = BTreeMap::new();
    let mut nontrivial_set: HashSet<String> = HashSet::new();
    let mut failures: Vec<Failure> = vec![];
    let mut failed_keys: HashSet<Key> = HashSet::new();
    let mut sample_best: BTreeMap<(&'static str, &'static str), (u8, J)> = BTreeMap::new();
    {
        let mut memo = ctx.memo.lock().unwrap();
        for (b, r) in batches.iter().zip(results.iter()) {
            let Some(outs) = r else { continue };
            for (e, o) in b.comps.iter().zip(outs.iter()) {
                if *o != Outcome::NotRun {
                    memo.insert(key_of(b.mode, &e.source(b.mode)), o.clone());
                }
            }
        }
    }
    for (b, r) in batches.iter().zip(results.iter()) {
        let Some(outs) = r else { continue };
        for (k, (e, o)) in b.comps.iter().zip(outs.iter()).enumerate() {
            if *o == Outcome::NotRun {
                not_run_hang_limit += 1;
                continue;
            }
            evaluations += 1;
            *per_phase.entry(b.phase.name()).or_default() += 1;
            *per_op.entry(root_op(e)).or_default() += 1;
            let exp = oracle::expect(e);
            match judge(&exp, o) {
                Verdict::Pass => {
                    passed += 1;
                    if nontrivial(e) {
                        nontrivial_set.insert(e.text());
                        // one written-out sample per (phase, outermost operation): the first case
                        // with a surd operand if there is one, else with a rational, else any
                        let k = (b.phase.name(), root_op(e));
                        let score = {
                            let p = kind_pattern(e);
                            if p.contains("surd") {
                                3
                            } else if p.contains("rational") {
                                2
                            } else {
                                1
                            }
                        };
                        if b.mode == Mode::Precise && sample_best.get(&k).map(|(s, _)| *s < score).unwrap_or(true) {
                            sample_best.insert(
                                k,
                                (
                                    score,
                                    json!({
                                        "phase": b.phase.name(),
                                        "source": e.source(b.mode),
                                        "observed": o.describe(),
                                        "expected": expected_text(&exp),
                                    }),
                                ),
                            );
                        }
                    }
                }
                Verdict::Abstained(r) => {
                    *abstained.entry(r).or_default() += 1;
                }
                Verdict::Fail { class, expected } => {
                    if nontrivial(e) {
                        nontrivial_set.insert(e.text());
                    }
                    failed_keys.insert(key_of(b.mode, &e.source(b.mode)));
                    failures.push(Failure {
                        phase: b.phase,
                        mode: b.mode,
                        expr: e.clone(),
                        class,
                        observed: o.describe(),
                        expected,
                        bulk: b.template.as_ref().map(|_| (program_source(&[b]), k)),
                    });
                }
            }
        }
    }

    lap("judged");
    // ---- laws on the observed results ---------------------------------------------------------
    let mut laws = Laws {
        ctx: &ctx,
        counts: BTreeMap::new(),
        violations: vec![],
        failed: &failed_keys,
    };
    let e2 = |op: Op, x: &Val, y: &Val| Expr::op2(op, lit(x), lit(y));
    for mode in modes {
        for x in &uni.operands {
            if x.is_nil() {
                continue;
            }
            let comps = unary_components(&lit(x));
            let n = UNARY.len();
            let ax = Alg::of(x).unwrap();
            if !ax.is_zero() {
                laws.instance("multiplicative-inverse", mode, &[x], &[&comps[n]]);
                laws.instance("self-division", mode, &[x], &[&comps[n + 3]]);
            }
            laws.instance("additive-inverse", mode, &[x], &[&comps[n + 1]]);
            let xe = lit(x);
            laws.instance("neg-involution", mode, &[x], &[&comps[n + 2], &xe]);
            let sx = e2(Op::Sub, x, x);
            laws.instance("self-subtraction", mode, &[x], &[&sx]);
        }
        for x in &uni.operands {
            for y in &uni.operands {
                if x.is_nil() || y.is_nil() {
                    continue;
                }
                let (ax, ay) = (Alg::of(x).unwrap(), Alg::of(y).unwrap());
                let comparable = ax.compare(&ay).is_some();
                let (lt, eq, gt, le, ge) = (e2(Op::Lt, x, y), e2(Op::Eq, x, y), e2(Op::Gt, x, y), e2(Op::Le, x, y), e2(Op::Ge, x, y));
                if laws.obs(mode, &lt) == Obs::Missing {
                    continue; // pair not enumerated in this typing mode
                }
                if comparable {
                    laws.instance("trichotomy", mode, &[x, y], &[&lt, &eq, &gt, &le, &ge]);
                } else {
                    laws.counts.entry("trichotomy").or_default().undefined += 1;
                }
                let (gt_r, eq_r) = (e2(Op::Gt, y, x), e2(Op::Eq, y, x));
                laws.instance("order-antisymmetry", mode, &[x, y], &[&lt, &gt_r, &eq, &eq_r]);
                let (a1, a2) = (e2(Op::Add, x, y), e2(Op::Add, y, x));
                laws.instance("add-comm", mode, &[x, y], &[&a1, &a2]);
                let (m1, m2) = (e2(Op::Mul, x, y), e2(Op::Mul, y, x));
                laws.instance("mul-comm", mode, &[x, y], &[&m1, &m2]);
            }
        }
        for a in &uni.law_operands {
            for b in &uni.law_operands {
                for c in &uni.law_operands {
                    if a.is_nil() || b.is_nil() || c.is_nil() {
                        continue;
                    }
                    let t = triple_components(&lit(a), &lit(b), &lit(c));
                    if laws.obs(mode, &t[tc::ADD_L]) == Obs::Missing {
                        continue; // triple not enumerated in this typing mode
                    }
                    let ops = [a, b, c];
                    for (law, l, r) in [
                        ("add-assoc", tc::ADD_L, tc::ADD_R),
                        ("mul-assoc", tc::MUL_L, tc::MUL_R),
                        ("distrib-left", tc::DIS_L, tc::DIS_R),
                        ("distrib-right", tc::RDIS_L, tc::RDIS_R),
                        ("sub-assoc", tc::SUB_L, tc::SUB_R),
                        ("div-assoc", tc::DIV_L, tc::DIV_R),
                    ] {
                        laws.instance(law, mode, &ops, &[&t[l], &t[r]]);
                    }
                    let ae = lit(a);
                    laws.instance("add-sub-cancel", mode, &ops[..2], &[&t[tc::ADD_SUB], &ae]);
                    laws.instance("mul-div-cancel", mode, &ops[..2], &[&t[tc::MUL_DIV], &ae]);
                    // order laws: only where every comparison involved is defined (same radical)
                    let (aa, ab, ac) = (Alg::of(a).unwrap(), Alg::of(b).unwrap(), Alg::of(c).unwrap());
                    let (lt_ab, lt_bc, lt_ac, gt_ab) = (e2(Op::Lt, a, b), e2(Op::Lt, b, c), e2(Op::Lt, a, c), e2(Op::Gt, a, b));
                    if aa.compare(&ab).is_some() && ab.compare(&ac).is_some() && aa.compare(&ac).is_some() {
                        laws.instance("order-transitivity", mode, &ops, &[&lt_ab, &lt_bc, &lt_ac]);
                    } else {
                        laws.counts.entry("order-transitivity").or_default().undefined += 1;
                    }
                    let sums = aa.add(&ac).zip(ab.add(&ac));
                    if aa.compare(&ab).is_some() && sums.as_ref().map(|(x, y)| x.compare(y).is_some()) == Some(true) {
                        laws.instance("order-add-compat", mode, &ops, &[&lt_ab, &t[tc::LT_ADD]]);
                    } else {
                        laws.counts.entry("order-add-compat").or_default().undefined += 1;
                    }
                    let prods = aa.mul(&ac).zip(ab.mul(&ac));
                    if aa.compare(&ab).is_some() && prods.as_ref().map(|(x, y)| x.compare(y).is_some()) == Some(true) {
                        let sc = Expr::op1(Op::Sign, lit(c));
                        laws.instance("order-mul-compat", mode, &ops, &[&lt_ab, &gt_ab, &t[tc::LT_MUL], &sc]);
                    } else {
                        laws.counts.entry("order-mul-compat").or_default().undefined += 1;
                    }
                }
            }
        }
    }
    let law_counts = laws.counts.clone();
    let law_violations = std::mem::take(&mut laws.violations);
    drop(laws);

    lap("laws done");
    // ---- shrink failures to minimal cores ---------------------------------------------------------
    failures.sort_by(|x, y| {
        (x.expr.nodes(), x.expr.text().len(), x.expr.text(), x.mode).cmp(&(y.expr.nodes(), y.expr.text().len(), y.expr.text(), y.mode))
    });
    let mut group_sizes: BTreeMap<(&'static str, &'static str), usize> = BTreeMap::new();
    for f in &failures {
        *group_sizes.entry((f.class, root_op(&f.expr))).or_default() += 1;
    }
    // what is left of the tier's wall-clock allowance (at least 5 s / 60 s)
    let shrink_budget = Budget::new(match tier {
        Tier::Quick => (26.0 - t0.elapsed().as_secs_f64()).max(5.0),
        Tier::Thorough => (680.0 - t0.elapsed().as_secs_f64()).max(60.0),
    });
    // shrink over the whole operand alphabet in either typing mode (so that cores do not depend on
    // which part of it a mode enumerates)
    let alphabet = &uni.operands;
    let literals = &uni.literals;
    // Pass 1 (no evaluation, deterministic): every failure is shrunk as far as the results already
    // known allow. The wide mode enumerates the whole alphabet, so a precise-mode failure that the
    // wide mode shares is shrunk there. Failures reaching the same provisional core are one family.
    let never = Budget::new(f64::INFINITY);
    let provisional: Vec<(Mode, Expr, &'static str)> = threads.install(|| {
        failures
            .par_iter()
            .map(|f| {
                let m = if f.mode == Mode::Precise && ctx.fails_known(Mode::Wide, &f.expr) == Some(f.class) {
                    Mode::Wide
                } else {
                    f.mode
                };
                let (core, class) = shrink(&ctx, m, &f.expr, f.class, alphabet, literals, false, &never).expect("no evaluation, no error");
                (m, core, class)
            })
            .collect()
    });
    // family key -> (first = simplest member, provisional core)
    let mut families: BTreeMap<(String, &'static str, Mode, Mode), (usize, usize)> = BTreeMap::new();
    for (i, (m, core, class)) in provisional.iter().enumerate() {
        let e = families.entry((core.text(), *class, *m, failures[i].mode)).or_insert((i, 0));
        e.1 += 1;
    }
    const MAX_FAMILIES: usize = 600;
    if families.len() > MAX_FAMILIES {
        caps_hit.push(format!(
            "{} failure families; only the first {} (by provisional core text) were shrunk further and reported",
            families.len(),
            MAX_FAMILIES
        ));
    }
    let mut chosen: Vec<(usize, usize)> = families.values().take(MAX_FAMILIES).cloned().collect();
    // smallest provisional cores first: if the budget runs out, the simplest witnesses are done
    chosen.sort_by_key(|(fi, _)| (provisional[*fi].1.nodes(), provisional[*fi].1.text().len(), *fi));
    // Pass 2 (live evaluation): confirm each family's provisional core in literal form, shrink it
    // to a fixpoint, confirm the result.
    let shrunk: Vec<Result<Option<(String, Violation)>, String>> = threads.install(|| {
        chosen
            .par_iter()
            .map(|&(fi, members)| -> Result<Option<(String, Violation)>, String> {
                let f = &failures[fi];
                let (pmode, pcore, pclass) = &provisional[fi];
                // when nothing can be evaluated any more: report the provisional core as observed
                let provisional_report = || {
                    let sig = if ctx.fails_known(pmode.other(), pcore) == Some(*pclass) {
                        format!("{}: {}", pclass, pcore.text())
                    } else {
                        format!("{}: {} @{}-types", pclass, pcore.text(), pmode.name())
                    };
                    (
                        sig.clone(),
                        Violation {
                            signature: sig,
                            summary: format!(
                                "`{}` failed with class {} (family of {} failing inputs, simplest `{}` => {}); not re-confirmed or shrunk further because the run's hang limit was reached",
                                pcore.source(*pmode),
                                pclass,
                                members,
                                f.expr.source(f.mode),
                                f.observed
                            ),
                            replay: json!({
                                "kind": "expr",
                                "mode": pmode.name(),
                                "class": pclass,
                                "expr": pcore.to_json(),
                                "source": pcore.source(*pmode),
                            }),
                        },
                    )
                };
                if pool::hang_limit_reached() {
                    return Ok(Some(provisional_report()));
                }
                let fresh_class = |e: &Expr| -> Result<Option<&'static str>, String> {
                    Ok(match judge(&oracle::expect(e), &ctx.eval_fresh(f.mode, e)?) {
                        Verdict::Fail { class, .. } => Some(class),
                        _ => None,
                    })
                };
                // The observations may stem from bulk programs: confirm in literal form first.
                let (start, class) = match fresh_class(pcore)? {
                    Some(c) => (pcore.clone(), c),
                    None => match fresh_class(&f.expr)? {
                        Some(c) => (f.expr.clone(), c),
                        None if pool::hang_limit_reached() => return Ok(Some(provisional_report())),
                        None => {
                            // only the bulk program shows it: report that program itself
                            let (program, index) = f.bulk.clone().unwrap_or_default();
                            let sig = format!("bulk-only {}: {} @{}-types", f.class, f.expr.text(), f.mode.name());
                            return Ok(Some((
                                sig.clone(),
                                Violation {
                                    signature: sig,
                                    summary: format!(
                                        "result {} of the program `{}` is {}, documented {}; the same expression on its own agrees with the documentation",
                                        index, program, f.observed, f.expected
                                    ),
                                    replay: json!({
                                        "kind": "bulk",
                                        "mode": f.mode.name(),
                                        "class": f.class,
                                        "program": program,
                                        "index": index,
                                        "expr": f.expr.to_json(),
                                    }),
                                },
                            )));
                        }
                    },
                };
                let (mut core, mut core_class) = (start.clone(), class);
                let mut done = false;
                if *pmode != f.mode && ctx.fails(*pmode, &start)? == Some(class) {
                    let (c, cl) = shrink(&ctx, *pmode, &start, class, alphabet, literals, true, &shrink_budget)?;
                    if fresh_class(&c)? == Some(cl) {
                        (core, core_class, done) = (c, cl, true);
                    }
                }
                if !done {
                    let (c, cl) = shrink(&ctx, f.mode, &start, class, alphabet, literals, true, &shrink_budget)?;
                    // the core itself must fail in a live literal-form evaluation
                    if fresh_class(&c)? == Some(cl) {
                        (core, core_class) = (c, cl);
                    }
                }
                let class = core_class;
                let out = ctx.eval(f.mode, &core)?;
                let both = ctx.fails(f.mode.other(), &core)? == Some(class);
                let sig = if both {
                    format!("{}: {}", class, core.text())
                } else {
                    format!("{}: {} @{}-types", class, core.text(), f.mode.name())
                };
                let exp = oracle::expect(&core);
                let summary = format!(
                    "`{}` => observed {}, documented {} (family of {} failing inputs in {} typing mode, simplest `{}`)",
                    core.source(f.mode),
                    out.describe(),
                    expected_text(&exp),
                    members,
                    f.mode.name(),
                    f.expr.source(f.mode),
                );
                Ok(Some((
                    sig.clone(),
                    Violation {
                        signature: sig,
                        summary,
                        replay: json!({
                            "kind": "expr",
                            "mode": f.mode.name(),
                            "class": class,
                            "expr": core.to_json(),
                            "source": core.source(f.mode),
                        }),
                    },
                )))
            })
            .collect()
    });
    let mut by_sig: BTreeMap<String, Violation> = BTreeMap::new();
    for r in shrunk {
        if let Some((sig, v)) = r? {
            by_sig.entry(sig).or_insert(v);
        }
    }
    let mut violations: Vec<Violation> = by_sig.into_values().collect();
    for v in &mut violations {
        let class = v.replay["class"].as_str().unwrap_or("").to_string();
        let op = Expr::from_json(&v.replay["expr"]).map(|e| root_op(&e)).unwrap_or("?");
        if let Some((_, n)) = group_sizes.iter().find(|((c, o), _)| *c == class && *o == op) {
            v.summary.push_str(&format!(" [{} failing inputs of class {} with outermost {}]", n, class, op));
        }
    }
    violations.extend(hang_violation);
    for (sig, summary, replay) in law_violations {
        violations.push(Violation {
            signature: sig,
            summary,
            replay,
        });
    }
    if shrink_budget.exhausted() && !chosen.is_empty() {
        caps_hit.push("shrink budget exhausted: some signatures are provisional (not fully shrunk) cores".into());
    }
    let failure_families = families.len();

    lap("shrunk");
    // ---- evidence -------------------------------------------------------------------------------
    let Ctx { pool, .. } = ctx;
    pool.shutdown();
    let failure_classes: BTreeMap<String, usize> = group_sizes
        .iter()
        .map(|((c, o), n)| (format!("{} / {}", c, o), *n))
        .collect();
    let exhaustive = waves_done == nwaves;
    let coverage = json!({
        "evaluations": evaluations,
        "planned_evaluations": planned_evaluations,
        "programs_run": programs_run,
        "programs_planned": planned_programs,
        "passed": passed,
        "failed": failures.len(),
        "failure_groups": failure_classes,
        "failure_families": failure_families,
        "abstained": abstained,
        "not_run_cost": skipped_cost,
        "not_run_hang_limit": not_run_hang_limit,
        "programs_hung": hung_programs.len(),
        "not_run_samples": skipped_samples,
        "distinct_nontrivial": nontrivial_set.len(),
        "rule": "every exported operation of std/num.qv (numer denom sqrt neg abs to_int floor ceil round sign | add sub mul div eq? lt? le? gt? ge? min max | clamp) is applied to every operand / every pair of the operand alphabet N, plus 8 one-operand identities per operand of N and 20 depth-2/3 law expressions (incl. clamp) per triple of the law alphabet S; the rendered result must equal the exact host value in the documented canonical form. Two typing modes: `wide` (every operand reaches the call site at the static type 'opt, nil included; evaluated in bulk through template functions with 'opt parameters) covers everything; `precise` (operands written as literals at the call site, so the compiler specialises the result type) covers everything in the thorough tier and, in the quick tier, all constructions, all unary cells, all pairs of S and all triples of precise_triple_alphabet. Constructions: div of every (p, q) of the rational sub-alphabets (and q = 0), every fraction/decimal literal spelling, every surd constructor. A case is non-trivial when no operand is nil and at least one operand is a rational, a surd or an integer beyond 64 bits; distinct = distinct expression text irrespective of typing mode.",
        "per_phase": per_phase,
        "per_outermost_operation": per_op,
        "law_instances": law_counts.iter().map(|(k, c)| (k.to_string(), json!({
            "held": c.held, "undefined_or_nil": c.undefined, "component_failed_oracle": c.component_failed, "violated": c.violated,
        }))).collect::<BTreeMap<_, _>>(),
        "samples": sample_best.values().map(|(_, j)| j.clone()).collect::<Vec<_>>(),
        "exhaustive": exhaustive,
        "caps_hit": caps_hit,
        "universe": {
            "integers": uni.ints.iter().map(|i| i.to_string()).collect::<Vec<_>>(),
            "rational_numerators": uni.rat_p.iter().map(|i| i.to_string()).collect::<Vec<_>>(),
            "rational_denominators": uni.rat_q.iter().map(|i| i.to_string()).collect::<Vec<_>>(),
            "literal_spellings": uni.literals.len(),
            "surd_constructors": uni.surd_ctors.iter().map(|c| c.text()).collect::<Vec<_>>(),
            "radicands_given_to_sqrt": uni.radicands,
            "operand_alphabet_size": uni.operands.len(),
            "operand_alphabet": uni.operands.iter().map(|v| v.render()).collect::<Vec<_>>(),
            "law_alphabet_size": uni.law_operands.len(),
            "law_alphabet": uni.law_operands.iter().map(|v| v.render()).collect::<Vec<_>>(),
            "typing_modes": ["precise", "wide"],
            "sqrt_trial_division_step_cap": oracle::SQFREE_CAP,
            "precise_triple_alphabet": precise_triples.iter().map(|v| v.render()).collect::<Vec<_>>(),
            "precise_pair_alphabet_size": precise_pairs.len(),
            "execution": "real parser + compiler + VM (qcompile::compile, execute_bytecode_sync) in one child process per core, watchdog per program",
        },
    });
    Ok(Report {
        property: "C20",
        level: "exploration",
        coverage,
        assumptions: vec![
            "operands are canonical numbers (produced by the module itself or by literal desugaring); behaviour on hand-made non-canonical tuples is out of scope".into(),
            "the documentation is std/num.qv's comments plus quiver-tests/tests/num.rs: rational results are never lowered, results of operations involving a surd (and of sqrt) collapse to the simplest form with lowered coefficients, min/max/clamp return one of their operands".into(),
            "numer/denom of a surd, clamp with lo > hi, clamp whose bounds carry different radicals, and the representation chosen by min/max/clamp among equal numbers of different kind are not documented: run and counted, not judged".into(),
            "sqrt is only run where the module's trial division needs at most 4000 steps (the rest is counted as not_run_cost)".into(),
        ],
        violations,
    })
}

// ------------------------------------------------------------------------------------------
// replay
// ------------------------------------------------------------------------------------------

pub fn replay(replay: &J) -> Result<bool, String> {
    if std::env::var_os(pool::CHILD_ENV).is_some() {
        pool::child_main();
    }
    let mode = replay["mode"]
        .as_str()
        .and_then(Mode::from_name)
        .ok_or("replay: mode missing")?;
    let mut w = Worker::spawn(Duration::from_secs(60))?;
    let r = (|| -> Result<bool, String> {
        match replay["kind"].as_str() {
            Some("expr") => {
                let e = Expr::from_json(&replay["expr"])?;
                let exp = oracle::expect(&e);
                let src = e.source(mode);
                if matches!(exp, Expect::Skip(_)) {
                    println!("  {}  -- not run: {}", src, expected_text(&exp));
                    return Ok(false);
                }
                let out = w.eval(&src);
                println!("  source   : {}", src);
                println!("  observed : {}", out.describe());
                println!("  expected : {}", expected_text(&exp));
                match judge(&exp, &out) {
                    Verdict::Fail { class, .. } => {
                        println!("  verdict  : {}", class);
                        Ok(true)
                    }
                    Verdict::Pass => {
                        println!("  verdict  : agrees with the documentation");
                        Ok(false)
                    }
                    Verdict::Abstained(r) => {
                        println!("  verdict  : not determined ({})", r);
                        Ok(false)
                    }
                }
            }
            Some("bulk") => {
                let e = Expr::from_json(&replay["expr"])?;
                let exp = oracle::expect(&e);
                let program = replay["program"].as_str().ok_or("program missing")?;
                let index = replay["index"].as_u64().ok_or("index missing")? as usize;
                let out = w.eval(program);
                println!("  program  : {}", program);
                println!("  observed : {}", out.describe());
                let part = match &out {
                    Outcome::Value(t) => oracle::split_tuple(t)
                        .and_then(|cells| cells.first().and_then(|c| oracle::split_tuple(c)))
                        .and_then(|parts| parts.get(index).cloned())
                        .map(Outcome::Value)
                        .unwrap_or(out.clone()),
                    _ => out.clone(),
                };
                println!("  result {} : {}   expected {}", index, part.describe(), expected_text(&exp));
                Ok(matches!(judge(&exp, &part), Verdict::Fail { .. }))
            }
            Some("law") => {
                let law = replay["law"].as_str().ok_or("law missing")?.to_string();
                let mut vals = vec![];
                for j in replay["exprs"].as_array().ok_or("exprs missing")? {
                    let e = Expr::from_json(j)?;
                    let out = w.eval(&e.source(mode));
                    println!("  {} => {}", e.source(mode), out.describe());
                    match out {
                        Outcome::Value(t) => vals.push(Val::parse(&t)?),
                        _ => return Ok(true),
                    }
                }
                let (defined, holds) = law_check(&law, &vals);
                println!("  law {}: defined={} holds={}", law, defined, holds);
                Ok(defined && !holds)
            }
            _ => Err("replay: unknown kind".into()),
        }
    })();
    w.shutdown();
    r
}
