//! C07 — every function the compiler emits is well-formed bytecode (Engine C).

use crate::bcverify::{self, Tables};
use crate::corpus;
use crate::infra::{Budget, Report, Tier, Violation};
use crate::qcompile;
use crate::sim;
use quiver_core::bytecode::Bytecode;
use rayon::prelude::*;
use serde_json::{Value as J, json};
use std::collections::{BTreeMap, HashSet};

#[derive(Default)]
struct Acc {
    programs: u64,
    rejected: u64,
    functions: u64,
    instructions: u64,
    states: u64,
    transitions: u64,
    multi_l_pcs: u64,
    forms: BTreeMap<String, u64>,
    traces_ok: u64,
    trace_records: u64,
    trace_skipped: u64,
    merge_skipped_unclosed: u64,
    violations: Vec<Violation>,
    machinery: Vec<String>,
    samples: Vec<J>,
}

impl Acc {
    fn merge(&mut self, o: Acc) {
        self.programs += o.programs;
        self.rejected += o.rejected;
        self.functions += o.functions;
        self.instructions += o.instructions;
        self.states += o.states;
        self.transitions += o.transitions;
        self.multi_l_pcs += o.multi_l_pcs;
        for (k, v) in o.forms {
            *self.forms.entry(k).or_insert(0) += v;
        }
        self.traces_ok += o.traces_ok;
        self.trace_records += o.trace_records;
        self.trace_skipped += o.trace_skipped;
        self.merge_skipped_unclosed += o.merge_skipped_unclosed;
        self.violations.extend(o.violations);
        self.machinery.extend(o.machinery);
        if self.samples.len() < 4 {
            self.samples.extend(o.samples);
            self.samples.truncate(4);
        }
    }
}

fn check_tables(
    acc: &mut Acc,
    t: &Tables,
    range: std::ops::Range<usize>,
    form: &str,
    origin: &str,
    source: &str,
) -> Vec<bcverify::FnReport> {
    let mut reports = vec![];
    for problem in bcverify::verify_tables(t) {
        acc.violations.push(Violation {
            signature: format!("table-closure|{}|{}", form, origin),
            summary: format!("[{} / {}] tables are not closed: {}", origin, form, problem),
            replay: json!({"engine": "bcverify", "source": source, "origin": origin, "form": form, "rule": "table-closure"}),
        });
    }
    for fi in range {
        let rep = bcverify::verify_function(t, fi);
        acc.functions += 1;
        acc.instructions += t.functions[fi].instructions.len() as u64;
        acc.states += rep.states as u64;
        acc.transitions += rep.transitions as u64;
        acc.multi_l_pcs += rep.multi_l_pcs as u64;
        *acc.forms.entry(form.to_string()).or_insert(0) += 1;
        for p in &rep.problems {
            acc.violations.push(Violation {
                signature: format!("{}|{}|{}", p.rule, form, origin),
                summary: format!(
                    "[{} / {}] function {} pc {}: {}: {} (instruction {:?})",
                    origin,
                    form,
                    p.function,
                    p.pc,
                    p.rule,
                    p.detail,
                    t.functions[p.function].instructions.get(p.pc)
                ),
                replay: json!({"engine": "bcverify", "source": source, "origin": origin, "form": form,
                               "rule": p.rule, "function": p.function, "pc": p.pc}),
            });
        }
        reports.push(rep);
    }
    reports
}

/// Run `bytecode` on the default schedule with the instruction trace on and check every traced
/// instruction's concrete (height, locals) against the abstract reachable set of its function.
fn trace_conformance(acc: &mut Acc, bc: &Bytecode, origin: &str) {
    let has_proc = bc.functions.iter().any(|f| {
        f.instructions.iter().any(|i| {
            matches!(
                i,
                quiver_core::bytecode::Instruction::Select
            )
        })
    });
    // selects with timeouts wait on the virtual clock; they are run too (the default schedule
    // advances it), but programs that never finish are cut by the action budget below
    let _ = has_proc;
    let cfg = sim::system::Config {
        workers: 1,
        quantum: 1000,
        request_early: true,
        io: false,
        defer_effects: false,
    };
    quiver_core::executor::verif::trace_start();
    let sys = sim::system::System::new(cfg, bc.clone());
    let Ok(mut sys) = sys else {
        let _ = quiver_core::executor::verif::trace_take();
        acc.trace_skipped += 1;
        return;
    };
    // no state hashing here: the default schedule is followed once, and fingerprinting would
    // Debug-format every value after every action (a top-level `[x: ~] ^` nests without bound)
    sys.fingerprints = false;
    let mut n = 0;
    loop {
        let alts = sim::explore::alternatives(&sys);
        let Some(a) = alts.first() else { break };
        let act = a.act.clone();
        if sys.apply(&act).is_err() || !sys.errors.is_empty() || n > 150 {
            break;
        }
        n += 1;
    }
    let trace = quiver_core::executor::verif::trace_take();
    // the merged program the worker actually ran
    let program = sys.env.get_program();
    let t = Tables::of_program(program);
    let mut reach: BTreeMap<usize, HashSet<(usize, i64, i64)>> = BTreeMap::new();
    // per process: stack of frame bases
    let mut bases: BTreeMap<usize, Vec<i64>> = BTreeMap::new();
    let mut ok = true;
    for r in &trace {
        let b = bases.entry(r.pid).or_default();
        while b.len() > r.frames {
            b.pop();
        }
        if b.len() < r.frames {
            // new frame(s): the argument is on the stack at pc 0
            while b.len() < r.frames {
                b.push(r.stack_len as i64 - 1);
            }
        } else if r.pc == 0 {
            // a tail call reset this frame
            *b.last_mut().unwrap() = r.stack_len as i64 - 1;
        }
        let base = *b.last().unwrap();
        let h = r.stack_len as i64 - base;
        let l = r.locals_len as i64 - r.locals_base as i64;
        if r.function_index >= t.functions.len() {
            continue;
        }
        let set = reach
            .entry(r.function_index)
            .or_insert_with(|| bcverify::verify_function(&t, r.function_index).reach);
        acc.trace_records += 1;
        // a Select is re-entered at the same pc after its sources were popped into the select
        // state (height one less than at its first entry)
        let is_select = matches!(
            t.functions[r.function_index].instructions.get(r.pc),
            Some(quiver_core::bytecode::Instruction::Select)
        );
        if !set.contains(&(r.pc, h, l)) && !(is_select && set.contains(&(r.pc, h + 1, l))) {
            ok = false;
            acc.machinery.push(format!(
                "abstraction disagrees with the VM on {}: function {} pc {} concrete (h={}, l={}) is not an abstract reachable state",
                origin, r.function_index, r.pc, h, l
            ));
            break;
        }
    }
    if ok && !trace.is_empty() {
        acc.traces_ok += 1;
    }
    sys.shutdown();
}

fn handle_source(src: &corpus::Source, do_trace: bool) -> Acc {
    let mut acc = Acc::default();
    sim::system::install_panic_recorder();
    if std::env::var("VERIF_TRACE_SOURCES").is_ok() {
        eprintln!("SOURCE {} :: {:?}", src.origin, src.text);
    }
    let builtins = if src.needs_io {
        qcompile::io_builtins()
    } else {
        qcompile::core_builtins()
    };
    let unit = match std::panic::catch_unwind(|| qcompile::compile(&src.text, &builtins)) {
        Ok(Ok(u)) => u,
        _ => {
            acc.rejected += 1;
            return acc;
        }
    };
    acc.programs += 1;
    // (a) as compiled: every function of the program
    let t = Tables::of_program(&unit.program);
    check_tables(&mut acc, &t, 0..t.functions.len(), "compiled", &src.origin, &src.text);
    // (b) tree-shaken
    let shaken = unit.program.to_bytecode_optimized(unit.entry);
    let ts = Tables::of_bytecode(&shaken);
    check_tables(&mut acc, &ts, 0..ts.functions.len(), "tree_shaken", &src.origin, &src.text);
    if let Some(e) = shaken.entry {
        if e >= shaken.functions.len() {
            acc.violations.push(Violation {
                signature: format!("entry-range|tree_shaken|{}", src.origin),
                summary: format!("[{}] tree-shaken entry {} out of range", src.origin, e),
                replay: json!({"engine": "bcverify", "source": src.text, "origin": src.origin, "form": "tree_shaken"}),
            });
        }
    }
    // (c) JSON round trip keeps the verdicts (and the bytes)
    if let Ok(js) = serde_json::to_string(&shaken) {
        if let Ok(back) = serde_json::from_str::<Bytecode>(&js) {
            let tb = Tables::of_bytecode(&back);
            check_tables(&mut acc, &tb, 0..tb.functions.len(), "json_round_trip", &src.origin, &src.text);
        }
    }
    if do_trace && !src.needs_io {
        trace_conformance(&mut acc, &unit.bytecode(), &src.origin);
    }
    if acc.samples.is_empty() {
        acc.samples.push(json!({"origin": src.origin, "source": src.text.chars().take(200).collect::<String>(),
            "functions": t.functions.len(), "abstract_states_of_entry": bcverify::verify_function(&t, unit.entry).states}));
    }
    acc
}

/// Merge a chunk of programs one after another into ONE environment and verify the functions each
/// merge added against the environment's tables (every table index shifted and deduplicated).
fn merged_chunk(chunk: &[(String, String, Bytecode)]) -> Acc {
    let mut acc = Acc::default();
    sim::system::install_panic_recorder();
    let cfg = sim::system::Config {
        workers: 1,
        quantum: 1000,
        request_early: true,
        io: false,
        defer_effects: false,
    };
    let Ok(mut sys) = sim::system::System::boot(cfg, None) else {
        acc.machinery.push("cannot boot environment".into());
        return acc;
    };
    for (origin, text, bc) in chunk {
        // a bytecode whose own tables are not closed was already reported in its tree-shaken
        // form; merging it would make the environment walk dangling / cyclic type ids
        if !bcverify::verify_tables(&Tables::of_bytecode(bc)).is_empty() {
            acc.merge_skipped_unclosed += 1;
            continue;
        }
        let before = sys.env.get_program().get_functions().len();
        let r = std::panic::catch_unwind(std::panic::AssertUnwindSafe(|| sys.env.start_process(Some(bc.clone()))));
        match r {
            Ok(Ok(_)) => {}
            Ok(Err(e)) => {
                acc.machinery.push(format!("merge of {} failed: {:?}", origin, e));
                continue;
            }
            Err(_) => {
                acc.violations.push(Violation {
                    signature: format!("merge-panic|merged|{}", origin),
                    summary: format!("[{}] merge_bytecode panicked: {}", origin, sim::system::take_panic()),
                    replay: json!({"engine": "bcverify", "source": text, "origin": origin, "form": "merged"}),
                });
                break;
            }
        }
        let program = sys.env.get_program();
        let t = Tables::of_program(program);
        let after = t.functions.len();
        check_tables(&mut acc, &t, before..after, "merged", origin, text);
    }
    sys.shutdown();
    acc
}

fn tokens(src: &str) -> Vec<String> {
    let mut out = vec![];
    let mut cur = String::new();
    for ch in src.chars() {
        if ch.is_alphanumeric() || ch == '_' || ch == '\'' {
            cur.push(ch);
        } else {
            if !cur.is_empty() {
                out.push(std::mem::take(&mut cur));
            }
            out.push(ch.to_string());
        }
    }
    if !cur.is_empty() {
        out.push(cur);
    }
    out
}

fn violates(src: &str, rule: &str, needs_io: bool) -> bool {
    let s = corpus::Source {
        origin: "shrink".into(),
        text: src.to_string(),
        group: 0,
        needs_io,
    };
    let acc = handle_source(&s, false);
    acc.violations.iter().any(|v| v.signature.starts_with(&format!("{}|", rule)))
}

/// Deterministic token-level shrinker: remove windows of 1..=3 tokens while the same rule is
/// still violated, to a fixpoint. The result is the violation's signature core.
fn shrink(src: &str, rule: &str, needs_io: bool) -> String {
    let mut toks = tokens(src);
    let mut changed = true;
    while changed {
        changed = false;
        for w in (1..=3).rev() {
            let mut i = 0;
            while i + w <= toks.len() {
                let mut cand = toks.clone();
                cand.drain(i..i + w);
                let text: String = cand.concat();
                if !text.trim().is_empty() && violates(&text, rule, needs_io) {
                    toks = cand;
                    changed = true;
                } else {
                    i += 1;
                }
            }
        }
        // remove a matching pair of brackets
        let mut i = 0;
        'outer: while i < toks.len() {
            if toks[i] == "[" || toks[i] == "{" || toks[i] == "(" {
                for j in (i + 1..toks.len()).rev() {
                    if toks[j] == "]" || toks[j] == "}" || toks[j] == ")" {
                        let mut cand = toks.clone();
                        cand.remove(j);
                        cand.remove(i);
                        let text: String = cand.concat();
                        if !text.trim().is_empty() && violates(&text, rule, needs_io) {
                            toks = cand;
                            changed = true;
                            continue 'outer;
                        }
                    }
                }
            }
            i += 1;
        }
    }
    let text: String = toks.concat();
    text.split_whitespace().collect::<Vec<_>>().join(" ")
}

pub fn run(tier: Tier) -> Result<Report, String> {
    let thorough = tier == Tier::Thorough;
    let budget = Budget::new(if thorough { 700.0 } else { 40.0 });
    let (mut sources, stats) = corpus::load(&crate::infra::repo_root());
    // the Engine-A scenario programs are part of the corpus too
    for sc in sim::scenarios::messaging_all(true)
        .into_iter()
        .chain(sim::scenarios::bin_all())
        .chain(sim::scenarios::select_mix_all(thorough))
        .chain(sim::scenarios::fail_all())
        .chain(sim::scenarios::res_all())
    {
        sources.push(corpus::Source {
            origin: format!("scenario/{}", sc.id),
            text: sc.source.clone(),
            group: 0,
            needs_io: sc.io,
        });
    }
    // hand-written probes: tail calls in every syntactic position
    for (i, p) in [
        "h = #'int { =0 => \"x\" | \"a{ [~, 1] __integer_subtract__ ^ }\" }, 2 h",
        "f = #'int { =0 => 9 | [~, 1] __integer_subtract__ ^ }, 3 f",
        "f = #'int { =0 => 9 | x = [~, 1] __integer_subtract__, y = 2, x ^ }, 3 f",
        "f = #'int { =0 => 9 | [~, 1] __integer_subtract__ { =0 => 0 ^ | ^ } }, 3 f",
        "g = #['int, 'int] { .0 }, f = #'int { [~, 1] ^g }, 3 f",
        "g = #{ 10 }, f = #'int { &g ^~ }, 5 f",
        "f = #'int { =0 => 9 | { { [~, 1] __integer_subtract__ ^ } } }, 2 f",
        "f = #'int { =0 => 9 | [~, 1] __integer_subtract__ =n => n ^ }, 2 f",
        "f = #'int { =0 => 9 | [~, 1] __integer_subtract__ ^ 5 }, 2 f",
        "f = #'int { =0 => 9 | [~, 1] __integer_subtract__ ^, 5 }, 2 f",
        "f = #'int { =0 => 9 | a = 1, { b = 2, [[~, 1] __integer_subtract__, b] .0 ^ } }, 2 f",
        // nilary functions whose `^` has a non-nil value flowing in (server loops)
        "s = #{ !#'int { | =0 => 0 | ^ } }, p = @s, 2 p, 1 p, 0 p, !p",
        "c = #{ 1 { | =0 => 0 | ^ } }",
        "c = #{ 7 ^ }",
        "c = #{ x = 3, x { | =0 => 0 | =n => n ^ } }",
    ]
    .iter()
    .enumerate()
    {
        sources.push(corpus::Source {
            origin: format!("probe/tailcall{}", i),
            text: p.to_string(),
            group: 0,
            needs_io: false,
        });
    }
    // generated programs (shared enumerator of the core grammar)
    let gen_n = if thorough { 4 } else { 3 };
    let generated = crate::progen::programs(gen_n, if thorough { 400_000 } else { 60_000 });
    let gen_count = generated.len();
    for (i, g) in generated.into_iter().enumerate() {
        sources.push(corpus::Source {
            origin: format!("gen/{}", i),
            text: g,
            group: 0,
            needs_io: false,
        });
    }
    let total_sources = sources.len();
    let t0 = std::time::Instant::now();
    let trace_stride = if thorough { 1 } else { 3 };
    let acc = sources
        .par_iter()
        .enumerate()
        .map(|(i, s)| {
            if budget.exhausted() {
                let mut a = Acc::default();
                a.trace_skipped += 1;
                return a;
            }
            let is_gen = s.origin.starts_with("gen/");
            handle_source(s, if is_gen { i % 50 == 0 } else { i % trace_stride == 0 })
        })
        .reduce(Acc::default, |mut a, b| {
            a.merge(b);
            a
        });
    let mut acc = acc;
    eprintln!("phase 1 (per-source) {:.1}s", t0.elapsed().as_secs_f64());
    // merged form: chunks of corpus programs (no io) merged cumulatively into one environment
    let mergeable: Vec<(String, String, Bytecode)> = sources
        .par_iter()
        .filter(|s| !s.needs_io && !s.origin.starts_with("gen/"))
        .filter_map(|s| {
            sim::system::install_panic_recorder();
            let r = std::panic::catch_unwind(|| qcompile::compile(&s.text, &qcompile::core_builtins()));
            match r {
                Ok(Ok(u)) => Some((s.origin.clone(), s.text.clone(), u.program.to_bytecode_optimized(u.entry))),
                _ => None,
            }
        })
        .collect();
    eprintln!("phase 2 (compile mergeable) {:.1}s", t0.elapsed().as_secs_f64());
    let chunk_size = 25;
    let merged = mergeable
        .par_chunks(chunk_size)
        .map(|c| {
            if budget.exhausted() {
                return Acc::default();
            }
            merged_chunk(c)
        })
        .reduce(Acc::default, |mut a, b| {
            a.merge(b);
            a
        });
    eprintln!("phase 3 (merged) {:.1}s", t0.elapsed().as_secs_f64());
    let merged_functions = merged.functions;
    acc.merge(merged);
    if !acc.machinery.is_empty() {
        return Err(format!(
            "{} machinery problem(s), first: {}",
            acc.machinery.len(),
            acc.machinery[0]
        ));
    }
    // collapse violations to their shrunk cores (one representative per rule x core)
    let raw = std::mem::take(&mut acc.violations);
    let mut shrunk: BTreeMap<String, Violation> = BTreeMap::new();
    let mut shrink_cache: BTreeMap<(String, String), String> = BTreeMap::new();
    let raw_count = raw.len();
    // shrink distinct (rule, source) pairs in parallel
    let mut pairs: Vec<(String, String)> = raw
        .iter()
        .map(|v| (v.replay["rule"].as_str().unwrap_or("").to_string(), v.replay["source"].as_str().unwrap_or("").to_string()))
        .collect();
    pairs.sort();
    pairs.dedup();
    let results: Vec<((String, String), String)> = pairs
        .par_iter()
        .map(|(rule, src)| {
            sim::system::install_panic_recorder();
            let core = if rule.is_empty() { src.clone() } else { shrink(src, rule, src.contains("__file_")) };
            ((rule.clone(), src.clone()), core)
        })
        .collect();
    for (k, v) in results {
        shrink_cache.insert(k, v);
    }
    for mut v in raw {
        let rule = v.replay["rule"].as_str().unwrap_or("").to_string();
        let src = v.replay["source"].as_str().unwrap_or("").to_string();
        let core = shrink_cache.get(&(rule.clone(), src.clone())).cloned().unwrap_or(src.clone());
        let sig = format!("{}|{}", if rule.is_empty() { v.signature.split('|').next().unwrap_or("") } else { &rule }, core);
        v.signature = sig.clone();
        v.replay["core"] = json!(core);
        shrunk.entry(sig).or_insert(v);
    }
    acc.violations = shrunk.into_values().collect();
    let exhausted = budget.exhausted();
    let coverage = json!({
        "violating_functions_before_shrinking": raw_count,
        "states": acc.states.max(1),
        "transitions": acc.transitions.max(1),
        "traces_validated_against_impl": acc.traces_ok,
        "merges_skipped_because_tables_not_closed": acc.merge_skipped_unclosed,
        "trace_records_compared": acc.trace_records,
        "explanation": "states/transitions are abstract machine states (pc, operand height, locals count) and edges summed over all verified functions; every reachable abstract state of every function is visited (finite), so all control-flow paths are covered. traces_validated_against_impl = real executions (default schedule of the real runtime with the per-instruction trace hook) whose every traced instruction's concrete (height, locals) was a member of the abstract reachable set of its function at that pc.",
        "functions_verified": acc.functions,
        "instructions": acc.instructions,
        "programs_accepted": acc.programs,
        "sources_rejected_by_compiler": acc.rejected,
        "sources_total": total_sources,
        "generated_programs": gen_count,
        "generated_max_nodes": gen_n,
        "functions_by_form": acc.forms,
        "merged_functions": merged_functions,
        "merge_chunk_size": chunk_size,
        "pcs_reached_with_several_locals_counts": acc.multi_l_pcs,
        "corpus": {"test_literals": stats.test_literals, "skipped_format_templates": stats.skipped_format_templates,
                   "spec_blocks": stats.spec_blocks, "std_modules": stats.std_modules, "examples": stats.examples},
        "caps_hit": {"wall_budget_exhausted": exhausted},
        "exhaustive": !exhausted,
        "samples": acc.samples,
    });
    Ok(Report {
        property: "C07",
        level: "model_checking",
        coverage,
        assumptions: vec![
            "transfer functions (operand effect, locals effect, successors) of the 24 instructions are read off execute_hot/execute_cold and validated against real traces (a disagreement is a machinery failure, exit 2)".into(),
            "Select is modelled by its completed effect (1 -> 1); its re-entries around a filter call stay at the same pc".into(),
            "programs = corpus (std, test-suite literals, spec examples, examples/, Engine-A scenarios) plus all programs of the core grammar up to generated_max_nodes nodes; larger programs are out of reach".into(),
        ],
        violations: acc.violations,
    })
}

pub fn replay(replay: &J) -> Result<bool, String> {
    let source = replay["source"].as_str().ok_or("no source")?;
    let form = replay["form"].as_str().unwrap_or("compiled");
    let src = corpus::Source {
        origin: replay["origin"].as_str().unwrap_or("replay").to_string(),
        text: source.to_string(),
        group: 0,
        needs_io: source.contains("__file_"),
    };
    println!("  source:\n{}", source);
    let mut acc = handle_source(&src, false);
    if form == "merged" {
        if let Ok(u) = qcompile::compile(source, &qcompile::core_builtins()) {
            acc.merge(merged_chunk(&[(src.origin.clone(), src.text.clone(), u.program.to_bytecode_optimized(u.entry))]));
        }
    }
    for v in &acc.violations {
        println!("  observed: {}", v.summary);
    }
    if acc.violations.is_empty() {
        println!("  observed: every function is well-formed in all forms");
    }
    Ok(!acc.violations.is_empty())
}
